"""C18 Compression codecs round-trip and respect output caps.

proof         : coq/prop/P_C18.v over model/M_Codec.v (proofs in proof/L_Codec.v).  The codec libraries are a record of
                functions; the theorems quantify over every such record that satisfies the stated laws
                (decomp o comp = id, honest content-size field, readers that make progress) -- those laws are ASSUMED,
                the cap / dispatch / sentinel / loop logic of vgi_rpc/_codec.py around them is proved for all byte
                strings, levels and caps >= 0.
regenerated   : constants, sentinel tuple, refusal guard, both read-size expressions, the three `total > cap` tests and the
                default levels of vgi_rpc/_codec.py -> gen/G_Codec.v (translate/t_c18_codec.py, which also matches the
                statement skeleton of the seven modelled functions); tie/T_Codec.v: gen_params = std_params gen_knobs by reflexivity
                and the theorems restated over gen_params.
correspondence: the REAL zstd / zlib libraries.  For every frame the libraries' own answers (declared size, one-shot
                result, stream content, the chunk lengths the readers actually returned) are the model's environment; the
                model must predict what vgi_rpc._codec.decompress returned AND the exact sequence of sizes it asked for.
oracle        : independently of the model: for every compressor-produced frame of d and every cap, decompress returns d
                iff len(d) <= cap and raises DecompressionLimitExceeded otherwise; without a cap it returns d.

Readings adopted where the statement leaves room:
  * "identity" takes part in the round-trip sentence; the cap sentence speaks of *frames* ("size-declaring and streaming
    (size-less) frames"), i.e. of the compressing codecs.  decompress(IDENTITY, data, max_output_size=c) returns data
    whatever c is (there is nothing to inflate; the wire cap bounds it elsewhere -- C17).  This is modelled and proved
    (C18_identity) and corresponded, but an over-cap identity pass-through is NOT reported as a violation.
  * "frames produced by one-shot and streaming compressors": single frames / single gzip members of one byte string.
    Concatenated frames, truncated streams and frames whose header lies are outside the statement; they are run for the
    model correspondence only (what _codec does with them: first member only, silent prefix, library error).
  * caps are >= 0 (len-1 is skipped for the empty string).
  * "all levels": every level the libraries accept (zstd -131072..22, zlib -1..9); a sample in the quick tier.
  * exhaustive small strings: the full alphabet up to length 1 (quick) / 2 (thorough), and a reduced alphabet containing the
    magic bytes of both formats up to length 3 (quick) / 4 (thorough); 256^4 strings are out of reach.
"""
from __future__ import annotations

import itertools
import json
from pathlib import Path
from typing import Any

META = {
    "id": "C18",
    "technique": "Coq proof of the cap/dispatch logic relative to codec laws + regenerated decision expressions (skeleton-matched) "
    "+ differential correspondence against the real zstd/zlib with recorded reader behaviour",
    "level_text": "Coq theorems for all byte strings, all levels, all caps >= 0 and every codec-library behaviour satisfying the "
    "laws: decompress(compress(d)) under a cap is d iff len d <= cap and the limit error otherwise, for size-declaring "
    "frames (fast path) and size-less frames (streaming loop, invariant on the running total) of zstd and for gzip "
    "(bounded zlib loop + flush); no cap => d; identity passes through; -1 and 2^64-1 both mean unknown size and nothing "
    "else does; a declared size above the cap is refused before decoding; every read size is in [1, min(65536, cap+1)]. "
    "The decision expressions in the theorems are regenerated from the source on every run.",
    "level_note": "PARTIAL: `decomp o comp = id` itself (zstd, zlib), the honesty of the stored content size and the progress of "
    "the streaming readers are ASSUMED (premises codec_laws / zstd_frame_of / gz_frame_of), validated only by the "
    "correspondence run on the sampled frames. Trusted: Coq kernel (vm_compute), t_c18_codec translator + skeletons, "
    "recording proxies, python-zstandard / zlib as the reference for their own answers.",
    "design_ref": "§5 C18",
}

ZSTD_KINDS_ALL = ["api", "nosize", "checksum", "cobj", "cobj_sized", "writer", "arrow"]
GZIP_KINDS_ALL = ["api", "gzipmod", "sync"]
BIG_CAP = 1 << 40
HEADER = ("From Coq Require Import List NArith ZArith Bool.\nFrom VGI Require Import M_Codec G_Codec.\n"
          "Import ListNotations.\nOpen Scope Z_scope.")


def translate(ctx: Any) -> None:
    from translate import t_c18_codec

    ctx.gen("G_Codec", lambda: t_c18_codec.codec_definitions(ctx.repo / "vgi_rpc" / "_codec.py"))


# ---------------------------------------------------------------------------
# case generation
# ---------------------------------------------------------------------------
def _payloads(ctx: Any) -> list[tuple[str, list[tuple]]]:
    rng = ctx.rng
    thorough = ctx.tier == "thorough"
    out: list[tuple[str, list[tuple]]] = []
    full_len = 2 if thorough else 1
    for n in range(full_len + 1):
        for t in itertools.product(range(256), repeat=n):
            out.append(("exh-full", [("lit", bytes(t))]))
    alpha = [0x00, 0x28, 0xB5, 0x2F, 0xFD, 0x1F, 0x8B, 0xFF] if thorough else [0x00, 0x28, 0xB5, 0xFF]
    for n in range(full_len + 1, (4 if thorough else 3) + 1):
        for t in itertools.product(alpha, repeat=n):
            out.append(("exh-alpha", [("lit", bytes(t))]))
    mult = 10 if thorough else 1

    def rnd_spec(lo: int, hi: int) -> list[tuple]:
        n = rng.randint(lo, hi)
        style = rng.choice(["xs", "rep", "mix", "lit"] if hi <= 4096 else ["xs", "rep", "mix"])
        if style == "lit" or n <= 8:
            return [("lit", bytes(rng.randrange(256) for _ in range(n)))]
        if style == "xs":
            return [("xs", rng.randrange(1, 1 << 32), n)]
        if style == "rep":
            pat = bytes(rng.randrange(256) for _ in range(rng.randint(1, 7)))
            k = n // len(pat)
            tail = n - k * len(pat)
            return [("rep", pat, k)] + ([("lit", pat[:tail])] if tail else [])
        a = rng.randint(0, n)
        pat = bytes(rng.randrange(256) for _ in range(rng.randint(1, 5)))
        k = (n - a) // len(pat)
        rest = n - a - k * len(pat)
        return [("xs", rng.randrange(1, 1 << 32), a), ("rep", pat, k), ("lit", bytes(rng.randrange(256) for _ in range(rest)))]

    for _ in range(60 * mult):
        out.append(("rnd-small", rnd_spec(2, 64)))
    for _ in range(30 * mult):
        out.append(("rnd-medium", rnd_spec(65, 4096)))
    for _ in range(10 * mult):
        out.append(("rnd-large", rnd_spec(4097, 65536)))
    out.append(("rnd-large", [("xs", 0xC18, 65536)]))
    # structured large inputs around the 64 KiB chunk of the streaming loops
    out += [
        ("big", [("rep", b"\x00", 65535)]),
        ("big", [("rep", b"\x00", 65536)]),
        ("big", [("rep", b"ab", 32768), ("lit", b"c")]),
        ("big", [("xs", 7, 65537)]),
        ("big", [("rep", b"\x01\x02\x03\x04", 32768)]),
        ("big", [("xs", 11, 131073)]),
        ("big", [("xs", 13, 70000), ("rep", b"\x00", 130000)]),
        ("big", [("rep", b"vgi-rpc ", 25000)]),
    ]
    if thorough:
        out += [
            ("big", [("rep", b"\x00", 1048577)]),
            ("big", [("xs", 17, 196608)]),
            ("big", [("rep", b"\xff", 131071)]),
            ("big", [("rep", b"\xff", 131072)]),
            ("big", [("xs", 19, 300001)]),
        ]
    return out


def _caps(n: int) -> list[int | None]:
    caps: list[int | None] = [None, 0]
    if n >= 1:
        caps.append(n - 1)
    caps += [n, n + 1, BIG_CAP]
    if n > 65536:
        caps += [65535, 65536, 65537]
    return list(dict.fromkeys(caps))


def _rel(n: int, cap: int | None) -> str:
    if cap is None:
        return "none"
    return "under" if cap < n else ("at" if cap == n else ("plus1" if cap == n + 1 else "above"))


# ---------------------------------------------------------------------------
def run(ctx: Any) -> None:
    import sys

    from harness import c18_codec as H
    from vlib.coqterm import cbool

    translate(ctx)
    ctx.prove(
        ["prop/P_C18.vo"],
        {
            "P_C18": [
                "C18_roundtrip_cap", "C18_roundtrip_nocap", "C18_zstd_frame_cap", "C18_zstd_frame_nocap",
                "C18_gzip_frame_cap", "C18_gzip_frame_nocap", "C18_identity", "C18_unknown_size_sentinel", "C18_known_size",
                "C18_declared_over_cap_refused", "C18_declared_within_cap_oneshot", "C18_requests_bounded",
                "C18_zstd_loop_terminates",
            ],
        },
    )
    ctx.prove(
        ["tie/T_Codec.vo"],
        {
            "T_Codec": [
                "codec_params_tie", "codec_chunk_ok", "C18_source_roundtrip_cap", "C18_source_roundtrip_nocap", "C18_source_zstd_frame_cap",
                "C18_source_gzip_frame_cap", "C18_source_unknown_size_sentinel", "C18_source_requests_bounded",
            ],
        },
    )

    ctx.prove(["refuted/R_C18.vo"], {"R_C18": ["C18_identity_ignores_cap_refuted", "C18_old_gzip_loop_spins_refuted"]})

    import zstandard
    import zlib

    from vgi_rpc import _codec

    rng = ctx.rng
    thorough = ctx.tier == "thorough"
    try:
        import pyarrow  # noqa: F401
        have_arrow = True
    except Exception:  # noqa: BLE001
        have_arrow = False
    zstd_kinds = [k for k in ZSTD_KINDS_ALL if k != "arrow" or have_arrow]
    zstd_levels: list[int | None] = [None] + (list(range(-22, 23)) + [-131072, -1000] if thorough else [-131072, -5, 0, 1, 3, 9, 19, 22])
    gzip_levels: list[int | None] = [None, -1, 0, 1, 2, 3, 4, 5, 6, 7, 8, 9]
    # streaming zstd compressors at high levels allocate their full window per object (~0.1 s each): the level quantifier of the
    # property is about compress(); the streaming kinds get the cheap levels, and the expensive ones once
    stream_levels: list[int | None] = [None, -131072, -5, 0, 1, 3, 9]
    heavy_done = False
    for lv in zstd_levels:
        ctx.tally("zstd_level_offered", lv)

    ctx.rule = ("case = payload x codec {zstd, gzip, identity} x compressor kind (one-shot api / size-less one-shot / streaming "
                "compressobj, stream_writer, Arrow CompressedOutputStream, gzip module, sync-flushed) x level x cap in "
                "{None, 0, len-1, len, len+1, 2^40 (+65535/65536/65537 for len > 64 KiB)}; payloads: exhaustive small strings, "
                "seeded random (incompressible / repetitive / mixed) up to 64 KiB, structured inputs around multiples of the "
                "64 KiB read chunk; plus correspondence-only frames (lying header, concatenated, truncated, -1 sentinel); "
                "non-trivial = compressing codec with a finite cap")

    # model cases are grouped by payload (expanded once per group in Coq): key -> (payload term, size, [(sub input, expected, meta)])
    groups: dict[str, tuple[str, int, list[tuple[str, str, dict[str, Any]]]]] = {}
    law_failures: list[str] = []
    hangs: list[str] = []
    fed_bad: list[str] = []
    trace_differs: list[str] = []

    def verdict_term(cls: str, out: bytes | None, d: bytes) -> str:
        if cls == "ok":
            return "VSame" if out == d else f"VOther ({len(out or b'')}) {H.coq_bytes((out or b'')[:32])}"
        if cls == "limit":
            return "VLimit"
        return "VCodecErr"

    def add_model_case(codec: str, cap: int | None, spec: list[tuple], d: bytes, raw: int, one: bytes | None, reads: list[int],
                       data_ne: bool, eof: bool, decs: list[tuple[int, bool, bool]], cls: str, out: bytes | None, reqs: list[int], meta: dict[str, Any]) -> None:
        code = {"identity": 0, "zstd": 1, "gzip": 2}[codec]
        cap_t = "None" if cap is None else f"(Some ({cap}))"
        one_t = "None" if one is None else ("(Some None)" if one == d else f"(Some (Some {H.coq_bytes(one)}))")
        reads_t = "[" + "; ".join(str(x) for x in reads) + "]"
        decs_t = "[" + "; ".join(f"({k}, {cbool(t)}, {cbool(e)})" for k, t, e in decs) + "]"
        inp = f"({code}%N, {cap_t}, (({raw}), {one_t}, {reads_t}), ({cbool(data_ne)}, {cbool(eof)}, {decs_t}))"
        exp = f"({verdict_term(cls, out, d)}, [{'; '.join(f'({r})' for r in reqs)}])"
        pterm = H.coq_spec(spec)
        groups.setdefault(pterm, (pterm, len(d), []))[2].append((inp, exp, meta))

    def oracle(codec: str, kind: str, d: bytes, cap: int | None, cls: str, out: bytes | None, msg: str, repl: dict[str, Any]) -> None:
        """The property's own predicate on what the real code did."""
        tagk = f"{codec}:{kind}"
        if cls == "limit-not-a-DecompressionError":
            ctx.violation(f"limit-error-wrong-class:{tagk}", "the limit error is not a DecompressionError", repl)
            return
        if cap is None:
            if cls != "ok" or out != d:
                ctx.violation(f"roundtrip-differs:{tagk}", f"decompress(compress(d)) without a cap: {cls} {msg[:80]}", repl)
            return
        if codec == "identity":
            if len(d) <= cap and (cls != "ok" or out != d):
                ctx.violation("identity-not-passthrough", f"identity under a sufficient cap: {cls} {msg[:80]}", repl)
            return
        if len(d) <= cap:
            if cls != "ok":
                ctx.violation(f"within-cap-refused:{tagk}:{_rel(len(d), cap)}", f"len {len(d)} <= cap {cap} but {cls}: {msg[:100]}", repl)
            elif out != d:
                ctx.violation(f"within-cap-wrong-bytes:{tagk}", f"len {len(d)} <= cap {cap}: returned {len(out or b'')} different bytes", repl)
        else:
            if cls == "ok":
                ctx.violation(f"over-cap-returned:{tagk}:{'streaming' if repl.get('declared') is None else 'declared'}",
                              f"len {len(d)} > cap {cap} but {len(out or b'')} bytes were returned", repl)
            elif cls != "limit":
                ctx.violation(f"over-cap-wrong-error:{tagk}", f"len {len(d)} > cap {cap}: {msg[:100]} instead of DecompressionLimitExceeded", repl)

    def one_frame(codec: str, kind: str, level: int | None, spec: list[tuple], d: bytes, frame: bytes, cuts: list[int], *, produced: bool,
                  sentinel: bool = False, do_model: bool = True, caps: list[int | None] | None = None, klass: str = "") -> None:
        """Run every cap on one frame: oracle (unpatched code), traced run, model case."""
        if codec == "zstd":
            ans = H.zstd_answers(frame)
            raw = -1 if (sentinel and ans["raw"] == H.UNKNOWN) else ans["raw"]
            declared = None if raw in (-1, H.UNKNOWN) else raw
            if produced:
                if ans["stream"] != d:
                    law_failures.append(f"zstd {kind}: stream decoder != original (len {len(d)})")
                if declared is not None and (declared != len(d) or ans["oneshot"] != d):
                    law_failures.append(f"zstd {kind}: declared {declared} / one-shot disagree with original (len {len(d)})")
            payload = d if produced else (ans["stream"] if ans["stream"] is not None else d)
        elif codec == "gzip":
            ans = H.gzip_answers(frame)
            declared = None
            if produced and (ans["stream"] != d or not ans["eof"]):
                law_failures.append(f"gzip {kind}: zlib stream decoder != original or no eof (len {len(d)})")
            payload = d if produced else (ans["stream"] if ans["stream"] is not None else b"")
        else:
            ans, declared, payload = {}, None, d
        pspec = spec if payload == d else [("lit", payload)]
        for cap in (caps if caps is not None else _caps(len(d))):
            repl = {"codec": codec, "kind": kind, "level": level, "cap": cap, "len": len(d), "payload": H.spec_json(spec), "cuts": cuts,
                    "declared": declared, "sentinel_minus1": sentinel, "frame_hex": frame.hex() if len(frame) <= 2048 else None}
            # 1. the unpatched implementation -> oracle
            if not sentinel:
                cls, out, msg, _ = H.run_decompress(codec, frame, cap, trace=False)
                ctx.count("impl_runs")
            else:
                with H.recording():
                    cls, out, msg, _ = H.run_decompress(codec, frame, cap, trace=False, sentinel_minus1=True)
                ctx.count("impl_runs")
            repl["observed"] = [cls, msg[:160], None if out is None else len(out)]
            if cls == "hang":
                # the call never returned.  For a compressor-produced frame that is a violation of the property; for the frames
                # outside the statement it is recorded (the gzip loop spins on trailing input after the end-of-stream marker when
                # the output exceeds one read chunk -- reported under C17) and not modelled.
                if produced:
                    ctx.violation(f"hang:{codec}:{kind}", "decompress did not return", repl)
                else:
                    hangs.append(f"{codec}:{kind} len={len(d)} cap={cap}")
                ctx.case([codec, kind, level, klass, len(d), zlib.crc32(d), cap, sentinel], nontrivial=False)
                continue
            if produced:
                oracle(codec, kind, d, cap, cls, out, msg, repl)
            ctx.case([codec, kind, level, klass, len(d), zlib.crc32(d), cap, sentinel], nontrivial=codec != "identity" and cap is not None)
            ctx.tally("codec", codec)
            ctx.tally("kind", f"{codec}:{kind}" + (":sentinel-1" if sentinel else "") + ("" if produced else " (correspondence only)"))
            ctx.tally("cap_relation", _rel(len(d), cap))
            ctx.tally("payload_class", klass)
            if codec == "zstd":
                ctx.tally("zstd_frame", "size-less" if declared is None else "size-declaring")
            if not do_model:
                continue
            # 2. the same call with the libraries behind recording proxies -> model environment
            with H.recording():
                cls2, out2, msg2, tr = H.run_decompress(codec, frame, cap, trace=True, sentinel_minus1=sentinel)
            ctx.count("traced_runs")
            assert tr is not None
            if (cls2, out2) != (cls, out):
                trace_differs.append(f"{codec}:{kind} cap={cap}: {cls}/{cls2}")
            if not tr.fed_in_order:
                fed_bad.append(f"{codec}:{kind} cap={cap} len={len(d)}")
            if codec == "zstd":
                reqs = [n for n, _ in tr.reads]
                reads = [k for _, k in tr.reads]
                # law: a read of n >= 1 returns 1..n bytes while output remains
                left = len(payload)
                for n, k in tr.reads:
                    if n >= 1 and left > 0 and not (1 <= k <= n):
                        law_failures.append(f"zstd reader.read({n}) returned {k} bytes with {left} left")
                    left -= k
                add_model_case(codec, cap, pspec, payload, raw, ans["oneshot"], reads, True, True, [], cls, out, reqs, repl)
            elif codec == "gzip":
                reqs = [n for n, _, _, _ in tr.decs]
                for n, k, tail, _e in tr.decs:
                    if n >= 1 and (k > n or (tail and k < 1)):
                        law_failures.append(f"zlib decompress(.., {n}) returned {k} bytes, tail={tail}")
                add_model_case(codec, cap, pspec, payload, 0, None, [], len(frame) > 0, bool(ans["eof"]), [(k, t, e) for _, k, t, e in tr.decs], cls, out, reqs, repl)
            else:
                add_model_case(codec, cap, pspec, payload, 0, None, [], len(frame) > 0, True, [], cls, out, [], repl)

    # ---- compressor-produced frames ------------------------------------------------
    payloads = _payloads(ctx)
    sweep_idx = set(rng.sample(range(len(payloads)), min(len(payloads), 10 if not thorough else 40)))
    for idx, (klass, spec) in enumerate(payloads):
        d = H.expand(spec)
        n = len(d)
        exh = klass.startswith("exh")
        cuts = sorted(rng.randrange(n + 1) for _ in range(rng.choice([0, 1, 3]))) if n else []
        # (the model is blind to byte values: for the exhaustive sweeps the oracle sees every string, the model a sample)
        do_model = not (exh and n >= 1 and idx % (16 if thorough and klass == "exh-full" and n == 2 else 4) != 0)
        if exh:
            zk = ["api", "nosize", "cobj"] if not (thorough and klass == "exh-full" and n == 2) else ["api", "cobj"]
            gk = ["api"]
        elif klass == "big":
            zk, gk = zstd_kinds, GZIP_KINDS_ALL
        else:
            zk = ["api", "cobj"] + rng.sample([k for k in zstd_kinds if k not in ("api", "cobj")], 2)
            gk = ["api", rng.choice(["gzipmod", "sync"])]
        for kind in zk:
            levels: list[int | None] = [None] if exh or kind != "api" else [None, rng.choice(zstd_levels)]
            if kind != "api" and not exh:
                levels = [rng.choice(stream_levels)]
            if idx in sweep_idx and kind == "api":
                levels = zstd_levels
            if idx in sweep_idx and kind == "cobj":
                levels = stream_levels + ([] if heavy_done else [19, 22])
                heavy_done = True
            for lv in levels:
                ctx.tally("zstd_level", lv)
                one_frame("zstd", kind, lv, spec, d, H.zstd_frame(kind, d, lv, cuts), cuts, produced=True, do_model=do_model, klass=klass)
        for kind in gk:
            glevels: list[int | None] = [None] if exh else [rng.choice(gzip_levels)]
            if idx in sweep_idx and kind in ("api", "sync"):
                glevels = gzip_levels
            for lv in glevels:
                ctx.tally("gzip_level", lv)
                one_frame("gzip", kind, lv, spec, d, H.gzip_frame(kind, d, lv, cuts), cuts, produced=True, do_model=do_model, klass=klass)
        if do_model and (not exh or n <= 1 or idx % 7 == 0):
            one_frame("identity", "identity", rng.choice([None, 1, 22]), spec, d, _codec.compress(_codec.Encoding.IDENTITY, d, level=None), [], produced=True, klass=klass)
        # the other spelling of "size not stored" (-1): simulated at zstandard.get_frame_parameters
        if (not exh or idx % 5 == 0) and do_model:
            one_frame("zstd", "cobj", None, spec, d, H.zstd_frame("cobj", d, None, cuts), cuts, produced=True, sentinel=True, klass=klass)

    ctx.log(f"compressor-produced frames done: {ctx.counters.get('impl_runs', 0)} calls")
    # ---- frames outside the statement: model correspondence only ---------------------
    extra_n = 40 if not thorough else 300
    for _ in range(extra_n):
        n = rng.randint(1, 255)
        d = bytes(rng.randrange(256) for _ in range(n)) if rng.random() < 0.5 else bytes([rng.randrange(256)]) * n
        spec = [("lit", d)]
        f = zstandard.ZstdCompressor(level=3).compress(d)
        # single-segment frame with a 1-byte content-size field at offset 5: make the header lie
        if len(f) > 6 and f[5] == n and zstandard.get_frame_parameters(f).content_size == n:
            lie = rng.choice([v for v in (0, 1, n - 1, n + 1, 255) if v != n and 0 <= v <= 255])
            g = f[:5] + bytes([lie]) + f[6:]
            one_frame("zstd", "lying-header", 3, spec, d, g, [], produced=False, caps=[None, 0, max(lie - 1, 0), lie, lie + 1, n, BIG_CAP], klass="lying")
        d2 = bytes(rng.randrange(256) for _ in range(rng.randint(0, 40)))
        one_frame("zstd", "two-frames", 3, spec, d, f + zstandard.ZstdCompressor(level=3).compress(d2), [], produced=False, klass="concat")
        one_frame("zstd", "two-frames-sizeless", 3, spec, d, H.zstd_frame("nosize", d, 3, []) + H.zstd_frame("nosize", d2, 3, []), [], produced=False, klass="concat")
        gz = H.gzip_frame("api", d, 6, [])
        one_frame("gzip", "two-members", 6, spec, d, gz + H.gzip_frame("api", d2, 6, []), [], produced=False, klass="concat")
        cut = rng.randint(1, len(gz) - 1)
        one_frame("gzip", "truncated", 6, spec, d, gz[:cut], [], produced=False, klass="truncated")
    one_frame("gzip", "empty-input", None, [("lit", b"")], b"", b"", [], produced=False, klass="truncated")

    ctx.sample({"codec": "zstd", "kind": "cobj (size-less)", "len": 65537, "cap": 65536, "expected": "DecompressionLimitExceeded after reads [65536, 1]"})
    ctx.sample({"codec": "zstd", "kind": "api (size-declaring)", "len": 3, "cap": 3, "expected": "original bytes via one-shot path"})
    ctx.sample({"codec": "gzip", "kind": "api", "len": 131073, "cap": 131073, "expected": "original bytes; max_length sequence 65536, 65536, 2, 1"})

    ctx.log(f"implementation runs done: {ctx.counters.get('impl_runs', 0)} calls, {ctx.counters.get('traced_runs', 0)} traced")
    if hangs:
        ctx.notes.append(f"{len(hangs)} calls on frames OUTSIDE the statement did not return (watchdog): {hangs[:4]}")
    # ---- environment: the assumed codec laws held on everything we looked at --------------
    ctx.obligation("env:codec-laws-hold-on-sampled-frames", "environment", not law_failures, "; ".join(law_failures[:5]))
    ctx.obligation("env:gzip-input-fed-whole-and-in-order", "environment", not fed_bad, "; ".join(fed_bad[:5]))
    ctx.obligation("env:recording-proxies-transparent", "harness", not trace_differs, "; ".join(trace_differs[:5]))

    # ---- model side ------------------------------------------------------------------
    gen_ok = not any(o["name"] == "translate:G_Codec" and not o["ok"] for o in ctx.obligations)
    header = HEADER if gen_ok else HEADER.replace(" G_Codec", "")
    runner = "run_case gen_knobs" if gen_ok else "run_case today"
    small: list[tuple[str, str]] = []
    small_meta: list[list[tuple[str, str, dict[str, Any]]]] = []
    big: list[tuple[str, str]] = []
    big_meta: list[list[tuple[str, str, dict[str, Any]]]] = []
    n_sub = 0
    for pterm, size, subs in groups.values():
        n_sub += len(subs)
        per = 40 if size > 20000 else 400
        for off in range(0, len(subs), per):
            part = subs[off : off + per]
            case = (f"({pterm}, [" + ";\n ".join(x[0] for x in part) + "])", "[" + ";\n ".join(x[1] for x in part) + "]")
            (big if size > 20000 else small).append(case)
            (big_meta if size > 20000 else small_meta).append(part)
    ctx.log(f"model: {n_sub} calls in {len(small)} small + {len(big)} large payload groups")
    ok1, bad1, log1 = ctx.coq_mismatches(header, runner, "outs_eqb", small, "case_in", "list (verdict * list Z)", shard=max(1, len(small) // 16 + 1))
    ok2, bad2, log2 = ctx.coq_mismatches(header, runner, "outs_eqb", big, "case_in", "list (verdict * list Z)", shard=max(1, len(big) // 16 + 1))
    ctx.count("model_cases", n_sub)
    ok = ok1 and ok2
    nbad = len(bad1) + len(bad2)
    ctx.obligation("correspondence:M_Codec.run_case", "correspondence", ok and not nbad,
                   (log1 + log2)[-1500:] if not ok else f"{nbad} of {len(small) + len(big)} payload groups ({n_sub} calls) disagree")
    shown = 0
    sub_runner = runner.replace("run_case", "run_sub")
    for metas, bad in ((small_meta, bad1), (big_meta, bad2)):
        for gi in bad:
            part = metas[gi]
            pterm = next(k for k, v in groups.items() if any(x is part[0] for x in v[2]))
            for inp, exp, m in part:
                if shown >= 4:
                    break
                got = ctx.coq_show(header, f"let d := expand {pterm} in let r := {sub_runner} d {inp} in "
                                           f"(out_eqb r {exp}, fst r, snd r)")
                if "(true," in got:
                    continue
                shown += 1
                ctx.violation(f"model-impl-disagree:{m['codec']}:{m['kind']}", "vgi_rpc._codec.decompress and the Coq model decide differently",
                              {**m, "impl": exp[:300], "model": got[-400:]})
    if nbad and not shown:
        ctx.violation("model-impl-disagree:unlocated", "a payload group disagrees but no single call could be isolated", {"groups": nbad})
    ctx.assumptions += [
        "ASSUMED (premise of every round-trip theorem): zstd / zlib decode what they encoded (decomp o comp = id), a stored zstd "
        "content size is the true size, reader.read(n>=1) / decompress(.., n>=1) make progress; observed to hold on every sampled frame",
        "b''.join(chunks) after chunks.append(c) is modelled as list concatenation; Python ints as Coq Z (unbounded)",
        "the -1 spelling of 'size not stored' cannot be produced by the installed python-zstandard (cext reports 2^64-1): it is "
        "simulated by wrapping zstandard.get_frame_parameters",
        "identity is outside the cap sentence (see module docstring); concatenated / truncated / lying frames are outside the statement",
    ]
    if not thorough:
        ctx.exhaustive = False
    sys.stdout.flush()


# ---------------------------------------------------------------------------
def replay(ctx: Any, data: Any) -> None:
    """Re-run one recorded case against the tree under test (called by vlib.main with the loaded replay file)."""
    from harness import c18_codec as H

    rp = data if isinstance(data, dict) else json.loads(Path(data).read_text())
    r = rp.get("replay", rp)
    if "payload" not in r:
        ctx.log("replay file carries no single input (broken obligation without a failing input): nothing to re-run")
        return
    spec = H.spec_from_json(r["payload"])
    d = H.expand(spec)
    if r.get("frame_hex"):
        frame = bytes.fromhex(r["frame_hex"])
    elif r["codec"] == "zstd":
        frame = H.zstd_frame(r["kind"], d, r["level"], r.get("cuts") or [])
    elif r["codec"] == "gzip":
        frame = H.gzip_frame(r["kind"], d, r["level"], r.get("cuts") or [])
    else:
        frame = d
    with H.recording():
        cls, out, msg, _ = H.run_decompress(r["codec"], frame, r["cap"], trace=False, sentinel_minus1=bool(r.get("sentinel_minus1")))
    cap = r["cap"]
    want = "ok" if cap is None or len(d) <= cap or r["codec"] == "identity" else "limit"
    good = cls == want and (cls != "ok" or out == d)
    ctx.case([r["codec"], r["kind"], len(d), cap])
    ctx.log(f"replay {rp.get('key')}: codec={r['codec']} kind={r['kind']} len={len(d)} cap={cap}: observed {cls} {msg[:100]!r}; "
            f"the property demands {want}: {'holds' if good else 'VIOLATED'}")
    if not good:
        ctx.violation(str(rp.get("key") or "replayed-case"), f"replayed case still fails: observed {cls} {msg[:100]}", {**r, "observed": [cls, msg[:160], None if out is None else len(out)]})
