"""C32 Worker pool: exclusive ownership, idle <= max_idle, reuse only of live workers at a message boundary.

proof         : coq/prop/P_C32.v over model/M_Pool.v -- a small-step interleaving model of WorkerPool (_borrow,
                _return_worker, _evict_oldest_locked, _reap_expired, close) and of the client-side bookkeeping
                _PooledTransport.close looks at; theorems by induction over EVERY schedule (list of Tick | Kill p |
                Thr i of any length), any number of borrower / reaper / closer threads, any borrower script, any
                max_idle (0 included) and any idle_timeout.
regenerated   : translate/t_c32_guards.py -> gen/G_Pool.v: the `stream_abandoned` expression, the discard guard and
                the evict guard of _return_worker (plus the statement order of its locked section) and whether the
                client tracks in-flight calls / drained sessions; tie/T_Pool.v proves the generated configuration
                meets the hypotheses of the theorems and restates them over it.
correspondence: harness/c32_sched.py -- real WorkerPool + real client code under a deterministic baton scheduler
                (interposed pool lock, Event.wait, Thread.join, Popen.poll, logical clock) with FAKE worker processes
                (in-process RpcServer threads over inspectable in-memory pipes); after EVERY schedule item the pool
                state (clock, closed, active, counters, idle dict with order and timestamps, per-thread program
                point, owner map, hand-out log, worker alive/terminated) is compared with the model's, and the
                model's "connection is clean" claims must be implied by the ground truth read off the pipes.
                A smaller set of sequential scenarios runs with REAL subprocess workers (harness/c32_worker.py via
                run_server): does the second borrower get the first borrower's worker, and does its call work.
oracle        : independent of the model, on the real pool after every step: no pid owned twice / owned and idle,
                idle_count <= max_idle; at every reuse hand-out the worker is alive and its connection is at a
                message boundary (ground truth from the pipes); every response carries the caller's own token.

Readings adopted:
  * "held by at most one borrower": from the moment _borrow hands the transport out (pop from the idle list, or
    Popen returned) until _return_worker has finished its locked section.
  * "idle workers never exceeds max_idle": len of all idle deques, in every state between two scheduling points
    (inside a locked section the count is not observable by anybody).
  * "alive" at hand-out: poll() inside the locked section of _borrow says so; a process may of course die afterwards.
  * "message boundary": nothing unread in either direction and the server waits for the first byte of a request.
  * join(timeout=5) in close() may return before the reaper has finished: the model lets close() proceed either way.

Findings (each replayed against the real code, keys as reported by ctx.violation; coq/refuted/R_C32.v has the
model-level witnesses):
  repaired in /repo (746cb3e, b37b74b):
    max-idle-zero-keeps-one                              max_idle=0: evict finds nothing, the append still happens (idle_count == 1)
    dirty-reuse-after-unary-callback-raise               on_log raises during a unary call: response left unread, worker pooled
    dirty-reuse-after-stream-close-callback-raise        tick interrupted, then close()'s drain interrupted: _closed is True, output not drained
    dirty-reuse-after-second-stream-init-callback-raise  second stream of a borrow: init interrupted, _last_stream_session is the stale closed one
    dirty-reuse-after-cancel-drain-callback-raise        (seeded only) cancel()'s drain swallowing an exception no except clause names
  pending (HEAD 9cd32f4), candidate repair fixes/C32-drained-only-at-end-of-stream.diff (the model's cfg_fixed):
    dirty-reuse-after-cancel-drain-callback-raise-suppressed-class
    dirty-reuse-after-stream-close-callback-raise-suppressed-class
        the drain loop of StreamSession.cancel() / .close() runs under suppress(StopIteration, RpcError, pa.ArrowInvalid,
        OSError) and `_drained = True` follows unconditionally: an on_log callback raising RpcError, OSError or
        pa.ArrowInvalid while the drain delivers a log batch (on_cancel hook logs; the unread rest of an interrupted tick)
        ends the drain silently with the end-of-stream marker unread, and the pool reuses the worker.
Exception classes of the callback: V ValueError, T RuntimeError (caught nowhere: XPlain), O plain OSError, R RpcError,
A pa.ArrowInvalid.  Not generated: a callback raising StopIteration (the repaired drain would take it for the end of the
stream) and BaseExceptions such as KeyboardInterrupt (they pass every handler involved and leave the marks set).
"""
from __future__ import annotations

import sys
import time
from typing import Any

META = {
    "id": "C32",
    "technique": "Coq proof (small-step interleaving model, invariant by induction over all schedules) + regenerated guards tie + step-by-step schedule correspondence on the real pool (fake and real subprocess workers)",
    "level_text": "Coq theorems for every schedule of any length over any number of borrower/reaper/closer threads, any "
    "borrower script (unary, streams, abandon, callback raising at any read position), process death at any time, "
    "any max_idle incl. 0: a pid is held by at most one borrower and never while idle; idle count <= max_idle in every "
    "reachable state; every reuse hand-out is of a live worker whose connection is at a message boundary. The guards "
    "in the theorems are regenerated from pool.py on every run; the step function is tied to the real WorkerPool and "
    "client by replaying schedules step by step.",
    "level_note": "Trusted: Coq kernel, the guard translator, the scheduler harness and its atomicity assumption (code "
    "between two scheduling points is atomic w.r.t. other pool users), fake worker = real RpcServer over in-memory "
    "pipes; modelled not verified: the wire-level effect of each client operation (validated by the ground-truth "
    "comparison only), SubprocessTransport/Popen, shm, metrics races in close().",
    "design_ref": "§5 C32",
}

HDR = "From Coq Require Import List Arith Bool.\nFrom VGI Require Import M_Pool G_Pool Corr.\nImport ListNotations.\n"


def translate(ctx: Any) -> None:
    from translate import t_c32_guards

    ctx.gen("G_Pool", lambda: t_c32_guards.gen_pool(ctx.repo))


# ---- Coq rendering ---------------------------------------------------------------------------------
def _c_op(o: tuple[Any, ...]) -> str:
    return {"U": "OUnary", "T": "OTick", "C": "OClose", "X": "OCancel"}.get(o[0]) or f"(OOpen {'true' if o[1] else 'false'})"


def _c_spec(s: tuple[Any, ...]) -> str:
    if s[0] == "R":
        return "SR"
    if s[0] == "C":
        return "SC"
    _, key, ok, ops, ra = s
    return f"(SB {key} {'true' if ok else 'false'} [{'; '.join(_c_op(o) for o in ops)}] [{'; '.join(_c_raise(x) for x in ra)}])"


XCLS = {"V": "XPlain", "T": "XPlain", "O": "XOs", "R": "XRpc", "A": "XArrow"}   # see harness.c32_sched.make_exc


def _c_raise(e: Any) -> str:
    i, c = (e, "V") if isinstance(e, int) else e
    return f"({i}, {XCLS[c]})"


def _c_item(x: tuple[Any, ...]) -> str:
    return "Tick" if x[0] == "tick" else (f"(Kill {x[1]})" if x[0] == "kill" else f"(Thr {x[1]})")


def _c_case(max_idle: int, timeout: int, specs: list[Any], sch: list[Any]) -> str:
    return f"(({max_idle}, {timeout}), [{'; '.join(_c_spec(s) for s in specs)}], [{'; '.join(_c_item(x) for x in sch)}])"


def _c_snaps(snaps: list[tuple[list[list[int]], list[bool]]]) -> str:
    rows = []
    for exact, clean in snaps:
        e = "[" + "; ".join("[" + "; ".join(str(v) for v in row) + "]" for row in exact) + "]"
        c = "[" + "; ".join("true" if b else "false" for b in clean) + "]"
        rows.append(f"({e}, {c})")
    return "[" + "; ".join(rows) + "]"


def model_eval(ctx: Any, fn: str, inputs: list[str], shard: int = 25) -> tuple[bool, list[Any], str]:
    """Evaluate ``fn input`` in Coq (vm_compute) for every input and parse the printed values.

    Elaborating the implementation's traces as Coq literals costs far more than printing the model's, so the
    comparison (equality on the exact part, implication on the cleanliness bits) is done on this side."""
    import ast as _ast
    import re as _re

    from concurrent.futures import ThreadPoolExecutor

    from vlib.core import JOBS, coqc_text

    texts = []
    for off in range(0, len(inputs), shard):
        chunk = inputs[off : off + shard]
        body = "\n".join(f'Goal True. idtac "@@CASE". exact I. Qed.\nEval vm_compute in ({fn} {a}).' for a in chunk)
        texts.append("Set Printing Width 1000000.\nSet Printing Depth 1000000.\n" + HDR + body + "\n")
    # (vlib.core.coqc_many does not drain stdout while polling; the printed traces are larger than a pipe buffer)
    with ThreadPoolExecutor(max_workers=JOBS) as ex:
        res = list(ex.map(lambda t: coqc_text(ctx.bdir, t, timeout=600, name="c32eval"), texts))
    out: list[Any] = []
    logs = []
    ok_all = True
    for (ok, txt), off in zip(res, range(0, len(inputs), shard)):
        parts = txt.split("@@CASE")[1:]
        n = min(shard, len(inputs) - off)
        if not ok or len(parts) != n:
            ok_all = False
            logs.append(txt[-1500:])
            out += [None] * n
            continue
        for part in parts:
            m = _re.search(r"=\s*(.*?)\s*:\s*(?:list|\()", part, flags=_re.S)
            if m is None:
                ok_all = False
                out.append(None)
                continue
            val = m.group(1).replace(";", ",").replace("true", "True").replace("false", "False")
            try:
                out.append(_ast.literal_eval(" ".join(val.split())))
            except Exception:  # noqa: BLE001
                ok_all = False
                logs.append(part[-500:])
                out.append(None)
    return ok_all, out, "\n".join(logs)


def _norm(x: Any) -> Any:
    if isinstance(x, (list, tuple)):
        return [_norm(y) for y in x]
    return x


def first_diff(model: Any, impl: Any) -> Any:
    if model is None:
        return "model did not evaluate"
    for k, ((me, mc), (ie, ic)) in enumerate(zip(model, impl)):
        if _norm(me) != _norm(ie) or len(mc) != len(ic) or any(a and not b for a, b in zip(mc, ic)):
            return {"step": k, "model": [_norm(me), list(mc)], "impl": [_norm(ie), list(ic)]}
    return {"lengths": [len(model), len(impl)]}


def trace_agrees(model: Any, impl: list[tuple[list[list[int]], list[bool]]]) -> bool:
    if model is None or len(model) != len(impl):
        return False
    for (me, mc), (ie, ic) in zip(model, impl):
        if _norm(me) != _norm(ie) or len(mc) != len(ic) or any(a and not b for a, b in zip(mc, ic)):
            return False
    return True


# ---- generators ------------------------------------------------------------------------------------
U, T, C, X = ("U",), ("T",), ("C",), ("X",)


def O(m: bool) -> tuple[Any, ...]:  # noqa: E743,N802
    return ("O", m)


# (ops, raise_at): every read position (unary result, stream header, tick, close-drain) with the callback raising
# at the first / second log batch, never, or always
SCRIPTS: list[tuple[list[Any], list[int]]] = [
    ([U], []), ([U, U], []), ([U], [0]), ([U], [1]), ([U, U], [2]), ([U, U], [3]),
    ([O(True), T, C], []), ([O(False), T, C, U], []), ([O(False), T], []), ([O(True), T], []), ([O(False)], []),
    ([O(True), T, T], [0]), ([O(True), T, T], [1]), ([O(False), T, C], [2]), ([O(True), T, C], [3]), ([O(True), T, T], [4]), ([O(True), T, T], [5]),
    ([O(True), T], [2, 3]), ([O(False), T, C], [2, 3]), ([O(True), T, T], [4, 5]), ([O(True), T], list(range(2, 12))), ([U], list(range(12))),
    ([O(True), C, O(True), T], [2]), ([O(False), C, O(False)], [3]), ([O(True), C, O(True), T, C], []), ([U, O(True), T, C, U], []),
    ([O(True), T, C, U], [6]), ([U, T], []), ([O(True), U], []), ([], []),
    # streams ended with cancel(): the server's on_cancel hook logs twice into the drain
    ([O(False), T, X], []), ([O(True), X], []), ([O(False), T, X, U], []), ([O(False), X, O(True), T, C], []), ([X], []),
]
# positions of the callback invocations in the scripts above: open = 0,1; first tick = 2,3; then close-drain / cancel-drain
CLASSES = ["V", "T", "O", "R", "A"]
CLASS_SCRIPTS: list[tuple[list[Any], list[int]]] = [
    # (ops, invocation numbers at which the callback raises; the class is drawn per position)
    ([O(False), T, X], [4]), ([O(False), T, X], [5]), ([O(False), T, X, U], [4]), ([O(True), X], [2]), ([O(True), X], [3]),
    ([O(False), T, X], [2, 4]), ([O(False), T, X], [3, 4]), ([O(True), T, X], [2, 3, 4]), ([O(False), T, X], [4, 5]),
    ([O(True), T], [2, 3]), ([O(False), T, C], [2, 3]), ([O(False), T, C, U], [2, 3]), ([O(True), T, T], [3]), ([O(True), T, T], [2]),
    ([U], [0]), ([U, U], [1]), ([U, U], [2]), ([O(True), T], [0]), ([O(True), C, O(True), T], [2]), ([O(False), T, T, X], [4, 6]),
]


def gen_threads(rng: Any, nb: int) -> list[tuple[Any, ...]]:
    specs: list[tuple[Any, ...]] = []
    two_keys = rng.random() < 0.35
    for _ in range(nb):
        if rng.random() < 0.45:
            ops, pos = rng.choice(CLASS_SCRIPTS)
            ra: list[Any] = [(i, rng.choice(CLASSES)) for i in pos]
        else:
            ops, pos = rng.choice(SCRIPTS)
            ra = [(i, rng.choice(["V", "V", "T"])) for i in pos]
        specs.append(("B", rng.randrange(2) if two_keys else 0, rng.random() > 0.06, list(ops), ra))
    if rng.random() < 0.7:
        specs.append(("R",))
    if rng.random() < 0.5:
        specs.append(("C",))
    rng.shuffle(specs)
    return specs


def steps_needed(spec: tuple[Any, ...]) -> int:
    return (len(spec[3]) + 8) if spec[0] == "B" else 4


def gen_schedule(rng: Any, specs: list[Any], style: str) -> list[tuple[Any, ...]]:
    n = len(specs)
    sch: list[tuple[Any, ...]] = []
    if style == "sequential":  # run threads to completion in some order, with a bounded number of preemptions
        order = [i for i in range(n) if specs[i][0] == "B"]
        rng.shuffle(order)
        others = [i for i in range(n) if specs[i][0] != "B"]
        for i in order:
            sch += [("thr", i)] * steps_needed(specs[i])
            if rng.random() < 0.5:
                sch.append(("tick",))
            for j in others:
                if rng.random() < 0.4:
                    sch += [("thr", j)] * rng.randrange(1, 3)
        # preemptions: move up to 3 items somewhere else
        for _ in range(rng.randrange(0, 4)):
            if len(sch) > 2:
                x = sch.pop(rng.randrange(len(sch)))
                sch.insert(rng.randrange(len(sch)), x)
        if rng.random() < 0.3:
            sch.insert(rng.randrange(len(sch) + 1), ("kill", rng.randrange(2)))
        for j in others:
            sch += [("thr", j)] * 4
        return sch
    length = sum(steps_needed(s) for s in specs) + rng.randrange(0, 8)
    for _ in range(length):
        r = rng.random()
        if r < 0.08:
            sch.append(("tick",))
        elif r < 0.11:
            sch.append(("kill", rng.randrange(3)))
        elif r < 0.12:
            sch.append(("thr", n + rng.randrange(2)))  # names no thread: stutter
        else:
            sch.append(("thr", rng.randrange(n)))
    return sch


# scenarios that reach each arm of the model on purpose (also the witnesses of coq/refuted/R_C32.v)
def targeted() -> list[tuple[str, int, int, list[Any], list[Any]]]:
    t = lambda i, k: [("thr", i)] * k  # noqa: E731
    out: list[tuple[str, int, int, list[Any], list[Any]]] = []
    for mi in (0, 1, 2):
        out.append((f"max_idle={mi} one borrow", mi, 3, [("B", 0, True, [U], [])], t(0, 9)))
        out.append((f"max_idle={mi} two sequential borrows", mi, 3, [("B", 0, True, [U], []), ("B", 0, True, [U], [])], t(0, 9) + t(1, 9)))
        out.append((f"max_idle={mi} three concurrent borrowers return one after the other", mi, 3, [("B", 0, True, [U], [])] * 3, t(0, 5) + t(1, 5) + t(2, 5) + t(0, 4) + [("tick",)] + t(1, 4) + t(2, 4)))
        out.append((f"max_idle={mi} two keys", mi, 3, [("B", 0, True, [U], []), ("B", 1, True, [U], []), ("B", 0, True, [], [])], t(0, 9) + t(1, 9) + t(2, 9)))
    # dirty-reuse witnesses: first borrower raises from the callback, second borrower reuses
    for name, ops, ra in [
        ("unary, callback raises at log 0", [U], [0]),
        ("unary, callback raises at log 1", [U], [1]),
        ("second unary, callback raises", [U, U], [2]),
        ("managed stream: tick interrupted, close-drain interrupted", [O(True), T], [2, 3]),
        ("explicit close after interrupted tick (unmanaged, caught by nobody)", [O(False), T, C], [2, 3]),
        ("second stream init interrupted after a cleanly closed first stream", [O(True), C, O(True), T], [2]),
        ("first stream init interrupted", [O(True), T], [0]),
        ("tick interrupted, managed close drains cleanly", [O(True), T], [2]),
        ("tick interrupted at second log", [O(True), T], [3]),
        ("abandoned stream", [O(False), T], []),
        ("always raising callback on a stream", [O(True), T, T], list(range(2, 12))),
    ]:
        out.append((name, 2, 3, [("B", 0, True, ops, ra), ("B", 0, True, [U], [])], t(0, len(ops) + 9) + t(1, 10)))
    # cancel(): every drain position x every exception class, then a second borrower
    for cls in CLASSES:
        for pos in ([4], [5], [2, 4]):
            out.append((f"cancel after a tick, on_log raises {cls} at {pos}", 2, 3,
                        [("B", 0, True, [O(False), T, X], [(i, cls if i >= 4 else "V") for i in pos]), ("B", 0, True, [U], [])], t(0, 13) + t(1, 10)))
        out.append((f"cancel before the first tick, on_log raises {cls}", 2, 3, [("B", 0, True, [O(True), X], [(2, cls)]), ("B", 0, True, [U], [])], t(0, 12) + t(1, 10)))
        out.append((f"close-drain after an interrupted tick, on_log raises {cls}", 2, 3, [("B", 0, True, [O(True), T], [(2, "V"), (3, cls)]), ("B", 0, True, [U], [])], t(0, 12) + t(1, 10)))
        out.append((f"tick interrupted by {cls}", 2, 3, [("B", 0, True, [O(True), T], [(2, cls)]), ("B", 0, True, [U], [])], t(0, 12) + t(1, 10)))
        out.append((f"tick interrupted by {cls} twice (tick, then the close it triggers)", 2, 3, [("B", 0, True, [O(False), T], [(2, cls), (3, cls)]), ("B", 0, True, [U], [])], t(0, 12) + t(1, 10)))
        out.append((f"unary interrupted by {cls}", 2, 3, [("B", 0, True, [U], [(1, cls)]), ("B", 0, True, [U], [])], t(0, 10) + t(1, 10)))
        out.append((f"stream init interrupted by {cls}", 2, 3, [("B", 0, True, [O(True), T], [(1, cls)]), ("B", 0, True, [U], [])], t(0, 11) + t(1, 10)))
    out.append(("undisturbed cancel, worker reused", 2, 3, [("B", 0, True, [O(False), T, X], []), ("B", 0, True, [U], [])], t(0, 13) + t(1, 10)))
    out.append(("cancel on a dead worker", 2, 3, [("B", 0, True, [O(False), T, X], []), ("B", 0, True, [U], [])], t(0, 6) + [("kill", 0)] + t(0, 7) + t(1, 12)))
    # process death: idle worker dies, worker dies in use, worker dies between poll and lock
    out.append(("idle worker dies before reuse", 2, 3, [("B", 0, True, [U], []), ("B", 0, True, [U], [])], t(0, 9) + [("kill", 0)] + t(1, 12)))
    out.append(("worker dies in use", 2, 3, [("B", 0, True, [U, U], []), ("B", 0, True, [U], [])], t(0, 5) + [("kill", 0)] + t(0, 6) + t(1, 10)))
    out.append(("worker dies between poll and lock", 2, 3, [("B", 0, True, [U], []), ("B", 0, True, [U], [])], t(0, 7) + [("kill", 0)] + t(0, 3) + t(1, 12)))
    out.append(("worker dies in an open stream", 2, 3, [("B", 0, True, [O(True), T, T, C], [])], t(0, 6) + [("kill", 0)] + t(0, 8)))
    # spawn failure
    out.append(("spawn fails", 1, 3, [("B", 0, False, [U], []), ("B", 0, True, [U], [])], t(0, 6) + t(1, 9)))
    # reaper: expiry, stale clock, reaper vs close
    out.append(("reaper evicts after timeout", 2, 2, [("B", 0, True, [U], []), ("R",), ("B", 0, True, [U], [])], t(0, 9) + t(1, 2) + [("tick",), ("tick",)] + t(1, 2) + t(2, 9)))
    out.append(("reaper with stale clock", 2, 1, [("B", 0, True, [U], []), ("R",)], t(0, 8) + t(1, 1) + [("tick",), ("tick",)] + t(0, 1) + t(1, 3)))
    out.append(("close while a worker is out, returned afterwards", 2, 3, [("B", 0, True, [U], []), ("C",), ("R",)], t(0, 5) + t(1, 4) + t(2, 2) + t(0, 5)))
    out.append(("close between the _closed check and the lock", 2, 3, [("B", 0, True, [U], []), ("C",), ("B", 0, True, [U], [])], t(0, 1) + t(1, 4) + t(0, 9) + t(2, 3)))
    out.append(("close collects idle workers; second close is a no-op", 2, 3, [("B", 0, True, [U], []), ("C",), ("C",)], t(0, 9) + t(1, 4) + t(2, 2)))
    out.append(("eviction order across two keys with equal timestamps", 2, 3, [("B", 0, True, [], []), ("B", 1, True, [], []), ("B", 0, True, [], []), ("B", 1, True, [], [])],
                t(0, 4) + t(1, 4) + t(2, 4) + t(3, 4) + t(0, 3) + t(1, 3) + [("tick",)] + t(2, 3) + t(3, 3)))
    return out


# ---- real subprocess workers -----------------------------------------------------------------------
def run_real(ops: list[Any], raise_at: list[Any], max_idle: int) -> dict[str, Any]:
    """Borrower A runs the script on a REAL subprocess worker, then borrower B makes one unary call."""
    from harness.c32_sched import ScriptError, make_exc, raise_dict
    from harness.c32_worker import C32Service
    from vgi_rpc.pool import WorkerPool
    from vgi_rpc.rpc._transport import StderrMode
    import contextlib

    cmd = [sys.executable, "-m", "harness.c32_worker"]
    out: dict[str, Any] = {"a": [], "b": None}
    calls = [0]
    rs = raise_dict(raise_at)

    def cb(m: Any) -> None:
        n = calls[0]
        calls[0] += 1
        if n in rs:
            raise make_exc(rs[n], n)

    pids: list[int] = []
    pool = WorkerPool(max_idle=max_idle, idle_timeout=60.0, stderr=StderrMode.DEVNULL)
    orig = pool._borrow

    def borrow(key: Any) -> Any:
        tr = orig(key)
        pids.append(tr.proc.pid)
        return tr

    pool._borrow = borrow  # type: ignore[method-assign]
    try:
        try:
            with pool.connect(C32Service, cmd, on_log=cb) as svc, contextlib.ExitStack() as stack:
                sess: Any = None
                tok = 100
                for o in ops:
                    if o[0] == "U":
                        if sess is not None:
                            raise ScriptError
                        tok += 1
                        out["a"].append(("U", svc.echo(token=tok) == tok))
                    elif o[0] == "O":
                        if sess is not None:
                            raise ScriptError
                        tok += 1
                        s = svc.gen(token=tok)
                        sess = s
                        if o[1]:
                            stack.callback(s.close)
                        out["a"].append(("O", s.header.token == tok))
                    elif o[0] == "T":
                        if sess is None:
                            raise ScriptError
                        out["a"].append(("T", sess.tick().batch.column("token")[0].as_py() == tok))
                    else:
                        if sess is None:
                            raise ScriptError
                        s, sess = sess, None
                        s.cancel() if o[0] == "X" else s.close()
                        out["a"].append((o[0], True))
        except BaseException as e:  # noqa: BLE001
            out["a"].append(("exc", type(e).__name__))
        out["idle_after_a"] = pool.idle_count
        try:
            with pool.connect(C32Service, cmd) as svc:
                got = svc.echo(token=777)
                out["b"] = ("ok", got == 777, got)
        except BaseException as e:  # noqa: BLE001
            out["b"] = ("exc", type(e).__name__, str(e)[:160])
        out["reused"] = len(pids) == 2 and pids[0] == pids[1]
        out["idle_end"] = pool.idle_count
    finally:
        pool.close()
    return out


# ---- the check -------------------------------------------------------------------------------------
def run(ctx: Any) -> None:
    translate(ctx)
    ctx.prove(
        ["prop/P_C32.vo", "refuted/R_C32.vo"],
        {"P_C32": ["C32_exclusive_owner", "C32_owner_unique", "C32_idle_le_max_idle", "C32_reuse_only_clean_alive"]},
    )
    # the same theorems over the configuration regenerated from the working tree (fails to build when the source
    # no longer meets the hypotheses of the proofs -- e.g. the unrepaired pool)
    ctx.prove(
        ["gen/G_Pool.vo", "tie/T_Pool.vo"],
        {"T_Pool": ["gen_cfg_ok", "C32_source_exclusive_owner", "C32_source_idle_le_max_idle", "C32_source_reuse_only_clean_alive"]},
    )
    ctx.log("proofs done")
    from harness.c32_sched import HarnessError, run_schedule

    quick = ctx.tier == "quick"
    budget_s = 60 if quick else 480
    ctx.rule = (
        "case = (max_idle in 0..2, idle_timeout in 1..3, 1-3 borrower scripts from a table covering unary / stream / abandon / "
        "callback raising at every read position, optional reaper, optional closer, schedule); schedules are targeted "
        "(one per arm of the model), sequential with <= 3 preemptions, or uniformly random interleavings with clock ticks, "
        "process deaths and stutters; distinct by (max_idle, timeout, threads, schedule); non-trivial = at least one worker was spawned"
    )
    scenarios: list[tuple[str, int, int, list[Any], list[Any]]] = list(targeted())
    n_random = 250 if quick else 6000
    for k in range(n_random):
        nb = ctx.rng.choice([1, 2, 2, 3, 3])
        specs = gen_threads(ctx.rng, nb)
        style = "sequential" if k % 2 == 0 else "random"
        scenarios.append((style, ctx.rng.choice([0, 1, 1, 2, 2]), ctx.rng.choice([1, 2, 3]), specs, gen_schedule(ctx.rng, specs, style)))

    # all interleavings of two borrowers (bounded: every order of their 7 + 7 steps), sampled in the quick tier
    import itertools

    inter: list[tuple[str, int, int, list[Any], list[Any]]] = []
    for mi in (0, 1):
        for pos in itertools.combinations(range(14), 7):
            sch2 = [("thr", 0 if k in pos else 1) for k in range(14)]
            inter.append(("interleaving", mi, 3, [("B", 0, True, [], []), ("B", 0, True, [], [])], sch2 + [("thr", 0), ("thr", 1)]))
    scenarios += ctx.rng.sample(inter, 100) if quick else inter
    ctx.exhaustive = False

    cases: list[tuple[str, str]] = []
    impl_snaps: list[Any] = []
    meta: list[tuple[str, int, int, list[Any], list[Any]]] = []
    harness_errors: list[str] = []
    t0 = time.time()
    seen_pcs: set[int] = set()
    for idx, (name, mi, to, specs, sch) in enumerate(scenarios):
        if idx >= len(targeted()) and time.time() - t0 > budget_s:
            ctx.notes.append(f"time budget reached after {idx} scenarios")
            break
        replay = {"scenario": name, "max_idle": mi, "idle_timeout": to, "threads": specs, "schedule": sch}
        try:
            r = run_schedule(mi, to, specs, sch)
            if idx < 12 or idx % 25 == 0:  # determinism of the harness: same schedule, same trace
                r2 = run_schedule(mi, to, specs, sch)
                if r2["snaps"] != r["snaps"]:
                    raise HarnessError("two runs of the same schedule differ")
        except HarnessError as e:
            harness_errors.append(f"{name}: {e}")
            continue
        ctx.count("impl_runs")
        ctx.count("impl_steps", len(sch))
        ctx.tally("max_idle", mi)
        ctx.tally("borrowers", sum(1 for s in specs if s[0] == "B"))
        ctx.tally("style", name if name in ("random", "sequential", "interleaving") else "targeted")
        spawned = bool(r["snaps"]) and bool(r["snaps"][-1][0][2])
        ctx.case([mi, to, specs, sch], nontrivial=spawned)
        for ex, _ in r["snaps"]:
            for row in ex[4:]:
                if row == [99]:
                    break
                seen_pcs.add(row[0])
        for key, what, detail in r["violations"]:
            ctx.violation(key, what, {**replay, **detail})
        if any(h[2] for h in r["handouts"]):
            ctx.count("reuse_handouts", sum(1 for h in r["handouts"] if h[2]))
        cases.append((_c_case(mi, to, specs, sch), ""))
        impl_snaps.append(r["snaps"])
        meta.append((name, mi, to, specs, sch))
    ctx.log(f"{len(cases)} schedules replayed on the real pool")
    ctx.sample({"max_idle": 0, "threads": [["B", 0, True, ["U"], []]], "schedule": "thr0 x9", "expect": "idle_count stays 0"})
    ctx.sample({"max_idle": 2, "threads": [["B", 0, True, ["U"], [0]], ["B", 0, True, ["U"], []]], "schedule": "thr0 x10, thr1 x10", "expect": "first worker discarded, second borrower spawns"})
    want_pcs = set(range(0, 11)) | {20, 21, 22, 30, 31, 32, 33}
    ctx.obligation("coverage:every-program-point-reached", "coverage", want_pcs <= seen_pcs, f"never observed: {sorted(want_pcs - seen_pcs)}")
    ctx.obligation("harness:no-harness-error", "environment", not harness_errors, "; ".join(harness_errors[:5]))

    # the model follows the source: guards regenerated (gen_cfg); evaluated with vm_compute
    ok, model_out, clog = model_eval(ctx, "run_case_with gen_cfg", [c[0] for c in cases])
    bad = [i for i, (mo, sn) in enumerate(zip(model_out, impl_snaps)) if not trace_agrees(mo, sn)]
    ctx.count("model_cases", len(cases))
    ctx.log("model evaluated")
    ctx.obligation("correspondence:M_Pool.run_case_with", "correspondence", ok and not bad, clog if not ok else f"{len(bad)} of {len(cases)} schedules disagree")
    for i in bad[:3]:
        name, mi, to, specs, sch = meta[i]
        shown = ctx.coq_show(HDR, f"run_case_with gen_cfg {cases[i][0]}")
        ctx.violation(
            "model-impl-disagree",
            "real pool and model differ on a schedule",
            {"scenario": name, "max_idle": mi, "idle_timeout": to, "threads": specs, "schedule": sch, "first_difference": first_diff(model_out[i], impl_snaps[i]), "model": shown[-1500:]},
        )

    # ---- real subprocess workers: the cleanliness half ------------------------------------------
    real_scripts: list[tuple[list[Any], list[Any]]] = [
        ([U], []), ([U], [0]), ([O(True), T, C], []), ([O(False), T], []), ([O(True), T], [2, 3]),
        ([O(True), C, O(True), T], [2]), ([O(False), T, X], []),
        # stream ended with cancel(), on_log raising in the cancel drain: one run per exception class
        ([O(False), T, X], [(4, "V")]), ([O(False), T, X], [(4, "T")]), ([O(False), T, X], [(4, "O")]), ([O(False), T, X], [(4, "R")]), ([O(False), T, X], [(5, "A")]),
        ([O(True), X], [(2, "R")]), ([O(True), T], [2, (3, "O")]),
    ]
    if not quick:
        real_scripts += [([U], [1]), ([O(True), T], [0]), ([U, U], [3]), ([O(True), T], [2]), ([O(True), T], [3]), ([O(False), T, C], [2, 3]), ([O(True), T, T], list(range(2, 12))), ([O(False), C, O(False)], [3])]
        real_scripts += [([O(False), T, X], [(p, c)]) for p in (4, 5) for c in CLASSES] + [([O(True), T], [2, (3, c)]) for c in CLASSES] + [([U], [(0, c)]) for c in CLASSES] + [([O(True), T], [(2, c)]) for c in CLASSES]
    real_cases: list[tuple[str, str]] = []
    real_impl: list[Any] = []
    from concurrent.futures import ThreadPoolExecutor

    with ThreadPoolExecutor(max_workers=4) as ex:
        real_results = list(ex.map(lambda sc: run_real(sc[0], sc[1], 2), real_scripts))
    for (ops, ra), r in zip(real_scripts, real_results):
        mi = 2
        ctx.count("impl_runs")
        ctx.count("real_subprocess_runs")
        ctx.case(["real", ops, ra], nontrivial=True)
        replay = {"scenario": "real subprocess workers, sequential", "max_idle": mi, "borrower_a": {"ops": ops, "raise_at": ra}, "borrower_b": "echo(777)", "observed": r}
        b = r["b"]
        b_ok = b is not None and b[0] == "ok" and b[1]
        if b is not None and b[0] == "ok" and not b[1]:
            ctx.violation("foreign-response-read", f"second borrower's echo(777) returned {b[2]!r}", replay)
        if r["reused"] and not b_ok:
            last = next((x for x in reversed(r["a"]) if x[0] == "exc"), None)
            cause = (
                "unary-callback-raise" if all(o[0] == "U" for o in ops)
                else "cancel-drain-callback-raise" if any(o[0] == "X" for o in ops)
                else "second-stream-init-callback-raise" if sum(1 for o in ops if o[0] == "O") > 1
                else "stream-close-callback-raise"
            ) + ("-suppressed-class" if any(not isinstance(e, int) and e[1] in "ORA" for e in ra) else "")
            ctx.violation(f"dirty-reuse-after-{cause}", f"real subprocess worker reused after {last}; next borrower's call failed: {b}", replay)
        if r["idle_end"] > mi:
            ctx.violation("idle-exceeds-max-idle", f"idle_count {r['idle_end']} > {mi}", replay)
        # model: A to completion, then B; compare (reused?, and clean => B's call works)
        specs = [("B", 0, True, ops, ra), ("B", 0, True, [U], [])]
        sch = [("thr", 0)] * (len(ops) + 9) + [("thr", 1)] * 10
        real_cases.append((_c_case(mi, 60, specs, sch), ""))
        real_impl.append(([[0, 0, 0], [1, 0 if r["reused"] else 1, 1 if r["reused"] else 0]], [True, bool(b_ok)]))
    ok2, seq_out, clog2 = model_eval(ctx, "run_seq_with gen_cfg", [c[0] for c in real_cases])
    bad2 = []
    for i2, (mo, (hand_impl, clean_impl)) in enumerate(zip(seq_out, real_impl)):
        if mo is None or _norm(mo[0]) != hand_impl or len(mo[1]) != len(clean_impl) or any(a and not b for a, b in zip(mo[1], clean_impl)):
            bad2.append(i2)
    ctx.obligation("correspondence:M_Pool.run_seq_with(real subprocess)", "correspondence", ok2 and not bad2, clog2 if not ok2 else f"{len(bad2)} of {len(real_cases)} real-subprocess scenarios disagree")
    for i in bad2[:3]:
        ctx.violation("model-impl-disagree-real-subprocess", "real subprocess scenario and model differ", {"borrower_a": real_scripts[i], "impl": real_impl[i], "model": ctx.coq_show(HDR, f"run_seq_with gen_cfg {real_cases[i][0]}")[-1500:]})

    ctx.assumptions += [
        "code between two scheduling points (pool lock, poll outside the lock, spawn, Event.wait, Thread.join, script operation) is atomic with respect to the other pool users",
        "a fake worker (real RpcServer thread over in-memory pipes behind the SubprocessTransport interface) stands for a subprocess in the schedule exploration; real subprocesses are used for sequential scenarios",
        "closing a transport nobody else can reach (evicted / expired / collected / discarded) commutes with the steps of the other threads and is merged into the step that removed it from the pool",
        "the reaper may run at any time (Event.wait timeout not tied to the logical clock) and join(timeout=5) may give up: both over-approximate the real timing",
        "borrower scripts: ops U/O/T/C/X (unary, open stream, tick, close, cancel) guarded by the script's own state; an exception leaves the with-blocks (managed sessions are closed on the way out)",
        "on_log exception classes: ValueError/RuntimeError (caught nowhere in the client), plain OSError, RpcError, pa.ArrowInvalid; a callback raising StopIteration or a BaseException (KeyboardInterrupt) is not generated",
    ]
