"""C30 External-storage offload is transparent and integrity-checked.

proof        : coq/prop/P_C30.v over model/M_ExtStore.v -- for ALL batches, cycles, thresholds, compression settings,
               pointers and storage behaviours (an arbitrary fetch result per attempt):
               * one fetch attempt delivers a batch IFF the fetched bytes hash to the pointer's digest (when it has
                 one), every item parses, none carries vgi_rpc.location, no item is an EXCEPTION / unknown-level log,
                 exactly one item is a data batch and its schema is the pointer's; what is delivered is that batch
                 (plus the two provenance keys); every other payload ends in a named error and delivers nothing;
               * resolve_external_location (retry loop) delivers only what some attempt delivered;
               * with a collision-free hash, a pointer carrying the digest of the uploaded stream delivers the
                 uploaded data batch or nothing, whatever the store holds;
               * transparency: with a faithful store (fetch = decode of what was uploaded; codec and IPC round trips
                 are Section hypotheses) the client read loop over the externalised wire yields the same log
                 sequence, the same data batches (up to the provenance keys) and the same terminal error as over the
                 inline wire -- for unary results / headers (single batch), client-uploaded requests and collector
                 cycles in which no EXCEPTION-level log follows the data batch (the excluded class is refuted).
regenerated  : metadata key constants, Level values, the retry cap, the retryable exception tuple, the order of the
               checks in _fetch_and_resolve, the guard order of maybe_externalize_batch / _collector, that the request
               pointer carries no digest, and the SHAPE of maybe_externalize_collector (gen_collector_serializes_all:
               whole cycle in the external object, as found / only up to the data batch with the rest inline behind
               the pointer, fixes/C30-collector-tail-inline.diff) -> gen/G_ExtStore.v; tie/T_ExtStore.v proves the
               constants equal to the modelled terms and restates cycle transparency over the regenerated shape flag
               (the EXCEPTION-after-data side condition is only needed while the flag is true); the correspondence
               runs the model with the same flag.
correspondence: the real maybe_externalize_collector / maybe_externalize_batch / _build_pointer_request_body /
               resolve_external_location against the repo's fake object store served over loopback HTTP (real
               FakeStorageBackend.upload, real fetch_url with content decoding) with a storage-side corruption
               injector (byte flips, truncation, substitution, nested pointer, extra batch, no batch, schema change,
               wrong digest, coding mismatch, missing object, transient faults per attempt) vs run_case of the model;
               plus end to end: generated programs on the real RpcServer/client over a pipe pair and the in-process
               HTTP app x thresholds {0, around the batch size, never} x compression {none, zstd, gzip} compared with
               inline delivery, and the same streams under storage-side corruption.

Readings adopted (the statement leaves room):
 * "identical to inline delivery" = the sequence of log messages (level, message, extras), the sequence of delivered
   values/batches (rows, content, application metadata, schema) and the terminal error are identical; the
   interleaving of logs and batches is not compared (an externalised cycle dispatches the logs that follow its data
   batch before returning it), and a resolved batch additionally carries vgi_rpc.location.fetch_ms / .source.
 * "whose SHA-256 differs from the pointer's" applies when the pointer carries a digest.  Pointers written by
   _build_pointer_request_body (client-uploaded requests) carry none, so for them only the structural checks
   apply; this is reported as an observation, not as a violation.
 * "schema differs" = pa.Schema inequality without schema-level metadata (what `!=` compares).
 * "handed to application code" = returned by resolve_external_location.  Log batches that precede the point of
   rejection in a sha-less payload are dispatched to on_log (and once per retry); reported as an observation.
 * programs do not put vgi_rpc.* keys into the metadata of emitted batches.
"""
from __future__ import annotations

import gzip as _gzip
import hashlib
import json
import sys
from pathlib import Path
from typing import Any

META = {
    "id": "C30",
    "technique": "Coq proof over an executable model of externalise/resolve + regenerated constants and check order + "
    "differential correspondence through the real fetch path against the repo's fake object store with a corruption injector",
    "level_text": "Coq theorems for all batches, thresholds, compression settings, pointers and storage behaviours: an attempt "
    "delivers iff digest, parse, no-nested-pointer, one-data-batch and schema conditions hold; the retry loop delivers only "
    "what an attempt delivered; with a collision-free hash a digest-carrying pointer delivers the uploaded batch or nothing; "
    "with a faithful store the externalised wire drains to the same logs, batches and terminal error as the inline wire "
    "(partial: cycles with an EXCEPTION-level log after the data batch are refuted and reported).",
    "level_note": "Trusted: Coq kernel (vm_compute), t_c30_src translator, harness, pyarrow IPC reader/writer, the codec "
    "(C17/C18), fetch_url (C31), the tenacity stand-in. Section hypotheses: IPC parse/serialise round trip, codec round trip, "
    "hash collision freedom at the point of use.",
    "design_ref": "§5 C30",
}

HEADER = "From Coq Require Import List NArith Bool.\nFrom VGI Require Import Corr M_ExtStore.\nImport ListNotations.\nOpen Scope N_scope."
LEVELS = ["ERROR", "WARN", "INFO", "DEBUG", "TRACE"]


def translate(ctx: Any) -> None:
    from translate import t_c30_src

    ctx.gen("G_ExtStore", lambda: t_c30_src.generate(ctx.repo))


# ---------------------------------------------------------------------------------------------------------------------
# generators
# ---------------------------------------------------------------------------------------------------------------------
def gen_log(rng: Any, allow_exc: bool = False) -> tuple[str, str, str, dict[str, str] | None]:
    lvl = "EXCEPTION" if allow_exc and rng.random() < 0.15 else rng.choice(LEVELS)
    extra = {"k" + str(rng.randrange(3)): "x" * rng.randrange(3)} if rng.random() < 0.3 else None
    return ("log", lvl, "m" + str(rng.randrange(1000)), extra)


def gen_cycle(rng: Any, allow_exc: bool = False, force_data: bool = False) -> list[Any]:
    cyc: list[Any] = [gen_log(rng, allow_exc) for _ in range(rng.choice([0, 0, 1, 2]))]
    if force_data or rng.random() < 0.85:
        rows = rng.choice([0, 1, 1, 3, 6, 40])
        meta = {"a": "1"} if rng.random() < 0.3 else None
        cyc.append(("data", rows, rng.randrange(100), meta))
        cyc += [gen_log(rng, allow_exc) for _ in range(rng.choice([0, 0, 1, 2]))]
    return cyc


def reencode(data: bytes, enc: str | None) -> bytes:
    if enc == "gzip":
        return _gzip.compress(data, 6, mtime=0)
    if enc == "zstd":
        import zstandard

        return zstandard.ZstdCompressor(level=3).compress(data)
    return data


def corruptions(rng: Any, D: Any, schema: Any, body: bytes, enc: str | None, raw: bytes) -> list[tuple[str, list[Any]]]:
    """Storage-side faults for an object (body, enc) whose decoded bytes are `raw`: name -> script of variants."""
    S = D.SCHEMAS
    other = S[1] if schema.equals(S[0]) else S[0]
    d1 = D.data_batch(schema, 2, 77)
    d2 = D.data_batch(schema, 1, 78)
    lg = D.log_batch(schema, "INFO", "from-substitute")
    ptr_meta = {D.K_LOC: b"http://127.0.0.1:1/download/zzz"}
    nested0 = D.data_batch(schema, 0, 0, ptr_meta)
    nested_rows = D.data_batch(schema, 2, 5, ptr_meta)
    nested_log = (lg[0], __import__("pyarrow").KeyValueMetadata({**dict(lg[1].items()), D.K_LOC: b"http://x/y"}))

    def obj(sch: Any, batches: list[Any]) -> tuple[bytes, str | None]:
        return (reencode(D.ser_stream(sch, batches), enc), enc)

    out: list[tuple[str, list[Any]]] = []
    pos = rng.randrange(len(body))
    fl = bytearray(body)
    fl[pos] ^= 1 << rng.randrange(8)
    out.append(("flip-stored", [(bytes(fl), enc)]))
    rpos = rng.randrange(len(raw))
    rf = bytearray(raw)
    rf[rpos] ^= 1 << rng.randrange(8)
    out.append(("flip-decoded", [(reencode(bytes(rf), enc), enc)]))
    out.append(("truncate-stored", [(body[: rng.randrange(1, len(body))], enc)]))
    out.append(("truncate-decoded", [(reencode(raw[: rng.randrange(1, len(raw))], enc), enc)]))
    out.append(("truncate-eos", [(reencode(raw[:-8], enc), enc)]))
    out.append(("substitute-valid", [obj(schema, [d1])]))
    out.append(("substitute-with-logs", [obj(schema, [lg, d1, lg])]))
    out.append(("schema-change", [obj(other, [D.data_batch(other, 2, 77)])]))
    out.append(("schema-change-after-log", [obj(other, [D.log_batch(other, "WARN", "w"), D.data_batch(other, 1, 3)])]))
    out.append(("nested-pointer", [obj(schema, [nested0])]))
    out.append(("nested-pointer-after-data", [obj(schema, [lg, d1, nested0])]))
    out.append(("nested-pointer-with-rows", [obj(schema, [nested_rows])]))
    out.append(("nested-pointer-on-log", [obj(schema, [nested_log, d1])]))
    out.append(("extra-batch", [obj(schema, [d1, d2])]))
    out.append(("extra-batch-with-logs", [obj(schema, [lg, d1, lg, d2])]))
    out.append(("zero-batches", [obj(schema, [])]))
    out.append(("logs-only", [obj(schema, [lg, lg])]))
    out.append(("exception-log", [obj(schema, [lg, D.log_batch(schema, "EXCEPTION", "boom"), d1])]))
    out.append(("exception-log-after-data", [obj(schema, [d1, D.log_batch(schema, "EXCEPTION", "boom")])]))
    out.append(("unknown-level", [obj(schema, [D.log_batch(schema, "LOUD", "x"), d1])]))
    out.append(("zero-row-data", [obj(schema, [D.data_batch(schema, 0, 0)])]))
    out.append(("coding-mismatch", [(body, "gzip" if enc != "gzip" else "zstd")]))
    out.append(("coding-dropped", [(body, None)]) if enc else ("coding-added", [(body, "zstd")]))
    out.append(("garbage", [(bytes(rng.randrange(256) for _ in range(rng.randrange(1, 200))), enc)]))
    out.append(("empty-object", [(b"", None)]))
    out.append(("missing", [None]))
    out.append(("transient-missing-then-good", [None, (body, enc)]))
    out.append(("transient-garbage-then-good", [(b"\xff\xff\xff\xff" + raw[4:40], None), (body, enc)]))
    out.append(("two-missing-then-good", [None, None, (body, enc)]))
    out.append(("three-missing-then-good", [None, None, None, (body, enc)]))
    out.append(("good-then-corrupt", [(body, enc), obj(schema, [d1, d2])]))
    out.append(("log-then-truncated", [(D.ser_stream(schema, [lg, d1])[:-60], None), (D.ser_stream(schema, [lg, d1])[:-60], None)]))
    out.append(("missing-then-substitute", [None, obj(schema, [d1])]))
    return out


# ---------------------------------------------------------------------------------------------------------------------
# projections of end-to-end traces
# ---------------------------------------------------------------------------------------------------------------------
def proj(ev: list[Any]) -> dict[str, Any]:
    logs = [e[1:] for e in ev if e[0] == "log"]
    vals = [e for e in ev if e[0] in ("result", "header", "batch")]
    term = next((e for e in ev if e[0] in ("error", "client_exc", "blocked")), None)
    return {"logs": logs, "values": vals, "terminal": term, "done": any(e[0] == "done" for e in ev)}


def gen_program(rng: Any, kind: str, exc_after: bool) -> dict[str, Any]:
    def logs(n: int) -> list[Any]:
        return [[rng.choice(LEVELS), "l" + str(rng.randrange(1000)), ({"e": "1"} if rng.random() < 0.2 else None)] for _ in range(n)]

    if kind == "unary":
        return {"logs": logs(rng.choice([0, 1, 2])), "size": rng.choice([0, 1, 40, 300, 2000])}
    steps = []
    for i in range(rng.choice([1, 2, 3, 4])):
        emit = {"rows": rng.choice([0, 1, 3, 30, 200]), "meta": ({"k": "v" + str(i)} if rng.random() < 0.3 else None)}
        steps.append({"pre": logs(rng.choice([0, 0, 1, 2])), "emit": emit, "post": logs(rng.choice([0, 0, 1])), "finish": False})
    if exc_after:
        steps[rng.randrange(len(steps))]["post"].append(["EXCEPTION", "app-raised-after-emit", None])
    elif rng.random() < 0.15:
        steps[rng.randrange(len(steps))]["pre"].append(["EXCEPTION", "app-raised-before-emit", None])
    return {"init_logs": logs(rng.choice([0, 1])), "header": {"h": rng.randrange(100), "size": rng.choice([0, 10, 400])}, "steps": steps}


# ---------------------------------------------------------------------------------------------------------------------
def run(ctx: Any) -> None:
    translate(ctx)
    ctx.prove(
        ["prop/P_C30.vo", "tie/T_ExtStore.vo", "refuted/R_C30.vo"],
        {
            "P_C30": [
                "C30_attempt_delivers_iff", "C30_never_hand_corrupt", "C30_corruption_is_an_error", "C30_digest_pins_payload",
                "C30_transparent_single", "C30_transparent_request", "C30_transparent_cycle_partial", "C30_transparent_stream_partial",
                "C30_below_threshold_untouched",
            ],
            "T_ExtStore": ["C30_source_constants", "C30_source_never_hand_corrupt", "C30_source_transparent_cycle"],
            "R_C30": ["C30_exception_after_data_refuted", "C30_request_pointer_unpinned", "C30_logs_before_rejection_dispatched"],
        },
    )

    import pyarrow as pa
    from harness import c30_driver as D
    from harness import c30_service as sv
    from harness.c30_store import Store
    from vgi_rpc.external import Compression, ExternalLocationConfig, maybe_externalize_batch, maybe_externalize_collector
    from vgi_rpc.http._client import _build_pointer_request_body

    quick = ctx.tier == "quick"
    rng = ctx.rng
    # shape of maybe_externalize_collector in the tree under test (regenerated): does the external object hold the whole cycle?
    try:
        ser_all = "gen_collector_serializes_all : bool := true" in (ctx.bdir / "gen" / "G_ExtStore.v").read_text()
    except OSError:
        ser_all = True
    store = Store()
    cfgs: list[Any] = []

    def mkcfg(storage: bool, thr: int, comp: str | None, retries: int = 2) -> Any:
        c = ExternalLocationConfig(
            storage=store.backend if storage else None, externalize_threshold_bytes=thr, max_retries=retries,
            retry_delay_seconds=0.0, compression=None if comp is None else Compression(algorithm=comp), url_validator=None,  # type: ignore[arg-type]
        )
        cfgs.append(c)
        return c

    cases: list[tuple[str, str]] = []
    case_info: list[dict[str, Any]] = []

    def add_case(inp: str, out: str, info: dict[str, Any]) -> None:
        cases.append((inp, out))
        case_info.append(info)

    def stored_upload(before: set[str]) -> tuple[str | None, Any, Any, bytes | None]:
        """-> (blob id, upload in model vocabulary, sha table, decoded bytes) for the object created since `before`."""
        new = [b for b in store.blobs._blobs if b not in before]
        if not new:
            return None, None, [], None
        assert len(new) == 1, new
        body, enc = store.blobs.get(new[0])  # type: ignore[misc]
        ok, raw = D.decode_body(body, enc)
        f, _dom = D.view_of((body, enc))
        sch = D.schema_id(pa.ipc.open_stream(raw).schema) if ok else 999
        items = f[2] if f[0] == "data" else []
        up = {"schema": sch, "items": items, "enc": D.COMP_CODE.get(enc, 9)}
        tab = [(sch, items, hashlib.sha256(raw).hexdigest().encode())]
        return new[0], up, tab, raw

    try:
        # ============ A. unit level: production ========================================================================
        n_coll = 60 if quick else 300
        objects: list[dict[str, Any]] = []  # externalised cycles, reused by the resolve scenarios
        for i in range(n_coll):
            schema = D.SCHEMAS[0] if rng.random() < 0.8 else D.SCHEMAS[rng.choice([1, 2, 4])]
            cyc = gen_cycle(rng, allow_exc=True, force_data=(i % 4 == 0))
            out, batches = D.make_collector(schema, cyc)
            has_data = any(c[0] == "data" for c in cyc)
            dsize = out.data_batch.batch.get_total_buffer_size() if has_data else None
            thr = rng.choice([0, max((dsize or 1) - 1, 0), dsize or 0, (dsize or 0) + 1, 1 << 40])
            comp = rng.choice([None, "zstd", "gzip"])
            storage = rng.random() < 0.9
            cfg = mkcfg(storage, thr, comp)
            before = set(store.blobs._blobs)
            bl, ext_bytes = maybe_externalize_collector(out, cfg)
            bid, up, tab, raw = stored_upload(before)
            cyc_abs = [D.abs_batch(b, cm) for b, cm in batches]
            wire = [D.abs_batch(b, cm) for b, cm in bl]
            url = (store.base_url + "/download/" + bid).encode() if bid else b""
            add_case(
                f"(CExtColl {'true' if ser_all else 'false'} {D.c_cfg(storage, thr, comp)} {D.c_bytes(url)} {D.c_tab(tab)} {D.schema_id(schema)} {D.c_list([D.c_batch(b) for b in cyc_abs])} {D.c_opt(None if dsize is None else str(dsize))})",
                D.c_result(wire, up, [], ("none",)),
                {"op": "collector", "cycle": cyc, "threshold": thr, "compression": comp, "storage": storage, "dsize": dsize},
            )
            ctx.count("impl_runs")
            ctx.tally("production", f"collector:{'ext' if bid else 'inline'}:{comp if bid else '-'}")
            ctx.case(["coll", cyc, thr, comp, storage], nontrivial=has_data and storage)
            # oracle (independent of the model): threshold rule and object content
            want_ext = storage and has_data and dsize >= thr
            repl = {"op": "maybe_externalize_collector", "cycle": cyc, "threshold": thr, "compression": comp, "data_batch_bytes": dsize}
            if want_ext != (bid is not None):
                ctx.violation("collector-threshold-rule", f"externalised={bid is not None}, expected {want_ext}", repl)
            if bid is None and wire != cyc_abs:
                ctx.violation("collector-inline-batches-altered", "batches below threshold were changed", repl)
            if bid is not None:
                pm = dict(wire[0]["meta"] or [])
                di = next(k for k, c in enumerate(cyc) if c[0] == "data")
                head, tail = (cyc_abs, []) if ser_all else (cyc_abs[: di + 1], cyc_abs[di + 1:])
                if wire[1:] != tail or wire[0]["rows"] != 0 or pm.get(D.K_SHA) != hashlib.sha256(raw).hexdigest().encode() or up["items"] != head:
                    ctx.violation("collector-object-not-the-cycle", "pointer digest / uploaded stream do not describe the cycle", {**repl, "wire": repr(wire)[:400]})
                if ext_bytes != len(raw):
                    ctx.violation("collector-external-bytes-misreported", f"reported {ext_bytes}, raw IPC is {len(raw)}", repl)
                objects.append({"schema": schema, "cycle": cyc[: len(head)], "abs": head, "ptr": bl[0], "bid": bid, "raw": raw, "comp": comp, "stored": store.blobs.get(bid)})

        n_b = 40 if quick else 200
        for i in range(n_b):
            schema = D.SCHEMAS[rng.choice([0, 0, 1, 4])]
            rows = rng.choice([0, 1, 2, 5, 60])
            b, cm = D.data_batch(schema, rows, rng.randrange(50), {b"k": b"v"} if rng.random() < 0.3 else None)
            size = b.get_total_buffer_size()
            thr = rng.choice([0, max(size - 1, 0), size, size + 1, 1 << 40])
            comp = rng.choice([None, "zstd", "gzip"])
            storage = rng.random() < 0.9
            cfg = mkcfg(storage, thr, comp)
            before = set(store.blobs._blobs)
            rb, rcm, ext_bytes = maybe_externalize_batch(b, cm, cfg)
            bid, up, tab, raw = stored_upload(before)
            url = (store.base_url + "/download/" + bid).encode() if bid else b""
            a_in = D.abs_batch(b, cm)
            add_case(
                f"(CExtBatch {D.c_cfg(storage, thr, comp)} {D.c_bytes(url)} {D.c_tab(tab)} {size} {D.c_batch(a_in)})",
                D.c_result([D.abs_batch(rb, rcm)], up, [], ("none",)),
                {"op": "batch", "rows": rows, "threshold": thr, "compression": comp, "storage": storage, "size": size},
            )
            ctx.count("impl_runs")
            ctx.tally("production", f"batch:{'ext' if bid else 'inline'}:{comp if bid else '-'}")
            ctx.case(["batch", rows, thr, comp, storage, D.schema_id(schema)], nontrivial=storage and rows > 0)
            want_ext = storage and rows > 0 and size >= thr
            repl = {"op": "maybe_externalize_batch", "rows": rows, "threshold": thr, "compression": comp, "batch_bytes": size}
            if want_ext != (bid is not None):
                ctx.violation("batch-threshold-rule", f"externalised={bid is not None}, expected {want_ext}", repl)
            if bid is not None:
                if up["items"] != [a_in] or dict(D.meta_of(rcm) or []).get(D.K_SHA) != hashlib.sha256(raw).hexdigest().encode():
                    ctx.violation("batch-object-not-the-batch", "pointer digest / uploaded stream do not describe the batch", repl)
                objects.append({"schema": schema, "cycle": [("data", rows, 0, None)], "abs": [a_in], "ptr": (rb, rcm), "bid": bid, "raw": raw, "comp": comp, "stored": store.blobs.get(bid)})

        # client-uploaded request: pointer body
        for i in range(6 if quick else 40):
            sch = pa.schema([pa.field("pid", pa.int64()), pa.field("payload", pa.binary())])
            req = pa.RecordBatch.from_pydict({"pid": [i], "payload": [sv.blob(i, rng.choice([0, 10, 500]))]}, schema=sch)
            rmeta = pa.KeyValueMetadata({b"vgi_rpc.method": b"upload", b"vgi_rpc.request_version": b"1"})
            body = D.ser_stream(sch, [(req, rmeta)])
            url = f"{store.base_url}/download/{i:032x}"
            pb = _build_pointer_request_body(body, url)
            f, _ = D.view_of((pb, None))
            fo, _ = D.view_of((body, None))
            a_req = D.abs_batch(req, rmeta)
            add_case(
                f"(CReqPtr {D.c_batch(a_req)} {D.c_bytes(url.encode())})",
                D.c_result(f[2], {"schema": D.schema_id(sch), "items": fo[2], "enc": None}, [], ("none",)),
                {"op": "request-pointer", "i": i},
            )
            ctx.count("impl_runs")
            ctx.case(["reqptr", i], nontrivial=True)

        # ============ A. unit level: resolution under storage-side faults ==============================================
        def resolve_case(o: dict[str, Any], name: str, script: list[Any], sha_mode: str, retries: int, on_log: bool, have_cfg: bool = True) -> None:
            ptr_b, ptr_cm = o["ptr"]
            md = dict(D.meta_of(ptr_cm) or [])
            views = [D.view_of(v) for v in script]
            dom = all(d for _, d in views)
            last_ok = next((f for f, _ in reversed(views) if f[0] == "data"), None)
            if sha_mode == "none":
                md.pop(D.K_SHA, None)
            elif sha_mode == "junk":
                md[D.K_SHA] = b"0" * 64
            elif sha_mode == "match-served" and last_ok is not None:
                md[D.K_SHA] = last_ok[1]
            cm2 = pa.KeyValueMetadata(md)
            store.script(o["bid"], script)
            cfg = mkcfg(True, 0, o["comp"], retries) if have_cfg else None
            logs, outc, msgs, raw_res = D.real_resolve(ptr_b, cm2, cfg, on_log)
            ctx.count("impl_runs")
            ctx.tally("fault", name)
            ctx.tally("resolve_outcome", outc[0] if outc[0] != "fail" else f"fail:{outc[1]}")
            ctx.case(["resolve", name, sha_mode, retries, on_log, o["abs"], have_cfg], nontrivial=name != "faithful")
            repl = {"op": "resolve_external_location", "fault": name, "pointer_digest": sha_mode, "max_retries": retries, "object_cycle": o["cycle"],
                    "compression": o["comp"], "script": [None if v is None else {"body_hex": v[0][:120].hex(), "len": len(v[0]), "encoding": v[1]} for v in script]}
            # ---- property oracle on the implementation (own notion of the four clauses) ----
            if outc[0] == "deliver":
                served = store.last_get.get(o["bid"])
                fv, _d = D.view_of(served)
                why = None
                if fv[0] != "data":
                    why = "nothing decodable was served"
                else:
                    items = fv[2]
                    datas = [it for it in items if it is not None and not (it["rows"] == 0 and it["meta"] is not None and D.K_LEVEL in dict(it["meta"]) and D.K_MSG in dict(it["meta"]))]
                    if D.K_SHA in md and fv[1] != md[D.K_SHA]:
                        why = "sha256 of the served payload differs from the pointer's"
                    elif any(it is None for it in items):
                        why = "served payload does not parse"
                    elif any(it["meta"] is not None and D.K_LOC in dict(it["meta"]) for it in items):
                        why = "served payload contains another pointer"
                    elif len(datas) != 1:
                        why = f"served payload holds {len(datas)} data batches"
                    elif datas[0]["schema"] != D.schema_id(ptr_b.schema):
                        why = "schema of the served data batch differs from the pointer's"
                    elif (datas[0]["rows"], datas[0]["body"]) != (outc[1]["rows"], outc[1]["body"]):
                        why = "delivered batch is not the served data batch"
                if why is not None:
                    ctx.violation("corrupt-payload-delivered:" + why.split(" ")[0] + "-" + name, why, repl)
            if name == "faithful" and have_cfg:
                exp_logs = [(c[1].encode(), c[2].encode()) for c in o["cycle"] if c[0] == "log"]
                exc_i = next((k for k, c in enumerate(o["cycle"]) if c[0] == "log" and c[1] == "EXCEPTION"), None)
                if exc_i is None:
                    d_abs = next(a for a, c in zip(o["abs"], o["cycle"]) if c[0] == "data")
                    got = outc[1] if outc[0] == "deliver" else None
                    if got is None or (got["rows"], got["body"], got["schema"]) != (d_abs["rows"], d_abs["body"], d_abs["schema"]) or (on_log and logs != exp_logs):
                        ctx.violation("faithful-store-not-transparent", "resolve over a faithful store did not return the cycle's data batch and logs", {**repl, "got": repr(outc)[:300], "logs": repr(logs)})
            # ---- model correspondence ----
            if dom:
                add_case(
                    f"(CResolve {'true' if have_cfg else 'false'} {retries} {'true' if on_log else 'false'} {D.c_batch(D.abs_batch(ptr_b, cm2))} {D.c_list([D.c_fetched(f) for f, _ in views])})",
                    D.c_result([], None, logs, outc),
                    {**repl, "impl": repr(outc)[:300], "impl_logs": repr(logs)[:300], "exception": repr(raw_res)[:200] if outc[0] == "fail" else None},
                )
            else:
                ctx.count("resolve_cases_outside_model_domain")

        rng.shuffle(objects)
        with_data = [o for o in objects if any(c[0] == "data" for c in o["cycle"])]
        n_obj = 6 if quick else 16
        for oi, o in enumerate(with_data[:n_obj]):
            body, enc = o["stored"]
            resolve_case(o, "faithful", [(body, enc)], "orig", 2, True)
            resolve_case(o, "faithful", [(body, enc)], "none", 0, oi % 2 == 0)
            if oi % 3 == 0:
                resolve_case(o, "faithful", [(body, enc)], "orig", 2, True, have_cfg=False)
            for name, script in corruptions(rng, D, o["schema"], body, enc, o["raw"]):
                modes = ["orig", "none", "match-served"] if (quick and oi % 2 == 0) or not quick else [rng.choice(["orig", "none", "match-served", "junk"])]
                for sha_mode in modes:
                    retries = rng.choice([0, 1, 2, 2, 5])
                    resolve_case(o, name, script, sha_mode, retries, rng.random() < 0.85)
        # every remaining externalised object resolves faithfully (threshold x compression grid of part A)
        for o in with_data[n_obj:]:
            resolve_case(o, "faithful", [o["stored"]], rng.choice(["orig", "none"]), 2, True)
        store.clear_scripts()
        # a non-pointer batch and a pointer-looking log batch pass through untouched
        for b, cm in [D.data_batch(D.SCHEMAS[0], 2, 1), D.data_batch(D.SCHEMAS[0], 0, 0),
                      (D.data_batch(D.SCHEMAS[0], 0, 0)[0], pa.KeyValueMetadata({D.K_LOC: b"http://127.0.0.1:1/x", D.K_LEVEL: b"INFO", D.K_MSG: b"m"})),
                      D.data_batch(D.SCHEMAS[0], 3, 1, {D.K_LOC: b"http://127.0.0.1:1/x"})]:
            logs, outc, _, _ = D.real_resolve(b, cm, mkcfg(True, 0, None), True)
            add_case(f"(CResolve true 2 true {D.c_batch(D.abs_batch(b, cm))} [])", D.c_result([], None, logs, outc), {"op": "resolve non-pointer"})
            ctx.count("impl_runs")
            if outc[0] != "pass":
                ctx.violation("non-pointer-batch-not-passed-through", "a batch that is not a pointer was not returned unchanged", {"meta": repr(D.meta_of(cm)), "rows": b.num_rows})

        ctx.log(f"unit level done: {len(cases)} model cases")

        # ============ B. end to end: programs x thresholds x compression x transport ======================================
        e2e_pairs = 0
        pid = 1000

        def run_e2e(opener: Any, scfg: Any, ccfg: Any, script: list[Any]) -> list[Any]:
            with opener(scfg, ccfg) as (proxy, rec, closer):
                return sv.run_script(proxy, rec, script, closer=closer)

        def first_exception(prog: dict[str, Any]) -> tuple[int, str, int] | None:
            for si, st in enumerate(prog.get("steps", [])):
                for where in ("pre", "post"):
                    for li, l in enumerate(st[where]):
                        if l[0] == "EXCEPTION":
                            return si, where, li
            return None

        def is_subseq(small: list[Any], big: list[Any]) -> list[Any] | None:
            """big minus small (as an ordered subsequence removal), or None when small is not a subsequence of big."""
            extra, k = [], 0
            for x in big:
                if k < len(small) and x == small[k]:
                    k += 1
                else:
                    extra.append(x)
            return extra if k == len(small) else None

        def judge(tname: str, kind: str, prog: dict[str, Any], script: list[Any], thr: int, comp: Any, base: list[Any], ev: list[Any], externalised: int) -> None:
            pb, pe = proj(base), proj(ev)
            if pe == pb:
                return
            repl = {"transport": tname, "program": prog, "script": script, "threshold": thr, "compression": comp,
                    "inline_trace": base, "externalised_trace": ev, "objects_uploaded": externalised}
            post_msgs = {l[1] for st in prog.get("steps", []) for l in st["post"]}

            def strip(logs: list[Any]) -> list[Any]:
                return [l for l in logs if l[1] not in post_msgs]

            if (tname == "http" and script[0] == "exchange" and pb["terminal"] is None and strip(pe["logs"]) == strip(pb["logs"]) and len(pe["logs"]) > len(pb["logs"])
                    and pe["values"] == pb["values"][: len(pe["values"])] and (pe["terminal"] is None or pe["terminal"][2] in post_msgs)):
                ctx.violation(
                    "http-exchange-batches-after-the-data-batch-reach-the-client-only-when-externalised",
                    "over HTTP an exchange response is read up to its data batch: logs (and an EXCEPTION-level log) the method emits after the data batch "
                    "are dropped inline, but are dispatched (and raised) when the cycle is externalised, because the whole cycle sits in the external object",
                    repl)
                return
            # An externalised cycle that contains an EXCEPTION-level log (at ANY position): the resolver raises at that item, so the
            # externalised route delivers exactly what precedes it; the inline route may deliver more (the data batch when the log
            # follows it; later logs through the socket drain).  The externalised trace is demanded EXACTLY, from the program.
            fe = first_exception(prog)
            if fe is not None and externalised > 0 and kind != "unary":
                si, where, li = fe
                st = prog["steps"][si]
                if 8 * st["emit"]["rows"] >= thr:
                    def ev_log(l: list[Any]) -> list[Any]:
                        return [l[0], l[1], dict(l[2] or {})]

                    before = list(prog.get("init_logs") or [])
                    for t in prog["steps"][:si]:
                        before += t["pre"] + t["post"]
                    before += st["pre"][:li] if where == "pre" else st["pre"] + st["post"][:li]
                    after_msgs = {l[1] for l in (st["pre"][li + 1:] + st["post"] if where == "pre" else st["post"][li + 1:])}
                    for t in prog["steps"][si + 1:]:
                        after_msgs |= {l[1] for l in t["pre"] + t["post"]}
                    n_vals = (1 if sv.HAS_HEADER.get(script[1], False) else 0) + si
                    err = ["error", "EXCEPTION", st[where][li][1]]
                    ext_exact = (pe["logs"] == [ev_log(l) for l in before] and pe["terminal"] == err and not pe["done"]
                                 and len(pe["values"]) == n_vals and pe["values"] == pb["values"][:n_vals])
                    extra_logs = is_subseq(pe["logs"], pb["logs"])
                    extra_vals = pb["values"][n_vals:]
                    inline_superset = (extra_logs is not None and all(l[1] in after_msgs for l in extra_logs) and pb["terminal"] in (None, err)
                                       and all(v[0] == "batch" for v in extra_vals))
                    if ext_exact and inline_superset and (extra_logs or extra_vals):
                        if where == "post" and extra_vals:
                            ctx.violation(
                                "exception-log-after-data-drops-the-externalised-batch",
                                "a cycle that emits a data batch and then an EXCEPTION-level client log delivers the batch and then the error inline, "
                                "but only the error when the cycle is externalised (the whole cycle is in the external object and "
                                "_fetch_and_resolve raises before returning the batch); what the inline run delivers after that point is lost too", repl)
                        else:
                            ctx.violation(
                                "exception-log-in-externalised-cycle-drops-later-items",
                                "a cycle containing an EXCEPTION-level client log: inline, items queued after that log in the same call (later logs) are still "
                                "dispatched before the error surfaces; externalised, the whole cycle is in the external object and _fetch_and_resolve raises at "
                                "the EXCEPTION item, so everything after it is dropped", repl)
                        return
            ctx.violation("externalised-delivery-differs-from-inline", "logs / values / terminal error differ from inline delivery", repl)

        # fixed scenarios (every tier, every seed): the three listed shapes reproduce deterministically
        fixed = [
            ("pipe", sv.open_pipe, "producer", ["iterate", "producer"], {"init_logs": [], "header": None, "steps": [
                {"pre": [["TRACE", "f1", None], ["EXCEPTION", "app-raised-before-emit", None]], "emit": {"rows": 0, "meta": None}, "post": [["INFO", "f2", {"e": "1"}]], "finish": False},
                {"pre": [], "emit": {"rows": 3, "meta": None}, "post": [], "finish": False}]}),
            ("pipe", sv.open_pipe, "producer", ["iterate", "producer"], {"init_logs": [], "header": None, "steps": [
                {"pre": [["INFO", "f3", None]], "emit": {"rows": 4, "meta": None}, "post": [["EXCEPTION", "app-raised-after-emit", None]], "finish": False}]}),
            ("http", sv.open_http, "exchange", ["exchange", "exchange"], {"init_logs": [], "header": None, "steps": [
                {"pre": [], "emit": {"rows": 2, "meta": None}, "post": [["WARN", "f4", None]], "finish": False}]}),
        ]
        for tname, opener, kind, sc, prog in fixed:
            pid += 1
            sv.PROGRAMS[pid] = prog
            script = sc + [pid] + ([1] if sc[0] == "exchange" else [])
            base = run_e2e(opener, None, None, script)
            scfg = sv.make_config(store, 0, None)
            cfgs.append(scfg)
            n0 = store.object_count()
            ev = run_e2e(opener, scfg, scfg, script)
            externalised = store.object_count() - n0
            e2e_pairs += 1
            ctx.count("impl_runs", 2)
            ctx.case(["e2e-fixed", tname, prog, script], nontrivial=True)
            judge(tname, kind, prog, script, 0, None, base, ev, externalised)

        n_prog = 10 if quick else 30
        for pi in range(n_prog):
            kind = ["unary", "producer", "producer_h", "exchange", "exchange_h"][pi % 5]
            exc_after = kind != "unary" and pi % 10 >= 8
            pid += 1
            prog = gen_program(rng, kind, exc_after)
            sv.PROGRAMS[pid] = prog
            if kind == "unary":
                script = ["unary", pid]
            elif kind.startswith("producer"):
                script = ["iterate", kind, pid]
            else:
                script = ["exchange", kind, pid, len(prog["steps"]) + rng.choice([0, 1])]
            for tname, opener in (("pipe", sv.open_pipe), ("http", sv.open_http)):
                if quick and (pi + (tname == "http")) % 2:
                    continue
                base = run_e2e(opener, None, None, script)
                pb = proj(base)
                sizes = [0, 1 << 60]
                if kind == "unary":
                    sizes += [prog["size"], prog["size"] + 60]
                else:
                    sizes += sorted({8 * st["emit"]["rows"] for st in prog["steps"]} | {8 * st["emit"]["rows"] + 1 for st in prog["steps"]})
                grid = [(t, c) for t in sizes for c in (None, "zstd", "gzip")]
                if quick:
                    grid = [(0, None), (0, "zstd"), (0, "gzip"), (1 << 60, rng.choice([None, "zstd"]))] + rng.sample(grid, 2)
                for thr, comp in grid:
                    scfg = sv.make_config(store, thr, comp)
                    cfgs.append(scfg)
                    n0 = store.object_count()
                    ev = run_e2e(opener, scfg, scfg, script)
                    externalised = store.object_count() - n0
                    pe = proj(ev)
                    e2e_pairs += 1
                    ctx.count("impl_runs", 2)
                    ctx.tally("e2e", f"{tname}:{kind}:{'ext' if externalised else 'inline'}:{comp}")
                    ctx.case(["e2e", tname, prog, script, thr, comp], nontrivial=externalised > 0)
                    judge(tname, kind, prog, script, thr, comp, base, ev, externalised)
        ctx.sample({"e2e": "program x {pipe,http} x thresholds x compression; inline trace vs externalised trace (projections)"})

        # ---- end to end under storage-side corruption: nothing corrupt reaches the application ----
        def mut_flip(body: bytes, enc: str | None) -> Any:
            ok, raw = D.decode_body(body, enc)
            r = bytearray(raw)
            r[len(r) // 2] ^= 0x10
            return (reencode(bytes(r), enc), enc)

        def mut_trunc(body: bytes, enc: str | None) -> Any:
            return (body[: len(body) // 2], enc)

        def mut_subst(body: bytes, enc: str | None) -> Any:
            return (reencode(D.ser_stream(sv.OUT_SCHEMA, [D.data_batch(sv.OUT_SCHEMA, 2, 999)]), enc), enc)

        def mut_extra(body: bytes, enc: str | None) -> Any:
            return (reencode(D.ser_stream(sv.OUT_SCHEMA, [D.data_batch(sv.OUT_SCHEMA, 2, 999), D.data_batch(sv.OUT_SCHEMA, 1, 998)]), enc), enc)

        def mut_schema(body: bytes, enc: str | None) -> Any:
            return (reencode(D.ser_stream(D.SCHEMAS[1], [D.data_batch(D.SCHEMAS[1], 2, 999)]), enc), enc)

        def mut_nested(body: bytes, enc: str | None) -> Any:
            return (reencode(D.ser_stream(sv.OUT_SCHEMA, [D.data_batch(sv.OUT_SCHEMA, 0, 0, {D.K_LOC: b"http://127.0.0.1:1/x"})]), enc), enc)

        muts = {"flip": mut_flip, "truncate": mut_trunc, "substitute": mut_subst, "extra-batch": mut_extra, "schema-change": mut_schema, "nested-pointer": mut_nested, "missing": lambda b, e: None}
        pid += 1
        sv.PROGRAMS[pid] = {"init_logs": [], "header": {"h": 1, "size": 0}, "steps": [
            {"pre": [["INFO", "a", None]], "emit": {"rows": 5, "meta": None}, "post": [], "finish": False},
            {"pre": [], "emit": {"rows": 7, "meta": {"k": "v"}}, "post": [["WARN", "b", None]], "finish": False}]}
        pid_u = pid + 1
        sv.PROGRAMS[pid_u] = {"logs": [["INFO", "u", None]], "size": 500}
        pid = pid_u
        for mname, mut in muts.items():
            for comp in ([None, "zstd"] if quick else [None, "zstd", "gzip"]):
                for tname, opener in (("pipe", sv.open_pipe), ("http", sv.open_http)):
                    for script in (["iterate", "producer", pid - 1], ["unary", pid_u], ["exchange", "exchange", pid - 1, 2]):
                        if quick and rng.random() < 0.5:
                            continue
                        scfg = sv.make_config(store, 0, comp, max_retries=0)
                        cfgs.append(scfg)
                        store.mutator = mut
                        try:
                            ev = run_e2e(opener, scfg, scfg, script)
                        finally:
                            store.mutator = None
                        ctx.count("impl_runs")
                        ctx.tally("e2e_fault", mname)
                        ctx.case(["e2e-fault", mname, comp, tname, script], nontrivial=True)
                        pe = proj(ev)
                        bad_vals = [v for v in pe["values"] if v[0] == "result" or (v[0] == "batch" and v[1] > 0)]
                        # under this storage nothing that was externalised may be delivered at all: every fetch is corrupt;
                        # "substitute" replaces by a valid same-schema object, which a digest-carrying pointer must refuse too
                        if bad_vals or pe["terminal"] is None:
                            ctx.violation("corrupt-storage-reaches-application:" + mname, "a value was delivered although every stored object was corrupted",
                                          {"fault": mname, "compression": comp, "transport": tname, "script": script, "trace": ev})
        # ---- client-uploaded request (HTTP, real httpx2 client; storage reached over loopback) ----
        upload_runs = _client_upload_scenarios(ctx, store, sv, D, quick)
        ctx.log(f"end-to-end done: {e2e_pairs} inline/external pairs, {upload_runs} client-upload runs")
    finally:
        for c in cfgs:
            try:
                c.fetch_config.close()
            except Exception:  # noqa: BLE001
                pass
        store.close()

    # ============ model side ==============================================================================================
    ok, bad, clog = ctx.coq_mismatches(HEADER, "run_case", "result_eqb", cases, "case", "result", shard=150)
    ctx.count("model_cases", len(cases))
    ctx.obligation("correspondence:M_ExtStore.run_case", "correspondence", ok and not bad, clog if not ok else f"{len(bad)} of {len(cases)} cases disagree")
    for i in bad[:4]:
        shown = ctx.coq_show(HEADER, f"run_case {cases[i][0]}")
        ctx.violation("model-impl-disagree:" + str(case_info[i].get("op", ""))[:30] + ":" + str(case_info[i].get("fault", "")), "implementation and model decide differently",
                      {**case_info[i], "model": shown[-1500:], "impl_term": cases[i][1][:1500]})
    ctx.rule = ("unit: generated collector cycles / batches x thresholds {0, size-1, size, size+1, never} x compression x storage on/off; every "
                "externalised object x fault scripts (one variant per attempt) x pointer digest {original, none, matching the served bytes, junk} x "
                "max_retries; end to end: generated programs x {pipe, http} x thresholds x compression vs inline; non-trivial = something was "
                "externalised / a fault was injected")
    ctx.assumptions += [
        "tenacity is not installed: /verif/harness/stubs/tenacity.py stands in (Retrying/stop_after_attempt/wait_fixed/retry_if_exception_type, reraise)",
        "the object store is vgi_rpc.conformance.fake_storage served over loopback HTTP; faults are injected between the store and the fetcher",
        "pyarrow's IPC reader/writer, vgi_rpc._codec (C17/C18) and fetch_url's transport behaviour (C31) are environment; in the proofs they are "
        "Section hypotheses: parse(ser s bs) = bs, decode(encode x) = x, hash collision freedom at the point of use",
        "resolve cases whose fetched metadata is outside the model's domain (duplicate keys, undecodable UTF-8, malformed log_extra) are checked by the "
        "oracle only",
        "programs do not use vgi_rpc.* metadata keys on emitted batches",
    ]


def _client_upload_scenarios(ctx: Any, store: Any, sv: Any, D: Any, quick: bool) -> int:
    """HTTP client whose request exceeds max_request_bytes: the real client PUTs the body to a server-vended URL and
    sends a pointer; the server resolves it.  Faithful store -> same result as inline; corrupted store -> the
    application is never handed a payload (structural checks; the request pointer carries no digest)."""
    import httpx2
    from vgi_rpc.http import http_connect, make_wsgi_app
    from vgi_rpc.rpc import RpcServer

    runs = 0
    scfg = sv.make_config(store, 1 << 60, None)
    try:
        server = RpcServer(sv.C30Proto, sv.C30Impl(), external_location=scfg)
        app = make_wsgi_app(server, token_key=b"verif-c30-token-key-0123456789ab", enable_landing_page=False, enable_describe_page=False,
                            enable_not_found_page=False, max_request_bytes=2000, upload_url_provider=store.backend)
        client = httpx2.Client(mounts={store.base_url + "/": httpx2.HTTPTransport(), "all://": httpx2.WSGITransport(app=app)}, base_url="http://c30.test")
    except Exception as e:  # noqa: BLE001
        ctx.obligation("env:http-client-upload-path", "environment", False, f"cannot build the client-upload scenario: {type(e).__name__}: {e}")
        return 0
    try:
        sv.PROGRAMS[77] = {"logs": [["INFO", "got-upload", None]]}
        for n in ([100, 5000] if quick else [0, 100, 1900, 2100, 5000, 60000]):
            for fault in (None, "substitute-other-schema", "extra-batch", "nested-pointer", "truncate", "missing", "zero-batches"):
                if fault is not None and n <= 2000:
                    continue
                rec = sv.Recorder()
                del sv.SERVER_SEEN[:]
                n0 = store.object_count()

                def mut(body: bytes, enc: str | None, fault: Any = fault) -> Any:
                    import pyarrow as pa

                    rd = pa.ipc.open_stream(body)
                    b, cm = rd.read_next_batch_with_custom_metadata()
                    if fault == "substitute-other-schema":
                        return (D.ser_stream(D.SCHEMAS[0], [D.data_batch(D.SCHEMAS[0], 1, 5)]), enc)
                    if fault == "extra-batch":
                        return (D.ser_stream(b.schema, [(b, cm), (b, cm)]), enc)
                    if fault == "nested-pointer":
                        return (D.ser_stream(b.schema, [(b, pa.KeyValueMetadata({**dict(cm.items()), D.K_LOC: b"http://127.0.0.1:1/x"}))]), enc)
                    if fault == "truncate":
                        return (body[: len(body) // 2], enc)
                    if fault == "zero-batches":
                        return (D.ser_stream(b.schema, []), enc)
                    return None

                store.mutator = mut if fault else None
                try:
                    with http_connect(sv.C30Proto, client=client, on_log=rec.on_log, external_location=scfg, compression_level=None) as proxy:
                        ev = sv.run_script(proxy, rec, ["upload", 77, n])
                finally:
                    store.mutator = None
                runs += 1
                uploaded = store.object_count() - n0
                ctx.count("impl_runs")
                ctx.tally("client_upload", f"{'uploaded' if uploaded else 'inline'}:{fault}")
                ctx.case(["client-upload", n, fault], nontrivial=uploaded > 0)
                repl = {"op": "client-uploaded request", "payload_bytes": n, "fault": fault, "trace": ev, "server_saw": list(sv.SERVER_SEEN)}
                want = hashlib.sha1(sv.blob(77 + 7, n)).hexdigest()
                if fault is None:
                    if ev != [["log", "INFO", "got-upload", {}], ["result", n, ""]] or sv.SERVER_SEEN != [("upload", 77, n, want)]:
                        ctx.violation("client-uploaded-request-differs-from-inline", "the uploaded request did not reach the method as the inline one would", repl)
                    if n > 2100 and not uploaded:
                        ctx.obligation("env:client-upload-exercised", "environment", False, "large request was not externalised by the client")
                else:
                    if sv.SERVER_SEEN or any(e[0] == "result" for e in ev):
                        ctx.violation("corrupt-uploaded-request-reaches-method:" + fault, "the server method ran on a corrupted uploaded request", repl)
    finally:
        client.close()
        try:
            scfg.fetch_config.close()
        except Exception:  # noqa: BLE001
            pass
    return runs
