"""C40 Capability headers advertise exactly the configuration.

proof         : coq/prop/P_C40.v over model/M_CapHeaders.v -- for every configuration (all numbers, all booleans,
                every list of echo-header names) the header dictionary built by the `capability_headers[K] = V`
                sequence is exactly {name(f) -> text(f) | feature f configured}; the capabilities middleware
                leaves exactly those capability-named headers on every response whatever happened before the
                response phase; the client probe applied to such a response returns the configuration.
regenerated   : translate/t_c40_capheaders.py -> gen/G_CapHeaders.v: the (guard, header text, value expression)
                table of make_wsgi_app with the header constants resolved through _common.py/_introspect.py, the
                install guard, the re-bound variables, and the statement list of
                _CapabilitiesMiddleware.process_response; tie/T_CapHeaders.v proves each equal to the modelled
                term and restates the theorems over the generated terms.
correspondence: real Falcon apps (falcon.testing.TestClient) for a product of configurations x route kinds
                (unary ok / raising method / bad body / 415 / 401 / 500 from authenticate / 404 / 405 / 413 /
                bad compressed body / stream init / exchange / OPTIONS, HEAD, GET on health / landing / describe /
                session / introspection / upload-url / CORS preflight); response headers vs the model
                (M_CapHeaders.run_case) and vs an independent oracle; real http_capabilities() vs the model
                (run_roundtrip) and vs the configuration; http_capabilities() on synthetic header dictionaries vs
                the model probe (run_probe); int() and str.strip() vs their models.

Readings adopted where the statement leaves room (all are the code's documented behaviour):
  * VGI-Externalization-Enabled and VGI-Supported-Encodings are state reports: present in every configuration,
    the value ("true"/"false", the possibly empty codec list) is the configured state.
  * VGI-Max-Upload-Bytes belongs to the upload-URL feature: configured = provider given and max_upload_bytes
    given.  VGI-Sticky-Echo-Headers / -Default-TTL belong to sticky: configured only when enable_sticky.
    sticky_echo_headers=None and ={} both mean "without echo headers".
  * "reads that configuration back" is about the fields HttpServerCapabilities has; the probe has no field for
    proxy-proof-required / token-introspection, which are therefore checked on the headers only.
  * The QUANTIFIER lists sticky with/without echo headers, not the TTL value.  VGI-Sticky-Default-TTL is
    str(int(ttl)): for a whole number of seconds (the default 300.0 included) that is the configured value; for
    a fractional TTL the integer part is advertised (R_C40.v).  The check treats whole-second TTLs as the
    property's domain, probes fractional ones separately and records what it saw as a note, not a violation.
"""
from __future__ import annotations

import contextlib
import dataclasses
import io
import itertools
import os
import warnings
from dataclasses import dataclass
from typing import Any, Protocol

import pyarrow as pa

from vgi_rpc.rpc import AnnotatedBatch, AuthContext, CallContext, OutputCollector, RpcServer, Stream, StreamState

META = {
    "id": "C40",
    "technique": "Coq proof over a regenerated guard/header/value table + regenerated middleware statements; differential correspondence on the real Falcon app and the real client probe",
    "level_text": "Coq theorems for ALL configurations (numbers symbolic, booleans and lists universally quantified): "
    "header present iff feature configured, value = text of the configured value, names pairwise distinct; the "
    "response phase leaves exactly these capability-named headers whatever the request phase did (frame conditions "
    "on the other middleware are hypotheses, discharged empirically by the route-kind sweep); probe(response) = "
    "configuration incl. int(str(n)) = n and split/strip of the joined echo names. The table, install guard and "
    "process_response statements the theorems speak about are regenerated from the source on every run.",
    "level_note": "Trusted: Coq kernel, the translator, the harness. Modelled by hand and tied by execution only: "
    "enabled_encodings derivation, falcon set_header/response phase, http_capabilities, Python int()/strip()/split. "
    "Fractional sticky TTLs are outside the theorem's side condition (integral_ttl) -- see R_C40.v.",
    "design_ref": "§5 C40",
}

# the capability header universe, in the order the factory assigns them (lower-case, as Falcon emits)
UNIVERSE = [
    "vgi-max-request-bytes",
    "vgi-max-response-bytes",
    "vgi-max-externalized-response-bytes",
    "vgi-externalization-enabled",
    "vgi-upload-url-support",
    "vgi-max-upload-bytes",
    "vgi-supported-encodings",
    "vgi-proxy-proof-required",
    "vgi-token-introspection",
    "vgi-sticky-enabled",
    "vgi-sticky-default-ttl",
    "vgi-sticky-echo-headers",
]
MIXED = {
    "vgi-max-request-bytes": "VGI-Max-Request-Bytes",
    "vgi-max-response-bytes": "VGI-Max-Response-Bytes",
    "vgi-max-externalized-response-bytes": "VGI-Max-Externalized-Response-Bytes",
    "vgi-externalization-enabled": "VGI-Externalization-Enabled",
    "vgi-upload-url-support": "VGI-Upload-URL-Support",
    "vgi-max-upload-bytes": "VGI-Max-Upload-Bytes",
    "vgi-supported-encodings": "VGI-Supported-Encodings",
    "vgi-sticky-enabled": "VGI-Sticky-Enabled",
    "vgi-sticky-default-ttl": "VGI-Sticky-Default-TTL",
    "vgi-sticky-echo-headers": "VGI-Sticky-Echo-Headers",
}


# ---------------------------------------------------------------------------------------------------------------
# the service under test (module level: the HTTP app resolves the type hints)
# ---------------------------------------------------------------------------------------------------------------
@dataclass
class C40State(StreamState):
    n: int = 0

    def process(self, input: AnnotatedBatch, out: OutputCollector, ctx: CallContext) -> None:
        out.finish()


class C40Proto(Protocol):
    def f(self, a: int) -> int: ...
    def boom(self, a: int) -> int: ...
    def g(self, a: int) -> Stream[C40State]: ...


class _Impl:
    def f(self, a: int) -> int:
        return a + 1

    def boom(self, a: int) -> int:
        raise RuntimeError("boom")

    def g(self, a: int) -> Stream[C40State]:
        return Stream(output_schema=pa.schema([]), state=C40State())


class _Storage:
    def upload(self, data: bytes, schema: pa.Schema, *, content_encoding: str | None = None) -> str:
        return "https://example.invalid/x"


class _Provider:
    def generate_upload_url(self, schema: pa.Schema) -> Any:
        raise RuntimeError("no storage behind this provider")


def _authenticate(req: Any) -> AuthContext:
    if req.get_header("X-Crash"):
        raise RuntimeError("authenticator crashed")
    if req.get_header("Authorization") != "Bearer ok":
        raise ValueError("bad credentials")
    return AuthContext(domain="bearer", authenticated=True, principal="alice")


def _resolver(token: str) -> Any:
    return None


# ---------------------------------------------------------------------------------------------------------------
# configurations
# ---------------------------------------------------------------------------------------------------------------
@dataclass(frozen=True)
class Cfg:
    max_request: int | None = None
    max_response: int | None = None
    max_response_via_alias: bool = False
    max_ext: int | None = None
    ext: str = "none"  # none | nostorage | storage
    provider: bool = False
    max_upload: int | None = None
    compression: int | None = 1
    zstd_disabled: bool = False
    proof: bool = False
    introspect: bool = False
    sticky: bool = False
    ttl: float = 300.0
    echo: tuple[tuple[str, str], ...] | None = None  # None | () | pairs
    # settings that are not capabilities but shape the routes
    auth: bool = False
    cors: bool = False
    prefix: str = ""
    pages: bool = True
    health: bool = True

    def canon(self) -> list[Any]:
        return [self.max_request, self.max_response, self.max_response_via_alias, self.max_ext, self.ext, self.provider, self.max_upload,
                self.compression, self.zstd_disabled, self.proof, self.introspect, self.sticky, self.ttl,
                None if self.echo is None else [list(p) for p in self.echo], self.auth, self.cors, self.prefix, self.pages, self.health]

    def replay(self) -> dict[str, Any]:
        return {k: (getattr(self, k) if k != "echo" else (None if self.echo is None else dict(self.echo))) for k in self.__dataclass_fields__}


def _zstd_runtime() -> bool:
    from vgi_rpc._codec import Encoding, available_encodings

    return Encoding.ZSTD in available_encodings()


def expected_headers(c: Cfg, zstd_rt: bool) -> dict[str, str]:
    """Independent oracle: what the STATEMENT demands (whole-second TTLs only, see module docstring)."""
    out: dict[str, str] = {}
    if c.max_request is not None:
        out["vgi-max-request-bytes"] = format(c.max_request, "d")
    if c.max_response is not None:
        out["vgi-max-response-bytes"] = format(c.max_response, "d")
    if c.max_ext is not None:
        out["vgi-max-externalized-response-bytes"] = format(c.max_ext, "d")
    out["vgi-externalization-enabled"] = "true" if c.ext == "storage" else "false"
    if c.provider:
        out["vgi-upload-url-support"] = "true"
        if c.max_upload is not None:
            out["vgi-max-upload-bytes"] = format(c.max_upload, "d")
    encs: list[str] = []
    if c.compression is not None:
        if zstd_rt and not c.zstd_disabled:
            encs.append("zstd")
        encs.append("gzip")
    out["vgi-supported-encodings"] = ", ".join(encs)
    if c.proof:
        out["vgi-proxy-proof-required"] = "true"
    if c.introspect:
        out["vgi-token-introspection"] = "true"
    if c.sticky:
        out["vgi-sticky-enabled"] = "true"
        assert float(c.ttl).is_integer()
        out["vgi-sticky-default-ttl"] = format(int(c.ttl), "d")
        if c.echo:
            out["vgi-sticky-echo-headers"] = ", ".join(k for k, _ in c.echo)
    return out


@contextlib.contextmanager
def _env_zstd(disabled: bool) -> Any:
    old = os.environ.get("VGI_HTTP_DISABLE_ZSTD")
    try:
        if disabled:
            os.environ["VGI_HTTP_DISABLE_ZSTD"] = "1"
        else:
            os.environ.pop("VGI_HTTP_DISABLE_ZSTD", None)
        yield
    finally:
        if old is None:
            os.environ.pop("VGI_HTTP_DISABLE_ZSTD", None)
        else:
            os.environ["VGI_HTTP_DISABLE_ZSTD"] = old


def build_app(c: Cfg) -> tuple[Any, RpcServer]:
    from vgi_rpc.external import ExternalLocationConfig
    from vgi_rpc.http import make_wsgi_app

    ext = None
    if c.ext == "nostorage":
        ext = ExternalLocationConfig(storage=None)
    elif c.ext == "storage":
        ext = ExternalLocationConfig(storage=_Storage())
    srv = RpcServer(C40Proto, _Impl(), external_location=ext, enable_describe=True, server_id="c40")
    kw: dict[str, Any] = dict(
        prefix=c.prefix,
        token_key=b"k" * 32,
        max_request_bytes=c.max_request,
        max_externalized_response_bytes=c.max_ext,
        upload_url_provider=_Provider() if c.provider else None,
        max_upload_bytes=c.max_upload,
        compression_level=c.compression,
        proxy_proof_required=c.proof,
        enable_sticky=c.sticky,
        sticky_default_ttl=c.ttl,
        sticky_echo_headers=None if c.echo is None else dict(c.echo),
        authenticate=_authenticate if c.auth else None,
        cors_origins="*" if c.cors else None,
        enable_not_found_page=c.pages,
        enable_landing_page=c.pages,
        enable_describe_page=c.pages,
        enable_health_endpoint=c.health,
    )
    if c.max_response_via_alias:
        kw["max_stream_response_bytes"] = c.max_response
    else:
        kw["max_response_bytes"] = c.max_response
    if c.introspect:
        kw["introspect_resolver"] = _resolver
        kw["introspect_principals"] = ["alice"]
    with _env_zstd(c.zstd_disabled), warnings.catch_warnings():
        warnings.simplefilter("ignore", DeprecationWarning)
        app = make_wsgi_app(srv, **kw)
    return app, srv


ARROW = "application/vnd.apache.arrow.stream"
_SINK = io.StringIO()  # falcon logs unhandled exceptions to wsgi.errors


def routes(c: Cfg, srv: RpcServer) -> list[tuple[str, str, str, dict[str, str], bytes | None]]:
    """(label, method, path, headers, body) for every route kind that exists under this configuration."""
    from harness.rawrpc import request_bytes

    p = c.prefix
    ok = {"Authorization": "Bearer ok"} if c.auth else {}
    f_schema = srv._methods["f"].params_schema
    body_f = request_bytes("f", f_schema, {"a": 1})
    body_boom = request_bytes("boom", srv._methods["boom"].params_schema, {"a": 1})
    body_g = request_bytes("g", srv._methods["g"].params_schema, {"a": 1})
    big = request_bytes("f", f_schema, {"a": 1}, n_rows=4096)
    R: list[tuple[str, str, str, dict[str, str], bytes | None]] = [
        ("unary-ok", "POST", f"{p}/f", {**ok, "Content-Type": ARROW}, body_f),
        ("unary-raises", "POST", f"{p}/boom", {**ok, "Content-Type": ARROW}, body_boom),
        ("unary-garbage", "POST", f"{p}/f", {**ok, "Content-Type": ARROW}, b"\x00garbage"),
        ("unary-415", "POST", f"{p}/f", {**ok, "Content-Type": "text/plain"}, body_f),
        ("unary-unknown-method", "POST", f"{p}/nosuch", {**ok, "Content-Type": ARROW}, body_f),
        ("unary-big-body", "POST", f"{p}/f", {**ok, "Content-Type": ARROW}, big),
        ("unary-bad-zstd", "POST", f"{p}/f", {**ok, "Content-Type": ARROW, "Content-Encoding": "zstd"}, b"not zstd"),
        ("unary-bad-gzip", "POST", f"{p}/f", {**ok, "Content-Type": ARROW, "Content-Encoding": "gzip"}, b"not gzip"),
        ("unary-accept-gzip", "POST", f"{p}/f", {**ok, "Content-Type": ARROW, "Accept-Encoding": "gzip"}, body_f),
        ("stream-init", "POST", f"{p}/g/init", {**ok, "Content-Type": ARROW}, body_g),
        ("stream-exchange-bad", "POST", f"{p}/g/exchange", {**ok, "Content-Type": ARROW}, body_g),
        ("health-get", "GET", f"{p}/health", {}, None),
        ("health-head", "HEAD", f"{p}/health", {}, None),
        ("health-options", "OPTIONS", f"{p}/health", {}, None),
        ("health-put-405", "PUT", f"{p}/health", ok, None),
        ("landing-get", "GET", p or "/", ok, None),
        ("landing-options", "OPTIONS", p or "/", ok, None),
        ("describe-get", "GET", f"{p}/describe", ok, None),
        ("unary-head-405", "HEAD", f"{p}/f", ok, None),
        ("unary-options", "OPTIONS", f"{p}/f", ok, None),
        ("unary-get-405", "GET", f"{p}/f", ok, None),
        ("not-found-deep", "GET", f"{p}/no/such/route/at/all", ok, None),
        ("not-found-outside-prefix", "GET", "/elsewhere/x/y/z", ok, None),
        ("not-found-options", "OPTIONS", f"{p}/no/such/route/at/all", ok, None),
        ("not-found-head", "HEAD", f"{p}/no/such/route/at/all", ok, None),
        ("session-delete", "DELETE", f"{p}/__session__", ok, None),
        ("session-delete-token", "DELETE", f"{p}/__session__", {**ok, "VGI-Session": "bogus"}, None),
        ("unary-bogus-session", "POST", f"{p}/f", {**ok, "Content-Type": ARROW, "VGI-Session": "bogus", "VGI-Session-Accept": "true"}, body_f),
        ("introspect-post", "POST", f"{p}/__introspect_token__", {**ok, "Content-Type": "application/json"}, b'{"token":"x"}'),
        ("upload-url", "POST", f"{p}/__upload_url__/init", {**ok, "Content-Type": ARROW}, body_f),
        ("well-known", "GET", "/.well-known/oauth-protected-resource", {}, None),
    ]
    if c.auth:
        R += [
            ("unary-401-missing", "POST", f"{p}/f", {"Content-Type": ARROW}, body_f),
            ("unary-401-wrong", "POST", f"{p}/f", {"Content-Type": ARROW, "Authorization": "Bearer no"}, body_f),
            ("landing-401", "GET", p or "/", {}, None),
            ("options-401", "OPTIONS", f"{p}/f", {}, None),
            ("head-401", "HEAD", f"{p}/f", {}, None),
            ("not-found-401", "GET", f"{p}/no/such/route", {}, None),
            ("auth-crash-500", "POST", f"{p}/f", {"Content-Type": ARROW, "X-Crash": "1"}, body_f),
        ]
    if c.cors:
        R += [
            ("cors-preflight", "OPTIONS", f"{p}/f", {"Origin": "https://a.example", "Access-Control-Request-Method": "POST"}, None),
            ("cors-preflight-health", "OPTIONS", f"{p}/health", {"Origin": "https://a.example", "Access-Control-Request-Method": "GET"}, None),
            ("cors-unary", "POST", f"{p}/f", {**ok, "Content-Type": ARROW, "Origin": "https://a.example"}, body_f),
        ]
    return R


NUMS = [0, 1, 7, 1000, 65536, 2**31, 2**63 + 5, 10**30]
ECHOS: list[tuple[tuple[str, str], ...] | None] = [None, (), (("fly-force-instance-id", "m1"),), (("a", "1"), ("x-b", "2"), ("Zed-9", "3"))]
TTLS = [300.0, 1.0, 0.0, 86400.0, 7.0, 1e9]
FRACTIONAL_TTLS = [0.5, 90.7, 299.999]


def gen_configs(ctx: Any) -> list[Cfg]:
    rng = ctx.rng
    out: list[Cfg] = []

    def num(p_none: float = 0.4, floor: int = 0) -> int | None:
        if rng.random() < p_none:
            return None
        v = rng.choice(NUMS + [rng.randrange(0, 10**6), rng.randrange(0, 2**70)])
        return v

    # hand-picked corners first
    out += [
        Cfg(),
        Cfg(compression=None),
        Cfg(zstd_disabled=True),
        Cfg(compression=None, zstd_disabled=True),
        Cfg(max_request=0),
        Cfg(max_request=7, auth=True),
        Cfg(max_request=10**9, max_response=1, max_ext=0, ext="storage", provider=True, max_upload=5, proof=True, introspect=True, sticky=True, echo=ECHOS[3], auth=True, cors=True),
        Cfg(max_upload=5),  # max_upload_bytes without a provider
        Cfg(provider=True),
        Cfg(provider=True, max_upload=0),
        Cfg(echo=ECHOS[2]),  # echo headers without sticky
        Cfg(sticky=True, echo=()),
        Cfg(sticky=True, echo=ECHOS[2], prefix="/vgi"),
        Cfg(sticky=True, ttl=0.0),
        Cfg(ext="nostorage"),
        Cfg(ext="storage", pages=False, health=False),
        Cfg(max_response=65536, max_response_via_alias=True),
        Cfg(introspect=True, auth=True, prefix="/vgi"),
        Cfg(proof=True, auth=True),
        Cfg(max_request=2**63 + 5, max_response=10**30, max_ext=2**64),
    ]
    if ctx.tier == "thorough":
        # exhaustive over every boolean / presence dimension of the quantifier (numbers: one value per slot, varied)
        i = 0
        for mr, mp, me, ext, prov, mu, comp, zd, proof, intro, st, echo in itertools.product(
            [False, True], [False, True], [False, True], ["none", "nostorage", "storage"], [False, True], [False, True],
            [False, True], [False, True], [False, True], [False, True], [False, True], [False, True]
        ):
            i += 1
            out.append(
                Cfg(
                    max_request=(NUMS[3:] + [10**7])[i % 6] if mr else None,
                    max_response=NUMS[i % len(NUMS)] if mp else None,
                    max_response_via_alias=bool(mp and i % 3 == 0),
                    max_ext=NUMS[(i // 2) % len(NUMS)] if me else None,
                    ext=ext, provider=prov, max_upload=NUMS[(i // 3) % len(NUMS)] if mu else None,
                    compression=(1, 3, 19)[i % 3] if comp else None, zstd_disabled=zd, proof=proof, introspect=intro,
                    sticky=st, ttl=TTLS[i % len(TTLS)], echo=ECHOS[2 + i % 2] if echo else ECHOS[i % 2],
                    auth=bool(i % 2), cors=bool((i // 2) % 2), prefix="/vgi" if i % 5 == 0 else "", pages=i % 7 != 0, health=i % 11 != 0,
                )
            )
    n_random = 60 if ctx.tier == "quick" else 600
    for _ in range(n_random):
        out.append(
            Cfg(
                max_request=num(0.4), max_response=num(0.5), max_response_via_alias=rng.random() < 0.3, max_ext=num(0.5),
                ext=rng.choice(["none", "nostorage", "storage"]), provider=rng.random() < 0.5, max_upload=num(0.5),
                compression=rng.choice([None, 1, 3, 22]), zstd_disabled=rng.random() < 0.3, proof=rng.random() < 0.5,
                introspect=rng.random() < 0.4, sticky=rng.random() < 0.5, ttl=rng.choice(TTLS + [float(rng.randrange(1, 10**6))]),
                echo=rng.choice(ECHOS), auth=rng.random() < 0.5, cors=rng.random() < 0.4, prefix=rng.choice(["", "", "/vgi", "/a/b"]),
                pages=rng.random() < 0.8, health=rng.random() < 0.85,
            )
        )
    # make_wsgi_app refuses alias+explicit together only when both are given; via_alias with None means "not given"
    fixed = []
    for c in out:
        if c.max_response is None and c.max_response_via_alias:
            c = dataclasses.replace(c, max_response_via_alias=False)
        fixed.append(c)
    return list(dict.fromkeys(fixed))


# ---------------------------------------------------------------------------------------------------------------
# Coq renderings
# ---------------------------------------------------------------------------------------------------------------
def cstr(s: str) -> str:
    """str -> Coq list N; printable ASCII goes through a string literal (much cheaper to elaborate)."""
    if all(32 <= ord(ch) < 127 for ch in s):
        return '(s2l "' + s.replace('"', '""') + '")'
    from vlib.coqterm import cstr as _c

    return _c(s)


def _coq_cfg(c: Cfg, zstd_rt: bool) -> str:
    from vlib.coqterm import cZ, cbool, clist, copt

    ttl_int = int(c.ttl)
    ttl_frac = not float(c.ttl).is_integer()
    echo = clist(cstr(k) for k, _ in (c.echo or ()))
    return (
        f"({copt(None if c.max_request is None else cZ(c.max_request))}, {copt(None if c.max_response is None else cZ(c.max_response))}, "
        f"{copt(None if c.max_ext is None else cZ(c.max_ext))}, ({cbool(c.ext != 'none')}, {cbool(c.ext == 'storage')}), "
        f"({cbool(c.provider)}, {copt(None if c.max_upload is None else cZ(c.max_upload))}), "
        f"({cbool(c.compression is not None)}, {cbool(zstd_rt)}, {cbool(c.zstd_disabled)}), ({cbool(c.proof)}, {cbool(c.introspect)}), "
        f"({cbool(c.sticky)}, ({cZ(ttl_int)}, {cbool(ttl_frac)}), ({echo} : list (list N))))"
    )


def _coq_headers(pairs: list[tuple[str, str]]) -> str:
    """Response headers as (index of the name, value)."""
    from vlib.coqterm import cN, clist

    tbl = UNIVERSE + ["cache-control"]
    return "[" + "; ".join(f"({cN(tbl.index(k))}, {cstr(v)})" for k, v in pairs) + "]"


def _coq_named_headers(pairs: list[tuple[str, str]]) -> str:
    """An arbitrary dictionary over capability names as ((index, mixed-case spelling?), value); other names verbatim."""
    from vlib.coqterm import cN, cbool

    mixed = {v: k for k, v in MIXED.items()}
    out = []
    for k, v in pairs:
        if k in UNIVERSE:
            out.append(f"({cN(UNIVERSE.index(k))}, false, {cstr(v)})")
        elif k in mixed:
            out.append(f"({cN(UNIVERSE.index(mixed[k]))}, true, {cstr(v)})")
    return "[" + "; ".join(out) + "]"


COQ_HDR = "From Coq Require Import List NArith ZArith Bool String.\nFrom VGI Require Import M_CapHeaders Corr.\nImport ListNotations.\nOpen Scope string_scope.\nOpen Scope N_scope.\n"
# names are sent as indices into (lower-cased capability names ++ [cache-control]); index 99 = any other name
COQ_IDX = (
    "Definition names_tbl : list (list N) := map (fun f => lower (fname f)) all_features ++ [cache_control].\n"
    "Fixpoint index_of (i : N) (k : list N) (l : list (list N)) : N := match l with [] => 99 | x :: r => if bytes_eqb x k then i else index_of (i + 1) k r end.\n"
    "Definition idx (h : option headers) : option (list (N * list N)) := option_map (map (fun kv => (index_of 0 (fst kv) names_tbl, snd kv))) h.\n"
    "Definition name_of (p : N * bool) : list N := let n := nth (N.to_nat (fst p)) (map fname all_features) [] in if snd p then n else lower n.\n"
    "Definition unidx (h : list (N * bool * list N)) : headers := map (fun kv => (name_of (fst kv), snd kv)) h.\n"
)
EQ_IDX = "(list_eqb (pair_eqb N.eqb bytes_eqb))"
EQ_BYTES = "bytes_eqb"
EQ_HEADERS = "(list_eqb (pair_eqb bytes_eqb bytes_eqb))"
EQ_OPTZ = "(option_eqb Z.eqb)"
EQ_CAPS = (
    "(fun a b : caps_tuple => let '(a1,a2,a3,a4,a5,a6,a7,a8,a9,a10) := a in let '(b1,b2,b3,b4,b5,b6,b7,b8,b9,b10) := b in "
    f"{EQ_OPTZ} a1 b1 && {EQ_OPTZ} a2 b2 && {EQ_OPTZ} a3 b3 && Bool.eqb a4 b4 && Bool.eqb a5 b5 && {EQ_OPTZ} a6 b6 && "
    f"bytes_eqb a7 b7 && Bool.eqb a8 b8 && {EQ_OPTZ} a9 b9 && list_eqb bytes_eqb a10 b10)"
)


def _coq_caps(caps: Any) -> str:
    from vlib.coqterm import cN, cZ, cbool, clist, copt

    code = {"zstd": 0, "gzip": 1, "identity": 2}

    def oz(x: int | None) -> str:
        return copt(None if x is None else cZ(x))

    encs = "(" + clist(cN(code[e.value]) for e in caps.supported_encodings) + " : list N)"
    echo = "(" + clist(cstr(n) for n in caps.sticky_echo_headers) + " : list (list N))"
    return (
        f"({oz(caps.max_request_bytes)}, {oz(caps.max_response_bytes)}, {oz(caps.max_externalized_response_bytes)}, "
        f"{cbool(caps.externalization_enabled)}, {cbool(caps.upload_url_support)}, {oz(caps.max_upload_bytes)}, {encs}, "
        f"{cbool(caps.sticky_enabled)}, {oz(caps.sticky_default_ttl)}, {echo})"
    )


def translate(ctx: Any) -> None:
    from translate import t_c40_capheaders

    ctx.gen("G_CapHeaders", lambda: t_c40_capheaders.generate(ctx.repo))


class _FakeResp:
    def __init__(self, headers: dict[str, str]):
        self.headers = headers
        self.status_code = 200
        self.content = b""


class _FakeClient:
    prefix = ""

    def __init__(self, headers: dict[str, str]):
        self._h = headers

    def options(self, url: str, **kw: Any) -> _FakeResp:
        return _FakeResp(dict(self._h))

    def close(self) -> None:
        pass


def run(ctx: Any) -> None:
    from vlib.coqterm import cZ, cbool, copt

    translate(ctx)
    ctx.prove(
        ["prop/P_C40.vo", "tie/T_CapHeaders.vo", "refuted/R_C40.vo"],
        {
            "P_C40": [
                "C40_header_iff_configured_with_value",
                "C40_headers_closed_form",
                "C40_on_every_response",
                "C40_client_probe_roundtrip",
                "C40_never_empty_always_installed",
            ],
            "T_CapHeaders": [
                "cap_table_tie",
                "cap_mw_tie",
                "cap_install_tie",
                "cap_rebound_tie",
                "C40_source_header_iff_configured_with_value",
                "C40_source_on_every_response",
                "C40_source_client_probe_roundtrip",
            ],
            "R_C40": ["C40_sticky_ttl_fraction_not_advertised", "C40_header_iff_configured_with_value_refuted"],
        },
    )

    import falcon.testing
    import vgi_rpc.http.server._sticky as sticky_mod
    from vgi_rpc.http import http_capabilities
    from vgi_rpc.http._testing import _SyncTestClient

    # instrumentation only: remember reaper threads so they can be stopped when an app is dropped
    reapers: list[Any] = []
    orig_start = sticky_mod._ReaperThread.start

    def _start(self: Any) -> None:
        reapers.append(self)
        orig_start(self)

    sticky_mod._ReaperThread.start = _start  # type: ignore[method-assign]

    zstd_rt = _zstd_runtime()
    SH = 25 if ctx.tier == "quick" else 40  # cases per generated Coq file
    ctx.rule = (
        "cases = configuration (numbers None/0/small/2^63+/10^30/random, storage none/config-without-storage/storage, provider, "
        "max_upload, compression None/level x VGI_HTTP_DISABLE_ZSTD, proof, introspection, sticky x whole-second TTL x echo None/{}/1/3 "
        "names; plus auth, CORS, prefix, pages, health switches) x route kind (30-40 per configuration); thorough = every "
        "boolean/presence combination of the quantifier; distinct by (capability configuration, route label); non-trivial = every case"
    )
    configs = gen_configs(ctx)
    model_cases: dict[tuple[str, str, bool], tuple[list[tuple[str, str]], dict[str, Any]]] = {}
    rt_cases: list[tuple[str, str, dict[str, Any]]] = []
    seen_labels: set[str] = set()
    statuses: dict[str, set[int]] = {}

    def check_response(c: Cfg, label: str, method: str, path: str, r: Any, want: dict[str, str]) -> list[tuple[str, str]]:
        got = {k.lower(): v for k, v in r.headers.items()}
        caps = {k: got[k] for k in UNIVERSE if k in got}
        repl = {"config": c.replay(), "route": label, "method": method, "path": path, "status": r.status_code, "capability_headers_seen": caps, "expected": want}
        for k in UNIVERSE:
            if k in want and k not in caps:
                ctx.violation(f"missing-on:{_klass(label)}", f"{method} {path} ({label}, HTTP {r.status_code}) lacks {k} although its feature is configured", repl)
            elif k not in want and k in caps:
                ctx.violation(f"unconfigured-present:{k}", f"{method} {path} ({label}) carries {k}={caps[k]!r} although its feature is not configured", repl)
            elif k in want and caps[k] != want[k]:
                ctx.violation(f"wrong-value:{k}", f"{method} {path} ({label}) carries {k}={caps[k]!r}, configured value is {want[k]!r}", repl)
        # any other header that looks like one of the capability names (case/spacing variants) would be an extra
        for k in got:
            if k not in UNIVERSE and k.replace("_", "-").strip() in UNIVERSE:
                ctx.violation(f"variant-name:{k}", f"{label}: header {k!r} is a variant spelling of a capability header", repl)
        ordered = [(k, caps[k]) for k in UNIVERSE if k in caps]
        if method == "OPTIONS" and "cache-control" in got:
            ordered.append(("cache-control", got["cache-control"]))
        return ordered

    for c in configs:
        want = expected_headers(c, zstd_rt)
        try:
            app, srv = build_app(c)
        except Exception as e:  # noqa: BLE001
            ctx.violation("construction-fails", f"make_wsgi_app raised {type(e).__name__}: {e}", {"config": c.replay()})
            continue
        client = falcon.testing.TestClient(app)
        ctag = _coq_cfg(c, zstd_rt)
        for label, method, path, hdrs, body in routes(c, srv):
            try:
                r = client.simulate_request(method, path, headers=hdrs, body=body, wsgierrors=_SINK)
            except Exception as e:  # noqa: BLE001 - an exception escaping the WSGI app is a response without headers
                ctx.violation(f"escaped-exception:{_klass(label)}", f"{method} {path} ({label}): {type(e).__name__} escaped the app, no response headers at all", {"config": c.replay(), "route": label, "error": repr(e)[:300]})
                continue
            ctx.count("impl_runs")
            ctx.tally("route", label)
            ctx.tally("status", r.status_code)
            statuses.setdefault(label, set()).add(r.status_code)
            seen_labels.add(label)
            ctx.case([c.canon()[:14], label])
            ordered = check_response(c, label, method, path, r, want)
            mclass = "OPTIONS" if method == "OPTIONS" else "GET"
            key = next((k for k in ((ctag, mclass, True), (ctag, mclass, False)) if k in model_cases), (ctag, mclass, r.status_code < 400))
            prev = model_cases.get(key)
            if prev is not None and prev[0] != ordered:
                ctx.violation("routes-differ", "two responses of one app carry different capability headers", {"config": c.replay(), "a": prev[1], "b": {"route": label, "headers": ordered}})
            elif prev is None:
                model_cases[key] = (ordered, {"route": label, "headers": ordered, "config": c.replay()})
        # the client probe against the real app
        try:
            caps = http_capabilities(client=_SyncTestClient(app, prefix=c.prefix))
        except Exception as e:  # noqa: BLE001
            ctx.violation("probe-raises", f"http_capabilities raised {type(e).__name__}: {e}", {"config": c.replay()})
            caps = None
        if caps is not None:
            ctx.count("impl_runs")
            ctx.count("probe_runs")
            enc_want = tuple(x.strip() for x in want["vgi-supported-encodings"].split(",") if x.strip())
            checks = {
                "max_request_bytes": (caps.max_request_bytes, c.max_request),
                "max_response_bytes": (caps.max_response_bytes, c.max_response),
                "max_externalized_response_bytes": (caps.max_externalized_response_bytes, c.max_ext),
                "externalization_enabled": (caps.externalization_enabled, c.ext == "storage"),
                "upload_url_support": (caps.upload_url_support, c.provider),
                "max_upload_bytes": (caps.max_upload_bytes, c.max_upload if c.provider else None),
                "supported_encodings": (tuple(e.value for e in caps.supported_encodings), enc_want),
                "sticky_enabled": (caps.sticky_enabled, c.sticky),
                "sticky_default_ttl": (caps.sticky_default_ttl, int(c.ttl) if c.sticky else None),
                "sticky_echo_headers": (caps.sticky_echo_headers, tuple(k for k, _ in (c.echo or ())) if c.sticky else ()),
            }
            for fld, (got_v, want_v) in checks.items():
                if got_v != want_v or type(got_v) is not type(want_v):
                    ctx.violation(f"probe-field:{fld}", f"http_capabilities().{fld} = {got_v!r}, configuration says {want_v!r}", {"config": c.replay(), "field": fld, "got": repr(got_v), "want": repr(want_v)})
            rt_cases.append((ctag, copt(_coq_caps(caps)), c.replay()))
        for t in reapers:
            t.stop()
        del reapers[:]
    ctx.log(f"implementation sweep done: {len(configs)} configurations, {ctx.counters.get('impl_runs', 0)} requests")
    ctx.sample({"config": configs[6].replay(), "expected_headers": expected_headers(configs[6], zstd_rt)})
    ctx.sample({"route kinds": sorted(seen_labels)})
    ctx.sample({"statuses per route kind": {k: sorted(v) for k, v in sorted(statuses.items())}})
    # every arm of the route sweep must have been reached with the status class it is meant to produce
    for label, must in {"unary-ok": 200, "unary-401-missing": 401, "not-found-deep": 404, "unary-head-405": 405, "unary-big-body": 413,
                        "unary-415": 415, "auth-crash-500": 500, "health-options": 200, "health-head": 200, "health-get": 200, "unary-garbage": 400}.items():
        ctx.obligation(f"coverage:route:{label}->{must}", "harness", must in statuses.get(label, set()), f"statuses seen: {sorted(statuses.get(label, set()))}")

    # ---- fractional TTLs: outside the adopted domain, recorded only ------------------------------------------
    for ttl in FRACTIONAL_TTLS:
        c = Cfg(sticky=True, ttl=ttl)
        app, srv = build_app(c)
        r = falcon.testing.TestClient(app).simulate_options("/health")
        adv = {k.lower(): v for k, v in r.headers.items()}.get("vgi-sticky-default-ttl")
        caps = http_capabilities(client=_SyncTestClient(app, prefix=""))
        ctx.count("impl_runs", 2)
        ctx.notes.append(f"fractional sticky_default_ttl={ttl!r}: header VGI-Sticky-Default-TTL={adv!r}, probe sticky_default_ttl={caps.sticky_default_ttl!r} (integer part; see R_C40.C40_sticky_ttl_fraction_not_advertised)")
        ordered = [(k, v) for k, v in ((k, {kk.lower(): vv for kk, vv in r.headers.items()}.get(k)) for k in UNIVERSE) if v is not None]
        ordered.append(("cache-control", r.headers.get("cache-control", "")))
        model_cases[(_coq_cfg(c, zstd_rt), "OPTIONS", True)] = (ordered, {"config": c.replay(), "headers": ordered})
        rt_cases.append((_coq_cfg(c, zstd_rt), copt(_coq_caps(caps)), c.replay()))

    # ---- model correspondence: response headers ---------------------------------------------------------------
    # One case per (configuration, OPTIONS or not); req_succeeded is that of the first response seen in the class.  The hand model and the regenerated terms
    # are executed in the same pass: the run function answers with the model's headers when both agree and with a
    # marker otherwise, so a disagreement of either with the implementation shows up as a mismatch.
    keys = list(model_cases)
    if ctx.tier == "thorough":
        # The implementation oracle above ran on every configuration of the exhaustive product; the model is evaluated
        # on the corners, the random configurations and every fourth configuration of the product (OPTIONS and
        # non-OPTIONS responses differ by Cache-Control only: every third non-OPTIONS case suffices).
        keep = {_coq_cfg(c, zstd_rt) for i, c in enumerate(configs) if i < 20 or i >= len(configs) - 600 or i % 4 == 0}
        keys = [k for i, k in enumerate(keys) if k[0] in keep and (k[1] == "OPTIONS" or i % 3 == 0)]
        rt_cases = [t for t in rt_cases if t[0] in keep]
    cases = [(f"({k[0]}, {cstr(k[1])}, {cbool(k[2])})", copt(_coq_headers(model_cases[k][0]))) for k in keys]
    both = (
        "(fun x => let a := run_case x in let b := run_case_with gen_cap_table gen_cap_mw_stmts gen_cap_install x in "
        f"idx (if option_eqb {EQ_HEADERS} a b then a else Some [(s2l \"model and regenerated terms differ\", [])]))"
    )
    ok, bad, clog = ctx.coq_mismatches(COQ_HDR + COQ_IDX + "From VGI Require Import G_CapHeaders.\n", both, f"(option_eqb {EQ_IDX})", cases, "cfg_tuple * list N * bool", "option (list (N * list N))", shard=SH)
    if ok:
        ctx.obligation("correspondence:regenerated-table.run_case_with", "correspondence", not bad, f"{len(bad)} of {len(cases)} cases disagree")
    else:  # the regenerated file does not even define the terms: fall back to the hand model alone
        ctx.obligation("correspondence:regenerated-table.run_case_with", "correspondence", False, "regenerated terms unusable: " + clog[-400:])
        ok, bad, clog = ctx.coq_mismatches(COQ_HDR + COQ_IDX, "(fun x => idx (run_case x))", f"(option_eqb {EQ_IDX})", cases, "cfg_tuple * list N * bool", "option (list (N * list N))", shard=SH)
    ctx.log(f"header correspondence done ({len(cases)} cases)")
    ctx.count("model_cases", len(cases))
    ctx.obligation("correspondence:M_CapHeaders.run_case", "correspondence", ok and not bad, clog if not ok else f"{len(bad)} of {len(cases)} cases disagree")
    for i in bad[:4]:
        shown = ctx.coq_show(COQ_HDR, f"run_case {cases[i][0]}")
        ctx.violation("model-impl-disagree:headers", "implementation and model produce different capability headers", {**model_cases[keys[i]][1], "model": shown[-1500:]})

    # ---- model correspondence: probe against the real server ------------------------------------------------
    rcases = [(a, b) for a, b, _ in rt_cases]
    ok, bad, clog = ctx.coq_mismatches(COQ_HDR, "run_roundtrip", f"(option_eqb {EQ_CAPS})", rcases, "cfg_tuple", "option caps_tuple", shard=SH)
    ctx.count("model_cases", len(rcases))
    ctx.obligation("correspondence:M_CapHeaders.run_roundtrip", "correspondence", ok and not bad, clog if not ok else f"{len(bad)} of {len(rcases)} cases disagree")
    for i in bad[:4]:
        ctx.violation("model-impl-disagree:probe-roundtrip", "http_capabilities() against the real app differs from the model", {"config": rt_cases[i][2], "impl": rt_cases[i][1], "model": ctx.coq_show(COQ_HDR, f"run_roundtrip {rcases[i][0]}")[-800:]})

    ctx.log("header / round-trip correspondence done")
    # ---- probe on synthetic header dictionaries ---------------------------------------------------------------
    rng = ctx.rng
    int_corpus = ["12", "-3", "+4", " 5 ", "1_0", "1__0", "_1", "1_", "", " ", "abc", "٣", "१२", "0x10", "1e3", "1.0", "-", "+", "+-1", "007", "-0",
                  "1 2", "\t9\n", " 9 ", "​9", "9\x00", "１２", "12\x1f", "\x1c12", "18446744073709551616", "-99999999999999999999999"]
    bool_corpus = ["true", "false", "True", "TRUE", " true", "1", "", "yes"]
    enc_corpus = ["zstd, gzip", "gzip", "zstd", "", " ", ",", "GZIP", "gzip;q=0.5, zstd", "identity", "br", "br, deflate", "zstd,zstd,gzip", " gzip ,\tzstd", "gzip; q=1", ";gzip", "gzip;", "zstd , identity, gzip", "x, , gzip", "ZsTd"]
    echo_corpus = ["a", "a, b", "a,b", "a,,b", " a ", "x-b,", ",", "", " ", "fly-force-instance-id", "a ,\tb , c", "a , b", ", a"]
    pcases: list[tuple[str, str]] = []
    preplay: list[dict[str, str]] = []
    n_syn = 160 if ctx.tier == "quick" else 900
    for i in range(n_syn):
        h: dict[str, str] = {}
        for k in MIXED:
            mode = rng.random()
            if mode < 0.35:
                continue
            if k.startswith("vgi-max") or k.endswith("ttl"):
                v = rng.choice(int_corpus)
            elif k in ("vgi-supported-encodings",):
                v = rng.choice(enc_corpus)
            elif k.endswith("echo-headers"):
                v = rng.choice(echo_corpus)
            else:
                v = rng.choice(bool_corpus)
            key_mode = rng.random()
            if key_mode < 0.7:
                h[k] = v
            elif key_mode < 0.85:
                h[MIXED[k]] = v
            else:  # both spellings present with different values: `a or b` / `is None` fallbacks
                h[MIXED[k]] = rng.choice(["", v])
                h[k] = rng.choice(int_corpus + bool_corpus) if not k.endswith("encodings") else rng.choice(enc_corpus)
        if rng.random() < 0.3:
            h["cache-control"] = rng.choice(["public, max-age=300", "no-store", "max-age=abc"])
        try:
            caps = http_capabilities(client=_FakeClient(h))  # type: ignore[arg-type]
        except Exception as e:  # noqa: BLE001
            ctx.violation("probe-raises-on-headers", f"http_capabilities raised {type(e).__name__} on a header dictionary", {"headers": h, "error": repr(e)[:200]})
            continue
        ctx.count("impl_runs")
        ctx.case(["probe", sorted(h.items())])
        pcases.append((_coq_named_headers(list(h.items())), _coq_caps(caps)))
        preplay.append(h)
    ok, bad, clog = ctx.coq_mismatches(COQ_HDR + COQ_IDX, "(fun h => run_probe (unidx h))", EQ_CAPS, pcases, "list (N * bool * list N)", "caps_tuple", shard=SH)
    ctx.count("model_cases", len(pcases))
    ctx.obligation("correspondence:M_CapHeaders.run_probe", "correspondence", ok and not bad, clog if not ok else f"{len(bad)} of {len(pcases)} cases disagree")
    for i in bad[:4]:
        ctx.violation("model-impl-disagree:probe", "http_capabilities() on a header dictionary differs from the model probe", {"headers": preplay[i], "impl": pcases[i][1], "model": ctx.coq_show(COQ_HDR + COQ_IDX, f"run_probe (unidx {pcases[i][0]})")[-800:]})

    ctx.log("synthetic probe correspondence done")
    # ---- environment facts: int() and str.strip() ------------------------------------------------------------
    icases = []
    extra = [str(rng.randrange(-10**40, 10**40)) for _ in range(40)] + [f" {rng.randrange(10**6):_} " for _ in range(10)]
    for s in list(dict.fromkeys(int_corpus + extra)):
        try:
            v: int | None = int(s)
        except ValueError:
            v = None
        icases.append((cstr(s), copt(None if v is None else cZ(v))))
    ok, bad, clog = ctx.coq_mismatches(COQ_HDR, "run_int", EQ_OPTZ, icases, "list N", "option Z")
    ctx.obligation("env:python-int-model", "environment", ok and not bad, clog if not ok else f"disagree on {[icases[i][0] for i in bad[:5]]}")
    ws = [c for c in range(0x110000) if chr(c).isspace()]
    probe_pts = ws + [0x200B, 0xFEFF, 0x180E, 0x2060, 0x00AD, 0x1F, 0x1B, 0x7F, 0x84, 0x86, 0x2027, 0x202A, 0x3000 - 1, 0x3001, 65, 48, 0, 8, 14, 27, 33]
    scases = []
    for cp in probe_pts:
        s = chr(cp) + "a" + chr(cp) + "b" + chr(cp)
        scases.append((cstr(s), cstr(s.strip())))
    ok, bad, clog = ctx.coq_mismatches(COQ_HDR, "run_strip", EQ_BYTES, scases, "list N", "list N")
    ctx.obligation("env:python-strip-model", "environment", ok and not bad, clog if not ok else f"disagree on code points {[probe_pts[i] for i in bad[:8]]}")

    # ---- environment fact: Falcon runs every process_response -------------------------------------------------
    _falcon_facts(ctx)

    sticky_mod._ReaperThread.start = orig_start  # type: ignore[method-assign]
    ctx.exhaustive = ctx.tier == "thorough"
    ctx.assumptions += [
        "other middleware / responders never write or remove a capability-named response header (hypotheses frame_ok / no_cap_names of C40_on_every_response); observed on every route kind of the sweep",
        "falcon runs process_response of every middleware for every request, also when process_request or the responder raised (checked on a toy app at run time)",
        "enabled_encodings = [zstd if importable and not VGI_HTTP_DISABLE_ZSTD] + [gzip] when compression_level is not None else [] (hand model of the factory; executed against the real app)",
        "str.lower() is modelled on ASCII only: exact for matching the tokens zstd/gzip/identity and the header constants",
        "sticky TTLs are whole seconds (QUANTIFIER does not range over TTL values); fractional TTLs are recorded as notes",
        "float('inf')/nan TTLs make make_wsgi_app raise (no app, no responses): outside the model",
    ]


def replay(ctx: Any, rec: dict[str, Any]) -> None:
    """Re-run one recorded configuration (all its route kinds + the probe) against the tree under test."""
    import falcon.testing
    from vgi_rpc.http import http_capabilities
    from vgi_rpc.http._testing import _SyncTestClient

    cfgd = dict((rec.get("replay") or {}).get("config") or {})
    if not cfgd:
        ctx.obligation("replay:has-configuration", "harness", False, "the record carries no configuration (broken obligation without a failing input): run the whole check")
        return
    cfgd["echo"] = None if cfgd.get("echo") is None else tuple(cfgd["echo"].items())
    c = Cfg(**cfgd)
    zstd_rt = _zstd_runtime()
    integral = float(c.ttl).is_integer()
    want = expected_headers(c, zstd_rt) if integral else None
    app, srv = build_app(c)
    client = falcon.testing.TestClient(app)
    for label, method, rpath, hdrs, body in routes(c, srv):
        r = client.simulate_request(method, rpath, headers=hdrs, body=body, wsgierrors=_SINK)
        ctx.case([c.canon()[:14], label])
        got = {k.lower(): v for k, v in r.headers.items() if k.lower() in UNIVERSE}
        verdict = "n/a (fractional TTL)" if want is None else ("ok" if got == want else "DIFFERS")
        print(f"{label:28s} {method:7s} {rpath:40s} HTTP {r.status_code}  {verdict}  {got if verdict != 'ok' else ''}")
        if verdict == "DIFFERS":
            ctx.violation(str(rec.get("key") or "replay-differs"), f"{method} {rpath} ({label}): capability headers {got} differ from the configured {want}", {"config": c.replay(), "route": label})
    caps = http_capabilities(client=_SyncTestClient(app, prefix=c.prefix))
    print("expected headers:", want)
    print("probe           :", caps)
    if integral and (caps.max_request_bytes, caps.max_response_bytes, caps.max_externalized_response_bytes, caps.externalization_enabled, caps.upload_url_support,
                     caps.max_upload_bytes, caps.sticky_enabled, caps.sticky_default_ttl, caps.sticky_echo_headers) != (
        c.max_request, c.max_response, c.max_ext, c.ext == "storage", c.provider, c.max_upload if c.provider else None, c.sticky,
        int(c.ttl) if c.sticky else None, tuple(k for k, _ in (c.echo or ())) if c.sticky else ()):
        ctx.violation(str(rec.get("key") or "replay-differs"), "http_capabilities() does not read the configuration back", {"config": c.replay(), "caps": repr(caps)})


def _klass(label: str) -> str:
    """Route label -> a coarse class for violation keys."""
    for k in ("401", "404", "405", "413", "415", "500"):
        if k in label:
            return k
    if label.startswith("not-found"):
        return "404"
    if label.startswith("health"):
        return "health-" + label.split("-")[1]
    if "options" in label or "preflight" in label:
        return "options"
    return label.split("-")[0]


def _falcon_facts(ctx: Any) -> None:
    import falcon
    import falcon.testing

    class Raiser:
        def process_request(self, req: Any, resp: Any) -> None:
            if req.get_header("X-Raise") == "request":
                raise falcon.HTTPForbidden()
            if req.get_header("X-Raise") == "crash":
                raise RuntimeError("x")

        def process_response(self, req: Any, resp: Any, resource: Any, ok: bool) -> None:
            if req.get_header("X-Raise") == "response":
                raise falcon.HTTPBadRequest()

    class Stamp:
        def process_response(self, req: Any, resp: Any, resource: Any, ok: bool) -> None:
            resp.set_header("X-Stamp", "1")

    class Res:
        def on_get(self, req: Any, resp: Any) -> None:
            if req.get_header("X-Raise") == "responder":
                raise ValueError("y")
            resp.text = "ok"

    for order in ("raiser-first", "stamp-first"):
        mws = [Raiser(), Stamp()] if order == "raiser-first" else [Stamp(), Raiser()]
        app = falcon.App(middleware=mws)
        app.add_route("/r", Res())
        cl = falcon.testing.TestClient(app)
        for how in ("none", "request", "crash", "responder", "response"):
            for method, path in (("GET", "/r"), ("GET", "/nope"), ("HEAD", "/r"), ("OPTIONS", "/r"), ("PUT", "/r")):
                try:
                    r = cl.simulate_request(method, path, headers={"X-Raise": how}, wsgierrors=_SINK)
                    stamped = r.headers.get("x-stamp") == "1"
                except Exception as e:  # noqa: BLE001
                    stamped = False
                    r = e
                ctx.obligation(f"env:falcon-process_response-always:{order}:{how}:{method}{path}", "environment", stamped, f"response without the stamp: {r!r}")
    # set_header lower-cases names and replaces values
    resp = falcon.Response()
    resp.set_header("VGI-X", "1")
    resp.set_header("vgi-x", "2")
    ctx.obligation("env:falcon-set_header-lowercases-and-replaces", "environment", dict(resp.headers) == {"vgi-x": "2"}, repr(dict(resp.headers)))
