"""C09 Protocol-version gate admits exactly matching major.minor.

proof        : coq/prop/P_C09.v over model/M_Version.v (regex semantics from lib/Regex.v, UTF-8 from lib/Utf8.v)
regenerated  : SEMVER_REGEX (vgi_rpc/metadata.py) -> gen/G_Version.v ; tie/T_Version.v proves it equal to the modelled regex
correspondence: real RpcServer (socket path = serve_one over an in-memory pipe, HTTP path = Falcon app) on the
               version grid {0,1,2,10}^3 x (canonical grid + malformed corpus + raw byte values), for a unary method,
               a stream method and __describe__, plus a service declaring no version; verdicts vs the Coq model.
"""
from __future__ import annotations

import itertools
import re
from typing import Any, Protocol

META = {
    "id": "C09",
    "technique": "Coq proof (regex derivative semantics, decimal numerals, UTF-8) + regenerated regex tie + differential correspondence",
    "level_text": "Coq theorems over all strings/bytes: the modelled gate dispatches iff the metadata is the canonical "
    "MAJOR.MINOR.PATCH numeral triple with equal major.minor, every refusal carries the client string and the "
    "direction, undeclared services never check. The regex in the theorems is regenerated from SEMVER_REGEX on "
    "every run (tie lemma by reflexivity); the hand model of _check_protocol_version and of the three gate sites "
    "is tied by running the real server (socket and HTTP) against the model on the full grid of the property.",
    "level_note": "Trusted: Coq kernel (vm_compute), t_regex translator, sre parser, harness; modelled not verified: "
    "group extraction of the regex (split on '.'), Python int()/bytes.decode (lib/Utf8.v, UnicodeTables.v validated "
    "against the runtime), message formatting (checked by oracle on the real messages only).",
    "design_ref": "§5 C09",
}

GRID = [0, 1, 2, 10]

MALFORMED = [
    "", " ", "1", "1.2", "1.2.3.4", "1.2.3-rc1", "1.2.3+build", "1.2.3-", "01.2.3", "1.02.3", "1.2.03", "00.0.0",
    " 1.2.3", "1.2.3 ", "1.2.3\n", "1.2.3\r\n", "\n1.2.3", "1.2.3\n\n", "1.2.3\t", "1 .2.3", "1. 2.3", "v1.2.3", "1.2.x",
    "1..3", ".1.2", "1.2.", "1,2,3", "-1.2.3", "+1.2.3", "1.2.3\x00", "١.2.3", "1.٢.3", "1.2.٣", "1١.2.3",
    "１.2.3", "1.2.3a", "1e0.2.3", "0x1.2.3", "1.2.3 ", "1.2.3\x0b", "1.2.3\x0c", "1_0.2.3", "1.2.3²",
    "1.2.3.", "..", "...", "1.2.3\x85", "10.10.010", "1.2.3 \n", "﻿1.2.3",
]
RAW_BYTES = [b"\xff", b"\xfe\xff", b"1.2.\xff", b"\xc0\xb1.2.3", b"1.2.3\xed\xa0\x80", b"\x80", b"1.2.3\xc2", b"\xf5\x80\x80\x80", b"\xe0\x80\xb1.2.3", b"\xf0\x82\x82\xac"]


import pyarrow as pa
from dataclasses import dataclass
from vgi_rpc.rpc import AnnotatedBatch, CallContext, OutputCollector, RpcServer, Stream, StreamState

_LOG: list[str] = []


@dataclass
class C09State(StreamState):
    n: int = 0

    def process(self, input: AnnotatedBatch, out: OutputCollector, ctx: CallContext) -> None:
        _LOG.append("process")
        out.finish()


class _Impl:
    def f(self, a: int) -> int:
        _LOG.append("f")
        return a + 1

    def g(self, a: int) -> Stream[C09State]:
        _LOG.append("g")
        return Stream(output_schema=pa.schema([]), state=C09State())


def _mk_services() -> Any:
    def make(version: str | None) -> RpcServer:
        ns: dict[str, Any] = {"Stream": Stream, "C09State": C09State}
        body = "from typing import Protocol\nclass P(Protocol):\n"
        if version is not None:
            body += f"    protocol_version = {version!r}\n"
        body += "    def f(self, a: int) -> int: ...\n    def g(self, a: int) -> Stream[C09State]: ...\n"
        exec(body, ns)  # noqa: S102 - builds the Protocol class for this version
        return RpcServer(ns["P"], _Impl(), enable_describe=True)

    return make, _LOG


_DIR_RE = re.compile(r"\A(?P<exc>\w+): VGI client/worker protocol_version mismatch\.\n  Client: (?P<client>.*)\n  Server: (?P<server>[^\n]*)\n  Direction: (?P<dir>.*)\Z", re.S)


def _classify(msg: str, server_version: str) -> tuple[int, str, list[str]]:
    """Map a real refusal message to the model's verdict code and check it names both versions + a direction."""
    problems: list[str] = []
    m = _DIR_RE.match(msg)
    if m is None:
        m2 = re.match(r"\AVGI client/worker protocol_version mismatch\.\n  Client: (?P<client>.*)\n  Server: (?P<server>[^\n]*)\n  Direction: (?P<dir>.*)\Z", msg, re.S)
        if m2 is None:
            return -1, "", [f"message has no Client/Server/Direction structure: {msg[:80]!r}"]
        m = m2
    client, server, direction = m.group("client"), m.group("server"), m.group("dir")
    if server != server_version:
        problems.append(f"message names server {server!r}, server is {server_version!r}")
    if client == "<not declared>":
        return 1, "", problems
    if client == "<undecodable bytes>":
        return 2, "", problems
    if "malformed" in direction:
        return 3, client, problems
    if "client is too old" in direction and "upgrade the VGI extension/client" in direction:
        if server_version not in direction:
            problems.append("client-too-old direction does not name the version to upgrade to")
        return 4, client, problems
    if "server is too old" in direction and "upgrade the VGI worker" in direction:
        if client not in direction:
            problems.append("server-too-old direction does not name the client version")
        return 5, client, problems
    return -1, client, problems + [f"unknown direction {direction[:60]!r}"]


def translate(ctx: Any) -> None:
    """Regenerated leg: SEMVER_REGEX -> coq/gen/G_Version.v"""
    from translate import t_regex

    src = ctx.repo / "vgi_rpc" / "metadata.py"
    ctx.gen(
        "G_Version",
        lambda: "From Coq Require Import List NArith.\nFrom VGI Require Import Regex.\nImport ListNotations.\nOpen Scope N_scope.\n"
        + t_regex.regex_definition(src, "SEMVER_REGEX", "gen_semver_re"),
    )


def run(ctx: Any) -> None:
    from vlib.coqterm import cN, cbool, cbytes, copt, cstr

    translate(ctx)
    # ---- 2. prove ----------------------------------------------------------
    ctx.prove(
        ["prop/P_C09.vo", "tie/T_Version.vo", "refuted/R_C09.vo"],
        {
            "P_C09": [
                "C09_parse_iff", "C09_parse_canonical", "C09_gate_iff", "C09_refusal_names_client_and_direction",
                "C09_absent_refused", "C09_undeclared_never_checks", "C09_describe_exempt",
            ],
            "T_Version": ["semver_tie", "C09_source_gate_iff"],
        },
    )
    # ---- 3+4. correspondence + oracle on the implementation ------------------
    import pyarrow as pa
    import falcon.testing
    from harness.rawrpc import error_of, read_streams, request_bytes, serve_bytes
    from vgi_rpc.http import make_wsgi_app

    # environment fact: the Unicode digit table of lib/UnicodeTables.v is the runtime's
    import unicodedata
    zeros = [int(x) for x in re.search(r"udigit_zeros : list N := \[(.*?)\]", (ctx.bdir / "lib" / "UnicodeTables.v").read_text()).group(1).split(";")]
    table = {z + k for z in zeros for k in range(10)}
    runtime = {c for c in range(0x110000) if chr(c).isdecimal()}
    ctx.obligation("env:unicode-digit-table", "environment", table == runtime, f"table differs from runtime ({unicodedata.unidata_version})")

    make, log = _mk_services()
    versions = [f"{a}.{b}.{c}" for a, b, c in itertools.product(GRID, repeat=3)]
    if ctx.tier == "quick":
        servers = ["0.0.0", "10.10.10", "1.2.0", "2.1.10", "0.10.1", "1.0.2"] + ctx.rng.sample(versions, 6)
        servers = list(dict.fromkeys(servers))
    else:
        servers = versions
    values: list[bytes | None] = [None] + [v.encode() for v in versions] + [m.encode() for m in MALFORMED] + RAW_BYTES
    # seeded mutations of canonical versions (insert / delete / replace one char)
    alphabet = "0123456789.-+ \n\tv١\x00"
    for _ in range(40 if ctx.tier == "quick" else 400):
        s = list(ctx.rng.choice(versions))
        k = ctx.rng.randrange(3)
        pos = ctx.rng.randrange(len(s) + 1)
        if k == 0:
            s.insert(pos, ctx.rng.choice(alphabet))
        elif k == 1 and s:
            del s[min(pos, len(s) - 1)]
        elif s:
            s[min(pos, len(s) - 1)] = ctx.rng.choice(alphabet)
        values.append("".join(s).encode())
    values = list(dict.fromkeys(values))

    ctx.rule = ("cases = (server version | undeclared) x client metadata value x method {unary, stream, __describe__} x path {socket, http}; "
                "distinct by (server, value, is_describe); non-trivial = the service declares a version")
    model_cases: dict[tuple[Any, bool, bytes | None], tuple[int, str]] = {}

    def _req(srv: Any, method: str, value: bytes | None, shape: str) -> bytes:
        """shape: ok | missing (no parameter column) | retyped (a: string) -- the gate must decide before parameters are looked at"""
        md = {} if value is None else {b"vgi_rpc.protocol_version": value}
        if method == "__describe__":
            return request_bytes(method, pa.schema([]), None, md)
        if shape == "missing":
            return request_bytes(method, pa.schema([]), None, md)
        if shape == "retyped":
            return request_bytes(method, pa.schema([pa.field("a", pa.string(), nullable=False)]), {"a": "x"}, md)
        return request_bytes(method, srv._methods[method].params_schema, {"a": 1}, md)

    def observe_socket(srv: Any, method: str, value: bytes | None, shape: str = "ok") -> tuple[bool, Any]:
        data = _req(srv, method, value, shape)
        if method == "g":
            from harness.rawrpc import tick_stream_bytes
            data += tick_stream_bytes(1)
        del log[:]
        out, exc = serve_bytes(srv, data)
        if exc is not None:
            return bool(log), ("escaped", type(exc).__name__)
        st = read_streams(out)
        return bool(log), error_of(st[0]) if st else ("noreply",)

    def observe_http(client: Any, srv: Any, method: str, value: bytes | None, shape: str = "ok") -> tuple[bool, Any, int]:
        data = _req(srv, method, value, shape)
        path = f"/{method}/init" if method == "g" else f"/{method}"
        del log[:]
        r = client.simulate_post(path, body=data, headers={"Content-Type": "application/vnd.apache.arrow.stream"})
        err = None
        try:
            st = read_streams(r.content)
            err = error_of(st[0]) if st else None
        except Exception as e:  # noqa: BLE001
            err = ("unparseable", type(e).__name__)
        return bool(log), err, r.status_code

    for sv in [None] + servers:
        srv = make(sv)
        app = make_wsgi_app(srv, prefix="", token_key=b"k" * 32, enable_landing_page=False, enable_not_found_page=False, enable_describe_page=False)
        client = falcon.testing.TestClient(app)
        parts = None if sv is None else tuple(int(x) for x in sv.split("."))
        vals = values if sv is not None else values[:: max(1, len(values) // 25)]
        for value in vals:
            for method in ("f", "g", "__describe__"):
                is_desc = method == "__describe__"
                if is_desc and ctx.tier == "quick" and ctx.rng.random() < 0.7:
                    continue
                d_sock, e_sock = observe_socket(srv, method, value)
                d_http, e_http, status = observe_http(client, srv, method, value)
                ctx.count("impl_runs", 2)
                ctx.tally("method", method)
                ctx.tally("value_kind", "absent" if value is None else ("grid" if value.decode("utf-8", "replace") in versions else "malformed/bytes"))
                ctx.case([sv, None if value is None else value.hex(), is_desc], nontrivial=sv is not None)
                repl = {"server_version": sv, "client_metadata_hex": None if value is None else value.hex(), "method": method}
                # describe is answered by the framework, "dispatched" = no refusal
                if is_desc:
                    code_s = 0 if e_sock is None else -2
                    code_h = 0 if (e_http is None and status == 200) else -2
                    cl_s = cl_h = ""
                else:
                    def code_of(dispatched: bool, err: Any) -> tuple[int, str]:
                        if err is None:
                            return (0 if dispatched else -3), ""
                        if err[0] != "ProtocolVersionError" or err[2] != "protocol_version_mismatch":
                            return -4, str(err)[:80]
                        c, cl, problems = _classify(err[1], sv or "")
                        for pb in problems:
                            ctx.violation("message-" + pb[:40], pb, {**repl, "message": err[1]})
                        if dispatched:
                            return -5, cl
                        return c, cl
                    code_s, cl_s = code_of(d_sock, e_sock)
                    code_h, cl_h = code_of(d_http, e_http)
                    if code_h > 0 and status != 400:
                        ctx.violation("http-refusal-not-400", f"refusal answered with HTTP {status}", {**repl, "status": status})
                    if code_h == 0 and status != 200:
                        ctx.violation("http-dispatch-not-200", f"dispatch answered with HTTP {status}", {**repl, "status": status})
                if (code_s, cl_s) != (code_h, cl_h):
                    ctx.violation("socket-http-differ", "socket and HTTP paths decide differently", {**repl, "socket": [code_s, cl_s], "http": [code_h, cl_h]})
                key = (parts, is_desc, value)
                prev = model_cases.get(key)
                if prev is not None and prev != (code_s, cl_s):
                    ctx.violation("method-kinds-differ", "unary and stream methods decide differently", {**repl, "a": prev, "b": [code_s, cl_s]})
                model_cases[key] = (code_s, cl_s)
                # the gate decides BEFORE the parameters are looked at: a request that is refused for its version
                # must get the same protocol_version_mismatch answer when its parameters are also wrong
                if sv is not None and not is_desc and code_s > 0 and (ctx.tier == "thorough" or ctx.rng.random() < 0.34):
                    for shape in ("missing", "retyped"):
                        d2s, e2s = observe_socket(srv, method, value, shape)
                        d2h, e2h, st2 = observe_http(client, srv, method, value, shape)
                        ctx.count("impl_runs", 2)
                        ctx.tally("shape", shape)
                        for path, d2, e2 in (("socket", d2s, e2s), ("http", d2h, e2h)):
                            c2, cl2 = code_of(d2, e2)
                            if (c2, cl2) != (code_s, cl_s):
                                ctx.violation(
                                    "version-refusal-masked-by-parameter-error",
                                    f"{path}: a request refused for its version ({code_s}) is answered differently ({c2}: {str(e2)[:80]}) when its parameters are also wrong ({shape})",
                                    {**repl, "path": path, "shape": shape, "expected": [code_s, cl_s], "got": [c2, cl2]},
                                )
                        if st2 != 400:
                            ctx.violation("http-refusal-not-400", f"refusal answered with HTTP {st2}", {**repl, "shape": shape, "status": st2})
                # property oracle on the implementation itself (independent of the model)
                if sv is not None and not is_desc:
                    canonical_same = False
                    if value is not None:
                        try:
                            t = value.decode()
                            mm = re.fullmatch(r"(0|[1-9][0-9]*)\.(0|[1-9][0-9]*)\.(0|[1-9][0-9]*)", t, re.ASCII)
                            canonical_same = mm is not None and (int(mm.group(1)), int(mm.group(2))) == parts[:2] and "\n" not in t
                        except UnicodeDecodeError:
                            canonical_same = False
                    for path, d, code in (("socket", d_sock, code_s), ("http", d_http, code_h)):
                        if d != canonical_same or (code == 0) != canonical_same:
                            ctx.violation(
                                "admits-noncanonical" if d and not canonical_same else "refuses-matching",
                                f"{path}: dispatched={d} but canonical-and-matching={canonical_same}",
                                {**repl, "path": path, "code": code},
                            )
                if sv is None and not is_desc and (not d_sock or not d_http):
                    ctx.violation("undeclared-checked", "a service declaring no version refused a call", repl)
    ctx.sample({"server": "1.2.0", "client": "1.2.10", "method": "f", "expected": "dispatch"})
    ctx.sample({"server": "1.2.0", "client": "1.2.3\\n", "method": "g", "expected": "refused malformed"})

    # model side
    cases = []
    keys = list(model_cases)
    for parts, is_desc, value in keys:
        code, cl = model_cases[(parts, is_desc, value)]
        d = copt(None if parts is None else f"({cN(parts[0])}, {cN(parts[1])}, {cN(parts[2])})")
        inp = f"({d}, {cbool(is_desc)}, {copt(None if value is None else cbytes(value))})"
        if code < 0:
            # not expressible as a model verdict: certainly a disagreement -> encode impossible value
            out = f"(99%N, {cstr(cl)})"
        else:
            out = f"({cN(code)}, {cstr(cl)})"
        cases.append((inp, out))
    ok, bad, clog = ctx.coq_mismatches(
        "From Coq Require Import List NArith Bool.\nFrom VGI Require Import M_Version Corr.\nImport ListNotations.\nOpen Scope N_scope.",
        "run_case",
        "pair_eqb N.eqb bytes_eqb",
        cases,
        "option (N * N * N) * bool * option (list N)",
        "N * list N",
    )
    ctx.count("model_cases", len(cases))
    ctx.obligation("correspondence:M_Version.run_case", "correspondence", ok and not bad, clog if not ok else f"{len(bad)} of {len(cases)} cases disagree")
    for i in bad[:5]:
        parts, is_desc, value = keys[i]
        shown = ctx.coq_show("From Coq Require Import List NArith.\nFrom VGI Require Import M_Version.\nImport ListNotations.\nOpen Scope N_scope.", f"run_case {cases[i][0]}")
        ctx.violation(
            "model-impl-disagree",
            "implementation and model decide differently",
            {"server": parts, "is_describe": is_desc, "client_metadata_hex": None if value is None else value.hex(), "impl": model_cases[keys[i]], "model": shown},
        )
    ctx.assumptions += [
        "group extraction of SEMVER_REGEX is modelled as splitting the matched string on '.'",
        "Python bytes.decode() = lib/Utf8.v utf8_decode; int() on decimal digits = int_of_digits (UnicodeTables.v equals the runtime table: checked)",
        "socket transports share serve_one: the in-memory pipe transport stands for pipe/unix/tcp/subprocess",
    ]
