"""C34 Access logs record every call exactly once, schema-valid.

proof         : coq/prop/P_C34.v over model/M_AccessLog.v (emission sites + _emit_access_log + VgiAccessLogFormatter,
                a JSON-Schema interpreter for the fragment access_log.schema.json uses); service behaviour = the
                interpreter programs of M_Wire (exec_step).
regenerated   : access_log.schema.json -> gen_schema (translate/t_c34_schema.py; patterns through t_regex);
                the source shape of the four emission sites the findings live in -> gen_shape, plus the key / sentinel /
                telemetry-argument tables (translate/t_c34_emit.py).  tie/T_AccessLog.v: gen_schema = model_schema,
                gen_shape = fixed_shape, tables by reflexivity, theorems restated over the generated terms.
correspondence: generated call histories (unary, producer / exchange streams with and without header, cancel, close,
                early exit, __describe__, refused requests, implementation faults, hard-cap overshoots; exception
                messages empty / 1 / 499 / 500 / 501 / long / multi-line / non-ASCII) over HTTP (in-process Falcon app)
                and the socket family (pipe), access logger at INFO and DEBUG, formatter caps that select the full,
                shed and sentinel forms.  Records captured from the real ``vgi_rpc.access`` logger through the real
                VgiAccessLogFormatter are (a) checked by the property's own oracle -- one record per dispatched request,
                jsonschema against the real schema file, status vs what the client / HTTP response showed, one stream_id
                per stream, error_message = full message -- and (b) compared with M_AccessLog.run_case evaluated with
                the regenerated shape.

Readings adopted (where the statement leaves room):
  * "one record per dispatched call": per call on the socket family (a stream is one call), per HTTP request on HTTP
    (docs/access-log-spec.md section 1).  Requests answered before dispatch (4xx) yield no record and are not alarmed.
  * "error_message carries the full server-side message": equals str(exc) whenever that is non-empty; for an empty
    str(exc) the schema demands a non-empty value, any non-empty placeholder is accepted.
  * "validates against the published schema" = jsonschema over vgi_rpc/access_log.schema.json.  The extra checks of
    access_log_conformance.py (request_data round trip) and the prose of the spec that the schema does not carry
    (request_data absent on continuations, http_status = the status on the wire) are counted, not alarmed.
  * cancel: the record says status=ok, cancelled=true, which is what the cancelling client observes.
  * socket-family implementation faults (non-Stream result, missing declared header) end the serve loop; that is C04's
    subject and such programs are not run on sockets here (model side condition [sock_legal]).
"""
from __future__ import annotations

import json
from typing import Any

META = {
    "id": "C34",
    "technique": "Coq proof (emission model + JSON-Schema interpreter) + regenerated schema / source-shape tie + differential correspondence on the real server",
    "level_text": "Coq theorems for all configurations, environments, programs, request histories and formatter forms: every "
    "dispatched request yields exactly one record; every record validates against the regenerated schema; status, "
    "error_type and error_message agree with the outcome the client gets (full message, non-empty on every error); all "
    "records of one stream carry the stream's id and different streams differ.  The schema term and the shape of the four "
    "source sites are regenerated on every run and tied by reflexivity; the emission sites themselves are hand-modelled "
    "and tied by running the real server against the model.",
    "level_note": "Trusted: Coq kernel, the two translators, t_regex, harness/interp.py + c34_driver.py, python-jsonschema as "
    "the oracle's validator.  Not modelled: JSON byte length (the formatter's form is an input), pass-through fields "
    "(trace ids, byte accounting, state tokens, sticky session), claims redaction (C35), the upload-url endpoint.",
    "design_ref": "§5 C34",
}

THEOREMS = [
    "C34_one_record_per_dispatch", "C34_schema_valid", "C34_status_matches_client", "C34_full_message",
    "C34_error_message_nonempty", "C34_stream_id_shared", "C34_stream_id_distinct", "C34_timestamp_valid",
]
TIE = ["schema_tie", "shape_tie", "emit_keys_tie", "sentinel_tie", "telemetry_tie", "recover_tie", "format_time_tie", "C34_source_schema_valid", "C34_source_status_matches_client", "C34_source_full_message", "C34_source_timestamp_valid"]
REFUTED = ["C34_old_empty_message_schema_invalid", "C34_old_http_message_truncated", "C34_old_sentinel_stream_invalid", "C34_old_escape_logged_ok", "C34_nearest_millisecond_timestamp_invalid"]

HDR = "From Coq Require Import List NArith ZArith Bool.\nFrom VGI Require Import Regex M_Wire M_AccessLog.\nImport ListNotations.\nOpen Scope N_scope.\n"

FAULT_BAD_RETURN = ("AttributeError", "'int' object has no attribute 'call_state'")


def fault_header(method: str) -> tuple[str, str]:
    return ("TypeError", f"Method '{method}' declares header type but returned header=None")


def _epoch(y: int, mo: int, d: int, h: int = 0, mi: int = 0, s: int = 0) -> int:
    import calendar

    return calendar.timegm((y, mo, d, h, mi, s, 0, 0, 0))


# seconds: epoch, second / minute / hour / day / month / year ends and starts, leap days (and the missing one of 2100),
# the 32-bit boundary, the last second of year 9999
SECONDS = [
    0, 1, 59, 60, 3599, 3600, 86399, 86400, _epoch(1999, 12, 31, 23, 59, 59), _epoch(2000, 1, 1), _epoch(2000, 2, 29, 12), _epoch(2023, 12, 31, 23, 59, 59),
    _epoch(2024, 1, 1), _epoch(2024, 2, 28, 23, 59, 59), _epoch(2024, 2, 29), _epoch(2024, 2, 29, 23, 59, 59), _epoch(2024, 3, 1), _epoch(2026, 9, 22, 11, 31, 33),
    2**31 - 1, 2**31, _epoch(2100, 2, 28, 23, 59, 59), _epoch(2100, 3, 1), _epoch(9999, 12, 31, 23, 59, 58),
]
MICROS = [0, 1, 499, 500, 501, 999, 1000, 1499, 1500, 499_499, 499_500, 499_999, 500_000, 998_999, 999_000, 999_499, 999_500, 999_501, 999_999]
BOUNDARY_US = [s * 1_000_000 + m for s in (_epoch(2023, 12, 31, 23, 59, 59), _epoch(2024, 2, 29, 23, 59, 59), 1_700_000_000, 59) for m in (0, 499, 500, 999_499, 999_500, 999_999)]
# POSIX TZ strings (no tzdata needed): UTC, a negative and a large positive UTC offset
TZS = ["UTC", "EST5EDT", "<+14>-14"]


def translate(ctx: Any) -> None:
    from translate import t_c34_emit, t_c34_schema

    ctx.gen("G_AccessLog", lambda: HDR + t_c34_schema.schema_definition(ctx.repo) + t_c34_emit.definitions(ctx.repo))


# --------------------------------------------------------------------------- generators
MESSAGES = ["", "x", "boom", "a\nb", "line1\r\nline2\n", "éü中\U0001f600 msg", "m" * 499, "n" * 500, "o" * 501, "p" * 700, "q\n" * 900, " ", "\n"]
CLASSES = ["ValueError", "RuntimeError", "KeyError", "InterpUserError", "InterpKindError"]


def gen_exc(rng: Any) -> list[str]:
    return [rng.choice(CLASSES), rng.choice(MESSAGES)]


def gen_step(rng: Any, kind: str) -> dict[str, Any]:
    r = rng.random()
    st: dict[str, Any] = {"logs": [], "emit": {"rows": rng.choice([0, 1, 3]), "meta": None}, "finish": False, "raise": None}
    if r < 0.18:
        st["raise"] = gen_exc(rng)
    elif r < 0.24:
        st["emit"] = None  # framework: "No data batch was emitted"
    elif r < 0.32 and kind == "producer":
        st["finish"] = True
    elif r < 0.36 and kind == "exchange":
        st["finish"] = True  # framework: finish() refused on exchange streams
    if rng.random() < 0.15:
        st["logs"] = [["INFO", "step log", {}]]
    return st


def gen_stream(rng: Any, kind: str, fault_ok: bool) -> dict[str, Any]:
    r = rng.random()
    init: Any = "ok"
    if r < 0.15:
        init = {"raise": gen_exc(rng)}
    elif r < 0.22 and fault_ok:
        init = "bad_return"
    header: Any = rng.choice([1, 7])
    if fault_ok and rng.random() < 0.08:
        header = None
    return {"init_logs": [], "init": init, "header": header, "steps": [gen_step(rng, kind) for _ in range(rng.randrange(0, 5))]}


def gen_item(rng: Any, kind: str, cap_small: bool) -> list[Any]:
    """One history item for transport family ``kind`` (http | pipe)."""
    r = rng.random()
    if kind == "http" and r < 0.06:
        return ["describe"]
    if kind == "http" and r < 0.12:
        return ["raw", rng.choice(["/nosuch", "/unary/init", "/producer/exchange", "/producer", "/unary"]), rng.choice(["", "00ff", "ffffffff00000000"])]
    if r < 0.35:
        res: Any = {"ok": rng.randrange(0, 100)} if rng.random() < 0.5 else {"raise": gen_exc(rng)}
        return ["script", {"logs": [], "result": res}, ["unary", 0]]
    fault_ok = kind == "http"
    if rng.random() < 0.5:
        method = rng.choice(["producer", "producer_h"])
        prog = gen_stream(rng, "producer", fault_ok)
        after = rng.choice(["stop", "stop", "close", "cancel"] + (["abandon"] if kind == "http" else []))
        return ["script", prog, ["iterate", method, 0, rng.randrange(0, 4), after]]
    method = rng.choice(["exchange", "exchange_h"])
    prog = gen_stream(rng, "exchange", fault_ok)
    after = rng.choice(["close", "cancel"] + (["abandon"] if kind == "http" else []))
    return ["script", prog, ["exchange", method, 0, rng.randrange(0, 4), after]]


def scenario_items() -> list[tuple[str, list[Any]]]:
    """Targeted histories: every arm of the model's emission function, every finding class."""
    ok = {"logs": [], "emit": {"rows": 1, "meta": None}, "finish": False, "raise": None}
    out: list[tuple[str, list[Any]]] = []
    for msg in MESSAGES:
        for cls in ("ValueError", "KeyError"):
            out.append(("both", [["script", {"logs": [], "result": {"raise": [cls, msg]}}, ["unary", 0]]]))
        boom = {**ok, "emit": None, "raise": ["RuntimeError", msg]}
        sp = {"init_logs": [], "init": "ok", "header": 3, "steps": [ok, boom]}
        out.append(("both", [["script", sp, ["iterate", "producer", 0, 5, "stop"]]]))
        out.append(("both", [["script", sp, ["exchange", "exchange_h", 0, 3, "close"]]]))
        out.append(("both", [["script", {**sp, "init": {"raise": ["InterpUserError", msg]}}, ["iterate", "producer_h", 0, 2, "stop"]]]))
    sp4 = {"init_logs": [], "init": "ok", "header": 3, "steps": [ok, ok, ok, ok]}
    # two streams and a unary call in one history: ids shared inside, distinct across
    out.append(("both", [["script", sp4, ["exchange", "exchange", 0, 2, "cancel"]], ["script", {"logs": [], "result": {"ok": 1}}, ["unary", 0]], ["script", sp4, ["iterate", "producer_h", 0, 2, "cancel"]], ["script", sp4, ["iterate", "producer", 0, 9, "stop"]]]))
    out.append(("http", [["describe"], ["raw", "/nosuch", ""], ["raw", "/unary", "00"], ["script", sp4, ["exchange", "exchange_h", 0, 3, "close"]], ["raw", "/exchange/exchange", "00ff"]]))
    # implementation faults (HTTP only: on sockets they end the serve loop, C04)
    out.append(("http", [["script", {**sp4, "init": "bad_return"}, ["iterate", "producer", 0, 1, "stop"]]]))
    out.append(("http", [["script", {**sp4, "init": "bad_return"}, ["exchange", "exchange", 0, 1, "close"]]]))
    out.append(("http", [["script", {**sp4, "header": None}, ["iterate", "producer_h", 0, 1, "stop"]]]))
    out.append(("http", [["script", {**sp4, "header": None}, ["exchange", "exchange_h", 0, 1, "close"]]]))
    # framework-raised step errors
    out.append(("both", [["script", {**sp4, "steps": [ok, {**ok, "emit": None}]}, ["iterate", "producer", 0, 5, "stop"]]]))
    out.append(("both", [["script", {**sp4, "steps": [ok, {**ok, "finish": True}]}, ["exchange", "exchange", 0, 3, "close"]]]))
    return out


# --------------------------------------------------------------------------- Coq rendering
def _s(x: str) -> str:
    from vlib.coqterm import cstr

    return cstr(x)


def c_exn(e: list[str]) -> str:
    from harness.interp import exc_text

    return f"{{| cls := {_s(e[0])}; emsg := {_s(exc_text(e[0], e[1]))}; kind := None |}}"


def c_unary(p: dict[str, Any]) -> str:
    r = p["result"]
    res = f"UOk ({r['ok']})%Z" if "ok" in r else f"URaise {c_exn(r['raise'])}"
    return f"{{| ulogs := []; ures_of := {res} |}}"


def c_stream(p: dict[str, Any]) -> str:
    steps = []
    for i, st in enumerate(p["steps"]):
        em = "None" if st["emit"] is None else f"(Some {{| rows := {st['emit']['rows']}%N; tag := {i if st['emit']['rows'] else 0}%N; meta := [] |}})"
        ra = "None" if not st["raise"] else f"(Some {c_exn(st['raise'])})"
        steps.append(f"{{| slogs := []; emit := {em}; fin := {'true' if st['finish'] else 'false'}; sraise := {ra} |}}")
    init = p["init"]
    ires = "InitOk" if init == "ok" else ("InitBadReturn" if init == "bad_return" else f"(InitRaise {c_exn(init['raise'])})")
    hd = "None" if p["header"] is None else f"(Some ({p['header']})%Z)"
    return f"{{| ilogs := []; ires := {ires}; hdr := {hd}; steps := [{'; '.join(steps)}] |}}"


def c_opt_str(x: str | None) -> str:
    return "None" if x is None else f"(Some {_s(x)})"


def c_bool(b: bool) -> str:
    return "true" if b else "false"


def c_shape(sh: dict[str, Any]) -> str:
    lim = "None" if sh["msg_limit"] is None else f"(Some {sh['msg_limit']}%nat)"
    return f"{{| msg_limit := {lim}; error_msg_always := {c_bool(sh['error_msg_always'])}; sentinel_sid := {c_bool(sh['sentinel_sid'])}; escape_marked := {c_bool(sh['escape_marked'])} |}}"


def c_proj(rec: dict[str, Any], mint_no: int | None) -> str:
    """mint_no: which stream of the history (in /init order) the request belongs to; the real id is checked by the oracle."""
    tr = rec.get("truncated")
    tcode = 0 if tr is None else (1 if tr is True else (2 if tr == "payload_omitted" else (3 if tr == "record_too_large" else 9)))
    sid = rec.get("stream_id")
    sid_t = "None"
    if isinstance(sid, str):
        sid_t = f"(Some [{(mint_no if mint_no is not None else 98) + 1}%N])"
    hs = rec.get("http_status")
    em = rec.get("error_message")
    return (
        f"(({_s(str(rec.get('method', '')))}, {c_bool(rec.get('method_type') == 'stream')}, {_s(str(rec.get('status', '')))}, {_s(str(rec.get('error_type', '')))}, "
        f"{c_opt_str(em if isinstance(em, str) else None)}), "
        f"({c_bool('cancelled' in rec)}, {'None' if not isinstance(hs, int) else f'(Some ({hs})%Z)'}, {tcode}%N, {c_bool('request_data' in rec)}, {sid_t}))"
    )


PROJ_TY = "list (list ((list N * bool * list N * list N * option (list N)) * (bool * option Z * N * bool * option (list N))))"
IN_TY = "(bool * bool * shape) * list (request * shed)"


# --------------------------------------------------------------------------- the check
def shed_of(rec: dict[str, Any]) -> str:
    if rec.get("message") == "record_too_large" and rec.get("truncated") == "record_too_large":
        return "ShedSentinel"
    if rec.get("truncated") is True:
        return "ShedReq"
    return "ShedNone"


def replay(ctx: Any, data: dict[str, Any]) -> None:
    """Re-run exactly the recorded history (transport, http cfg, logger level, formatter cap, items)."""
    run(ctx, only=data.get("replay", data))


def run(ctx: Any, only: dict[str, Any] | None = None) -> None:
    import sys

    stubs = "/verif/harness/stubs"
    if stubs not in sys.path:
        sys.path.append(stubs)
    translate(ctx)
    ctx.prove(
        ["prop/P_C34.vo", "tie/T_AccessLog.vo", "refuted/R_C34.vo"],
        {"P_C34": THEOREMS, "T_AccessLog": TIE, "R_C34": REFUTED},
    )

    import jsonschema
    from harness import c34_driver as drv
    from harness import interp
    from translate import t_c34_emit

    try:
        shape = t_c34_emit.describe(ctx.repo)
    except Exception as e:  # noqa: BLE001 - translation already reported broken; fall back to what the old source does
        ctx.notes.append(f"shape not readable ({e}); correspondence uses the old shape")
        shape = {"msg_limit": 500, "error_msg_always": False, "sentinel_sid": False, "escape_marked": False}
    schema = json.loads((ctx.repo / "vgi_rpc" / "access_log.schema.json").read_text())
    validator = jsonschema.Draft202012Validator(schema)
    from vgi_rpc.access_log_conformance import validate_access_logs

    ctx.rule = (
        "case = one history (1-4 items: script on an interpreter program | __describe__ | raw refused request) x transport {http, pipe} "
        "x access-logger level {INFO, DEBUG} x formatter cap {1 MiB, 1100, 300} x http max_response_bytes {None, 1} x http call-state cache "
        "{warm, disabled, cold second app sharing token_key, one-entry cache evicted before every continuation} x record-creation instant "
        "{real clock, pinned boundary instants}; plus a sweep of creation instants (second/minute/day/year/leap boundaries x sub-second offsets "
        "0..999999 us incl. 999499/999500/999999, random instants) x TZ env {UTC, EST5EDT, +14} re-stamped onto captured records and sent through the real formatter; scenarios cover every "
        "model arm and message class, the rest is seeded random; distinct by (transport, cfg, items); non-trivial = at least one request was dispatched"
    )
    histories: list[tuple[str, list[Any]]] = scenario_items()
    n_rand = 30 if ctx.tier == "quick" else 200
    for _ in range(n_rand):
        fam = ctx.rng.choice(["http", "http", "pipe"])
        histories.append((fam, [gen_item(ctx.rng, fam, False) for _ in range(ctx.rng.randrange(1, 4))]))

    cases: list[tuple[str, str]] = []
    case_meta: list[dict[str, Any]] = []

    templates: dict[str, Any] = {}
    run_no = [0]

    def one(kind: str, cfg: dict[str, Any] | None, debug: bool, cap: int, items: list[Any], instant_us: int | None = -1) -> None:
        # the record-creation instant is an input: every third run keeps the real clock, the others are pinned to a boundary instant
        if instant_us == -1:
            run_no[0] += 1
            instant_us = None if run_no[0] % 3 == 0 else BOUNDARY_US[run_no[0] % len(BOUNDARY_US)]
        res = drv.run_history(kind, cfg, debug, cap, items, None if instant_us is None else instant_us / 1e6)
        for raw in res["raw"]:
            templates.setdefault(("error:" if getattr(raw, "status", "") == "error" else "ok:") + str(getattr(raw, "method_type", "")), raw)
        recs, reqs = res["records"], res["requests"]
        ctx.count("impl_runs", len(reqs))
        ctx.tally("transport", kind)
        ctx.tally("level", "DEBUG" if debug else "INFO")
        ctx.tally("cap", cap)
        ctx.tally("call_state_cache", (cfg or {}).get("c34_cache", "warm") if kind == "http" else "n/a")
        repl_base = {"transport": kind, "http_cfg": cfg, "debug": debug, "formatter_cap": cap, "instant_us": instant_us, "items": items}
        tiny = bool(cfg and cfg.get("max_response_bytes") is not None)
        # ---- request list (what was dispatched) -----------------------------
        q_terms: list[str] = []
        init_index: dict[int, int] = {}      # item -> index of its init request in the history
        dispatched: list[bool] = []
        expect_msg: list[tuple[str, str] | None] = []   # (class, full message) when the program says so
        client_err: list[bool | None] = []
        for qi, rq in enumerate(reqs):
            it = items[rq["item"]]
            calls = rq["calls"]
            idx = [c[2] for c in calls if c[0] == "process"]
            exp: tuple[str, str] | None = None
            if kind == "http":
                path, status = rq["path"], rq["status"]
                is_err = rq["rpc_error"] or status >= 400
                refused = 400 <= status < 500
                client_err.append(is_err)
                if it[0] == "describe" and not refused:
                    q_terms.append("QDescribe"); dispatched.append(True); expect_msg.append(None); continue
                if it[0] == "raw" or refused:
                    q_terms.append("QRefused"); dispatched.append(False); expect_msg.append(None)
                    if not refused:
                        ctx.violation("raw-malformed-request-not-refused", "a malformed / unroutable request was not answered 4xx", {**repl_base, "request": rq})
                    continue
                prog, sc = it[1], it[2]
                if sc[0] == "unary":
                    over = None
                    r = prog["result"]
                    if "raise" in r:
                        exp = (r["raise"][0], interp.exc_text(*r["raise"]))
                    elif tiny:
                        tr = res["traces"][rq["item"]]
                        ev = tr[-1] if tr else None
                        if ev and ev[0] == "error" and ev[2].startswith(ev[1] + ": "):
                            over = ev[2][len(ev[1]) + 2 :]
                            exp = ("RuntimeError", over)
                    q_terms.append(f"QUnary {c_unary(prog)} {c_opt_str(over)}"); dispatched.append(True); expect_msg.append(exp); continue
                method = sc[1]
                producer, hd = method.startswith("producer"), method.endswith("_h")
                if path.endswith("/init"):
                    init_index[rq["item"]] = qi
                    fault = FAULT_BAD_RETURN if prog["init"] == "bad_return" else fault_header(method)
                    if isinstance(prog["init"], dict):
                        exp = (prog["init"]["raise"][0], interp.exc_text(*prog["init"]["raise"]))
                    elif prog["init"] == "bad_return" or (hd and prog["header"] is None):
                        exp = fault
                    elif idx and idx[-1] < len(prog["steps"]) and prog["steps"][idx[-1]]["raise"]:
                        e = prog["steps"][idx[-1]]["raise"]
                        exp = (e[0], interp.exc_text(*e))
                    q_terms.append(f"QInit {c_bool(producer)} {c_bool(hd)} {c_stream(prog)} [{'; '.join(str(i) + '%nat' for i in idx)}] {{| xcls := {_s(fault[0])}; xmsg := {_s(fault[1])} |}}")
                    dispatched.append(True); expect_msg.append(exp); continue
                ref = init_index.get(rq["item"], 0)
                if any(c[0] == "cancel" for c in calls):
                    q_terms.append(f"QCancel {ref}%nat {c_bool(producer)} {c_bool(hd)}"); dispatched.append(True); expect_msg.append(None); continue
                over = None
                if idx and idx[-1] < len(prog["steps"]) and prog["steps"][idx[-1]]["raise"]:
                    e = prog["steps"][idx[-1]]["raise"]
                    exp = (e[0], interp.exc_text(*e))
                elif tiny and not producer and is_err:
                    tr = res["traces"][rq["item"]]
                    ev = tr[-1] if tr else None
                    if ev and ev[0] == "error" and "max_response_bytes" in ev[2] and ev[2].startswith(ev[1] + ": "):
                        over = ev[2][len(ev[1]) + 2 :]
                        exp = ("RuntimeError", over)
                q_terms.append(f"QTurn {ref}%nat {c_bool(producer)} {c_bool(hd)} {c_stream(prog)} [{'; '.join(str(i) + '%nat' for i in idx)}] {c_opt_str(over)}")
                dispatched.append(True); expect_msg.append(exp)
            else:
                prog, sc = it[1], it[2]
                tr = res["traces"][rq["item"]]
                # Socket family, stream without header: the init outcome rides the output stream and is only seen at the
                # first read (C01: socket-headerless-init-outcome-unobserved-until-first-read).  A script that reads nothing
                # (0 inputs / 0 batches, then close or cancel) observes NO outcome: nothing to compare the status with
                # (the record is still compared with the model and with the program's exception).
                reads_nothing = sc[0] != "unary" and not sc[1].endswith("_h") and (
                    (sc[0] == "exchange" and sc[3] == 0) or (sc[0] == "iterate" and sc[4] != "stop" and sc[3] == 0)
                )
                if reads_nothing and not (bool(tr) and tr[-1][0] == "error"):
                    client_err.append(None)
                    ctx.count("socket_scripts_without_any_read(client outcome unobserved)")
                else:
                    client_err.append(bool(tr) and tr[-1][0] == "error")
                dispatched.append(True)
                if sc[0] == "unary":
                    r = prog["result"]
                    if "raise" in r:
                        exp = (r["raise"][0], interp.exc_text(*r["raise"]))
                    q_terms.append(f"QUnary {c_unary(prog)} None"); expect_msg.append(exp); continue
                method = sc[1]
                producer, hd = method.startswith("producer"), method.endswith("_h")
                if isinstance(prog["init"], dict):
                    exp = (prog["init"]["raise"][0], interp.exc_text(*prog["init"]["raise"]))
                elif idx and idx[-1] < len(prog["steps"]) and prog["steps"][idx[-1]]["raise"]:
                    e = prog["steps"][idx[-1]]["raise"]
                    exp = (e[0], interp.exc_text(*e))
                canc = any(c[0] == "cancel" for c in calls)
                q_terms.append(f"QSockStream {c_bool(producer)} {c_bool(hd)} {c_stream(prog)} [{'; '.join(str(i) + '%nat' for i in idx)}] {c_bool(canc)}")
                expect_msg.append(exp)
        # ---- the property's own oracle on the real records -----------------
        sid_of_item: dict[int, set[str]] = {}
        for qi, rq in enumerate(reqs):
            a, b = rq["recs"]
            mine = recs[a:b]
            repl = {**repl_base, "request_index": qi, "request": {k: v for k, v in rq.items() if k != "calls"}, "records": mine}
            want = 1 if dispatched[qi] else 0
            if len(mine) != want:
                ctx.violation("record-count-differs-from-dispatched-calls", f"{len(mine)} records for a request that was {'dispatched' if want else 'refused before dispatch'}", repl)
            for rec in mine:
                ctx.count("records_checked")
                errs = list(validator.iter_errors(rec))
                for err in errs:
                    path = "/".join(str(p) for p in err.absolute_path)
                    if "'error_message' is a required property" in err.message:
                        key = "schema-invalid:error-record-without-error_message"
                    elif path == "timestamp":
                        key = "timestamp-not-schema-valid"
                    elif "'stream_id' is a required property" in err.message and rec.get("truncated") != "record_too_large":
                        key = "schema-invalid:stream-record-without-stream_id"
                    elif "'stream_id' is a required property" in err.message and rec.get("truncated") == "record_too_large":
                        key = "schema-invalid:sentinel-form-of-stream-record-without-stream_id"
                    else:
                        key = f"schema-invalid:{path or 'root'}:{err.validator}"
                    ctx.violation(key, f"record fails access_log.schema.json: {err.message[:160]}", repl)
                if not errs and validate_access_logs([rec]):
                    ctx.count("conformance_helper_extra_findings(request_data round trip; counted, not alarmed)")
                st_err = rec.get("status") == "error"
                ce = client_err[qi]
                if ce is not None and st_err != ce and not (kind != "http" and items[rq["item"]][2][-1] in ("abandon",)):
                    if not st_err and kind == "http" and rq["status"] == 500 and not rq["rpc_error"]:
                        key = "status-ok-but-client-got-error:exception-left-http-dispatch-shell-unrecorded"
                    else:
                        key = "status-differs-from-client-outcome"
                    ctx.violation(key, f"record status={rec.get('status')!r} but the client {'got an error' if ce else 'got its result'}", repl)
                exp = expect_msg[qi]
                if exp is not None and st_err:
                    got = rec.get("error_message")
                    if rec.get("error_type") != exp[0]:
                        ctx.violation("error-type-differs", f"error_type {rec.get('error_type')!r}, exception class {exp[0]!r}", repl)
                    if exp[1] != "" and got != exp[1]:
                        if isinstance(got, str) and exp[1].startswith(got) and kind == "http":
                            ctx.violation("error-message-truncated-on-http", f"error_message has {len(got)} of {len(exp[1])} characters", {**repl, "records": [{**rec, "error_message": got[:40] + "..."}], "message_length": len(exp[1])})
                        else:
                            ctx.violation("error-message-differs-from-server-message", f"error_message {str(got)[:60]!r} vs str(exc) {exp[1][:60]!r}", repl)
                    if exp[1] == "" and not (isinstance(got, str) and got):
                        ctx.violation("schema-invalid:error-record-without-error_message", "status=error record without a non-empty error_message (str(exc) is empty)", repl)
                if isinstance(rec.get("stream_id"), str):
                    sid_of_item.setdefault(rq["item"], set()).add(rec["stream_id"])
                elif rec.get("method_type") == "stream" and rec.get("truncated") != "record_too_large":
                    # no id at all is a different "id" than the one the stream's other records carry
                    sid_of_item.setdefault(rq["item"], set()).add("<absent>")
        for item, ids in sid_of_item.items():
            if len(ids) > 1:
                ctx.violation("stream-id-not-shared-by-records-of-one-stream", f"{len(ids)} stream ids in one stream", {**repl_base, "item": item, "ids": sorted(ids)})
        all_ids = [frozenset(v - {"<absent>"}) for v in sid_of_item.values() if v - {"<absent>"}]
        if len(set().union(*all_ids)) < len(all_ids) if all_ids else False:
            ctx.violation("stream-id-reused-across-streams", "two streams share a stream id", repl_base)
        ctx.case([kind, cfg, debug, cap, items], nontrivial=any(dispatched))
        for q in q_terms:
            ctx.tally("request", q.split(" ")[0])
        # ---- model side -----------------------------------------------------
        outs = []
        sheds = []
        mint_of_req: dict[int, int] = {}
        for qi, q in enumerate(q_terms):
            if q.startswith(("QInit", "QSockStream")):
                mint_of_req[qi] = len(mint_of_req)
        mint_of_item = {reqs[qi]["item"]: m for qi, m in mint_of_req.items()}
        id_of_mint: dict[int, str] = {}
        for qi, rq in enumerate(reqs):
            a, b = rq["recs"]
            mine = recs[a:b]
            mno = mint_of_item.get(rq["item"]) if q_terms[qi].startswith(("QInit", "QSockStream", "QTurn", "QCancel")) else None
            for rec in mine:
                if isinstance(rec.get("stream_id"), str) and mno is not None and id_of_mint.setdefault(mno, rec["stream_id"]) != rec["stream_id"]:
                    mno = 97  # a second id inside one stream: certainly a disagreement (the oracle reports it too)
            sheds.append(shed_of(mine[0]) if mine else "ShedNone")
            for rec in mine:
                ctx.tally("form", shed_of(rec))
            outs.append("[" + "; ".join(c_proj(r, mno) for r in mine) + "]")
        inp = f"(({c_bool(kind == 'http')}, {c_bool(debug)}, {c_shape(shape)}), [{'; '.join(f'({q}, {sh})' for q, sh in zip(q_terms, sheds))}])"
        cases.append((inp, "[" + "; ".join(outs) + "]"))
        case_meta.append({**repl_base, "requests": [{k: v for k, v in rq.items() if k != "calls"} for rq in reqs], "records": recs})

    combos_full = [(False, 1 << 20), (True, 1 << 20), (True, 1100), (False, 300), (True, 300)]
    n_scen = len(histories) - n_rand
    if only is not None and "items" in only and "transport" in only:
        one(only["transport"], only.get("http_cfg"), bool(only.get("debug")), int(only.get("formatter_cap", 1 << 20)), only["items"], only.get("instant_us"))
        histories = []
    for hi, (fam, items) in enumerate(histories):
        kinds = ["http", "pipe"] if fam == "both" else [fam]
        for kind in kinds:
            if ctx.tier == "quick":
                combos = [combos_full[hi % len(combos_full)]] if hi >= 8 else combos_full[:3]
            elif hi < n_scen:
                combos = combos_full
            else:
                combos = [combos_full[hi % len(combos_full)], combos_full[(hi + 2) % len(combos_full)]]
            for ci, (debug, cap) in enumerate(combos):
                cfgs: list[dict[str, Any] | None] = [None]
                if kind == "http" and ((ctx.tier != "quick" and ci < 2) or (ctx.tier == "quick" and hi % 4 == 0)):
                    cfgs.append({"max_response_bytes": 1})
                has_stream = any(it[0] == "script" and it[2][0] != "unary" for it in items)
                if kind == "http" and has_stream and (debug, cap) == combos[0]:
                    # continuations that MISS the call-state cache: the stream id must come from the reopened call token
                    modes = ["nocache", "cold", "evict"]
                    for mode in (modes if ctx.tier != "quick" else [modes[hi % 3]]):
                        cfgs.append({"c34_cache": mode})
                for cfg in cfgs:
                    try:
                        one(kind, cfg, debug, cap, items)
                    except Exception as e:  # noqa: BLE001 - a harness failure is a broken obligation, not a silent skip
                        import traceback

                        ctx.obligation(f"harness:{kind}:{hi}", "correspondence", False, "".join(traceback.format_exception_only(type(e), e)) + traceback.format_exc()[-600:])
    # ---- the record-creation instant as an input: sweep of instants x TZ through the real formatter ------------
    import datetime as _dt
    import os
    import time as _time

    ts_cases: dict[tuple[str, int], str] = {}
    ts_meta: dict[tuple[str, int], dict[str, Any]] = {}
    if templates and only is None:
        micros = MICROS if ctx.tier != "quick" else [0, 499, 500, 999_000, 999_499, 999_500, 999_999]
        secs = SECONDS if ctx.tier != "quick" else SECONDS[::2] + [SECONDS[-1]]
        instants = [s * 1_000_000 + m for s in secs for m in micros]
        instants += [ctx.rng.randrange(0, 4_102_444_800) * 1_000_000 + ctx.rng.randrange(0, 1_000_000) for _ in range(100 if ctx.tier == "quick" else 1500)]
        instants += [ctx.rng.randrange(0, 4_102_444_800) * 1_000_000 + ctx.rng.randrange(999_400, 1_000_000) for _ in range(60 if ctx.tier == "quick" else 600)]
        tmpl = list(templates.values())
        saved_tz = os.environ.get("TZ")
        try:
            for tz in (TZS if ctx.tier != "quick" else TZS[:2]):
                os.environ["TZ"] = tz
                _time.tzset()
                for n, t_us in enumerate(instants):
                    created = t_us / 1e6
                    _text, obj = drv.format_at(tmpl[n % len(tmpl)], created)
                    ctx.count("timestamp_sweep_records")
                    ctx.tally("tz", tz)
                    ts = obj.get("timestamp")
                    repl = {"instant_us": t_us, "created": repr(created), "TZ": tz, "timestamp": ts, "method": obj.get("method")}
                    for err in validator.iter_errors(obj):
                        path = "/".join(str(p) for p in err.absolute_path)
                        if path == "timestamp":
                            ctx.violation("timestamp-not-schema-valid", f"timestamp {ts!r} fails the schema pattern: {err.message[:120]}", repl)
                        else:
                            ctx.violation(f"schema-invalid:{path or 'root'}:{err.validator}", f"re-stamped record fails access_log.schema.json: {err.message[:160]}", repl)
                    d = _dt.datetime.fromtimestamp(created, tz=_dt.timezone.utc)
                    if d.microsecond != t_us % 1_000_000:
                        ctx.count("instants_whose_float_rounds_to_another_microsecond")
                    pre = f"{d.year:04d}-{d.month:02d}-{d.day:02d}T{d.hour:02d}:{d.minute:02d}:{d.second:02d}"
                    k = (pre, d.microsecond)
                    if isinstance(ts, str):
                        if k in ts_cases and ts_cases[k] != ts:
                            ctx.violation("timestamp-depends-on-TZ", f"one instant rendered {ts_cases[k]!r} and {ts!r} under different TZ", repl)
                        ts_cases.setdefault(k, ts)
                        ts_meta.setdefault(k, repl)
                    ctx.case(["ts", t_us, tz], nontrivial=True)
        finally:
            if saved_tz is None:
                os.environ.pop("TZ", None)
            else:
                os.environ["TZ"] = saved_tz
            _time.tzset()
        tkeys = list(ts_cases)
        tcases = [(f"({_s(pre)}, {micro}%N)", _s(ts_cases[(pre, micro)])) for pre, micro in tkeys]
        tok, tbad, tlog = ctx.coq_mismatches(HDR, "ts_case", "bytes_eqb", tcases, "list N * N", "list N", shard=300)
        ctx.count("timestamp_model_cases", len(tcases))
        ctx.obligation("correspondence:M_AccessLog.ts_case", "correspondence", tok and not tbad, (tlog.strip() or "case shard not evaluated") if not tok else f"{len(tbad)} of {len(tcases)} instants disagree")
        for i in tbad[:3]:
            ctx.violation("model-impl-disagree:timestamp", "formatTime and render_ts differ", {**ts_meta[tkeys[i]], "utc_prefix": tkeys[i][0], "microsecond": tkeys[i][1]})
    ctx.sample({"instant_us": 1704067199999500, "expected": "timestamp 2023-12-31T23:59:59.999Z (three fractional digits)"})
    ctx.sample({"transport": "http", "item": ["script", {"result": {"raise": ["ValueError", ""]}}, ["unary", 0]], "expected": "one record, status=error, non-empty error_message"})
    ctx.sample({"transport": "http", "item": "producer stream, step 1 raises RuntimeError('p'*700)", "expected": "init record ok, continuation record error with the 700-character message, same stream_id"})

    ok, bad, clog = ctx.coq_mismatches(
        HDR + "From Coq Require Import ZArith.\n",
        "run_case",
        "list_eqb (list_eqb (pair_eqb (pair_eqb (pair_eqb (pair_eqb (pair_eqb bytes_eqb Bool.eqb) bytes_eqb) bytes_eqb) (option_eqb bytes_eqb)) "
        "(pair_eqb (pair_eqb (pair_eqb (pair_eqb Bool.eqb (option_eqb Z.eqb)) N.eqb) Bool.eqb) (option_eqb bytes_eqb))))",
        cases,
        IN_TY,
        PROJ_TY,
        shard=40,
    )
    ctx.count("model_cases", len(cases))
    ctx.obligation(
        "correspondence:M_AccessLog.run_case", "correspondence", ok and not bad,
        (clog.strip() or "a shard of case files was not evaluated (coqc produced no output: killed or timed out)") if not ok else f"{len(bad)} of {len(cases)} histories disagree",
    )
    for i in bad[:5]:
        shown = ctx.coq_show(HDR, f"run_case {cases[i][0]}")
        ctx.violation("model-impl-disagree", "implementation and model produce different records", {**case_meta[i], "impl_projection": cases[i][1][:1500], "model": shown[-1500:]})
    ctx.assumptions += [
        "the formatter's choice of form (full / shed / sentinel) is an input of the model: JSON byte lengths are not modelled",
        "uuid4().hex yields 32 lower-case hex digits and base64.b64encode yields RFC 4648 text (premises [sid_ok] / [env_ok] of C34_schema_valid; checked by jsonschema on every captured record)",
        "the socket family is represented by the in-memory pipe transport (serve_one is shared); implementation faults on sockets are C04's subject",
        "continuation requests can only name streams whose /init the server answered (sealed tokens: C12 / C13)",
        "datetime.fromtimestamp(.., UTC) / strftime yield the UTC calendar fields as 4+2+2 2:2:2 digits (premise of C34_timestamp_valid; corresponded on the sweep, years 1970-9999)",
    ]
