"""C07 Implementation errors reach the client faithfully.

proof         : coq/prop/P_C07.v over model/M_WireErr.v (on top of the shared wire core model/M_Wire.v):
                Layer A  the error-metadata codec Message.from_exception -> add_to_metadata (error_kind hoist) ->
                         _write_message_batch -> _dispatch_log_or_error -> RpcError, for ALL class names / texts / kinds;
                Layer S  every dispatch site (unary, init, k-th process step incl. after logging, out.validate()) over
                         run_pipe and run_http (every cap): the client's observation ends with exactly that error;
                Layer H  every HTTP response of a dispatched call: status 200, marker <-> the dispatch failed <-> the
                         body holds an error batch.
regenerated   : translate/t_c07_errpath.py -> gen/G_WireErr.v: metadata keys, marker header, _set_http_status as a
                function, the data flow of the error triple (from_exception, hoist, RpcError arguments, RpcError fields)
                and the status effect of every except clause of the HTTP dispatch functions; tie/T_WireErr.v.
refuted       : coq/refuted/R_C07.v -- the client BEFORE fixes/C07-rpcerror-exposes-error-kind.diff drops the kind.
correspondence: (A) the REAL _write_error_batch / _dispatch_log_or_error on raised exceptions (30 classes x messages x
                server id x request id x cause/context chains) vs run_case_codec; (S/H) the interpreter service
                (harness/interp.py + harness/c07_driver.py) over pipe, unix and the in-process Falcon app x cap
                {None, 1, 10^7}: client trace, final error triple (type, message, exposed kind) and per-response
                (status, marker, has-error-batch) vs run_case_pipe / run_case_http.

Readings adopted
* "exception" = an ``Exception`` subclass (every dispatch site catches ``except Exception``); KeyboardInterrupt /
  SystemExit / GeneratorExit are process-control signals, not implementation errors, and are not exercised.
* "message carries the exception text": the oracle demands ``str(exc)`` as a substring of ``RpcError.error_message``
  (the code builds "<class name>: <text>"; the exact format is what the MODEL corresponds, not what the oracle demands).
* "error kind is carried and exposed for the typed framework errors": carried = top-level ``vgi_rpc.error_kind`` on the
  error batch; exposed = an ``error_kind`` attribute on the client's RpcError (the field name WIRE_PROTOCOL section 8
  uses; any attribute whose name contains "kind" is accepted).  The ORACLE raises the violation only for the typed
  framework errors (ProtocolVersionError, MethodNotImplementedError, SessionLostError, ServerDrainingError and a
  subclass); user-defined classes with an ``error_kind`` go through the same code and are covered by correspondence.
* messages are well-formed Unicode text (no lone surrogates: they cannot be UTF-8 encoded into Arrow metadata at all).
* "a successful response" = a response whose dispatch did not fail; an EXCEPTION-level *client log* sent by the
  implementation makes the client raise but is not a failed dispatch (no marker) -- exercised, not alarmed on.
* a hard-cap overshoot of a unary / exchange response (C16) is a failed dispatch (RuntimeError, marker set).
* init logs are dropped on an init error and step logs are dropped when the step raises (wire-core worker, all
  transports): "faithfully" is about the error; the models reproduce the dropping.
* socket family, headerless stream: an init error is reported at the first read (C01 key
  socket-headerless-init-outcome-unobserved-until-first-read); C07 scripts read at least once in that case.
"""
from __future__ import annotations

import re
import time
from typing import Any

META = {
    "id": "C07",
    "technique": "Coq proof (metadata codec for all strings; induction over steps for every dispatch site x transport; HTTP marker invariant) + regenerated source tables + differential correspondence over the interpreter service",
    "level_text": "Coq theorems for ALL exception class names, texts and kinds (arbitrary code-point strings), all tracebacks / "
    "request ids: the client raises RpcError(type = class name, message = '<class>: <text>', kind = the error_kind) ; for "
    "all programs and complete scripts (unbounded) the socket and HTTP models end with exactly the error of the first "
    "failing dispatch site; every HTTP response is 200 and carries X-VGI-RPC-Error iff its dispatch failed iff it holds "
    "an error batch. Tied to /repo by regenerated source tables (tie by reflexivity) and by running the real server / "
    "clients on generated exception x message x site x transport cases against the Coq-evaluated model.",
    "level_note": "json.dumps/json.loads enter the codec theorems as a round-trip hypothesis (checked on every real case); "
    "Arrow key/value transport and UTF-8 are the identity on well-formed text in the model. Site theorems inherit C01's "
    "side conditions (recording callback, no EXCEPTION-level client logs, the socket client reads, complete script). "
    "Trusted: Coq kernel/vm_compute, the translator, the harness.",
    "design_ref": "§5 C07",
}

BIG = 10_000_000
CAP_MSG = re.compile(r"HTTP body exceeds max_response_bytes \(\d+ > \d+\) for method '\w+'")
FRAMEWORK_TYPED = {"ProtocolVersionError", "MethodNotImplementedError", "SessionLostError", "ServerDrainingError", "C07SubSessionLost"}
KEY_EXPOSE = "client-rpcerror-does-not-expose-error-kind"

MESSAGES = ["boom", "", "bad ünicode ☃ 𝄞 中文", "two\nlines\r\nthree", "  padded  ", "\x00nul\x01", 'q"uote\\back\'s', "tab\tsep", "{\"json\": [1,2]}",
            "%s %d {0} {x}", "é" * 300, "x" * 5000]
LONG = "L" * 65536  # 64 KiB


# --------------------------------------------------------------------------- Coq rendering
def _s(x: str) -> str:
    """str -> list N of code points; runs of >= 48 equal characters become (repN c n) so that a 64 KiB message stays a
    small term (a 65536-element list literal overflows the parser's stack)."""
    from vlib.coqterm import cstr

    if len(x) < 2000:
        return cstr(x)
    parts: list[str] = []
    lit: list[str] = []
    i = 0
    while i < len(x):
        j = i
        while j < len(x) and x[j] == x[i]:
            j += 1
        if j - i >= 48:
            if lit:
                parts.append(cstr("".join(lit)))
                lit = []
            parts.append(f"(repN {ord(x[i])} {j - i})")
        else:
            lit.extend(x[i:j])
        i = j
    if lit:
        parts.append(cstr("".join(lit)))
    chunks = []
    for p_ in parts:  # keep literal chunks small as well
        chunks.append(p_)
    return "(" + " ++ ".join(chunks) + ")"


def c_trace7(tr: list[list[Any]]) -> str:
    from props.C01 import c_event

    return "[" + "; ".join((f"EError {_s(e[1])} {_s(e[2])}" if e[0] == "error" else c_event(e)) for e in tr) + "]"


def c_exn(e: list[str]) -> str:
    from harness.c07_driver import exc_facts

    name, text, kind = exc_facts(e[0], e[1])
    return f"{{| cls := {_s(name)}; emsg := {_s(text)}; kind := {'None' if kind is None else '(Some ' + _s(kind) + ')'} |}}"


def c_prog(kind: str, p: dict[str, Any]) -> str:
    """props/C01.c_prog with this module's exception renderer (instance-level error_kind, own class table)."""
    from props.C01 import c_batch, c_log
    from vlib.coqterm import cZ

    if kind == "unary":
        r = p["result"]
        res = f"UOk {cZ(r['ok'])}" if "ok" in r else f"URaise {c_exn(r['raise'])}"
        return f"(PUnary {{| ulogs := [{'; '.join(c_log(l) for l in p['logs'])}]; ures_of := {res} |}})"
    steps = []
    for i, st in enumerate(p["steps"]):
        em = "None" if st["emit"] is None else f"(Some {c_batch(st['emit']['rows'], i, st['emit']['meta'])})"
        ra = "None" if not st["raise"] else f"(Some {c_exn(st['raise'])})"
        steps.append(f"{{| slogs := [{'; '.join(c_log(l) for l in st['logs'])}]; emit := {em}; fin := {'true' if st['finish'] else 'false'}; sraise := {ra} |}}")
    init = p["init"]
    ires = "InitOk" if init == "ok" else f"(InitRaise {c_exn(init['raise'])})"
    hd = "None" if p["header"] is None else f"(Some {cZ(p['header'])})"
    return f"(PStream {{| ilogs := [{'; '.join(c_log(l) for l in p['init_logs'])}]; ires := {ires}; hdr := {hd}; steps := [{'; '.join(steps)}] |}})"


def c_triple(t: tuple[str, str, str | None] | None) -> str:
    if t is None:
        return "None"
    return f"(Some ({_s(t[0])}, {_s(t[1])}, {'None' if t[2] is None else '(Some ' + _s(t[2]) + ')'}))"


def c_kv(d: list[tuple[str, str]]) -> str:
    return "[" + "; ".join(f"({_s(k)}, {_s(v)})" for k, v in d) + "]"


HEADER = (
    "From Coq Require Import List NArith ZArith Bool.\nFrom VGI Require Import Corr M_Wire M_WireErr.\nImport ListNotations.\nOpen Scope N_scope.\n"
    "Definition repN (c n : N) : list N := N.iter n (cons c) [].\n"
    "Definition o_eqb := option_eqb str_eqb.\n"
    "Definition triple_eqb := option_eqb (pair_eqb (pair_eqb str_eqb str_eqb) o_eqb).\n"
    "Definition hobs_eqb := list_eqb (pair_eqb (pair_eqb N.eqb Bool.eqb) Bool.eqb).\n"
    "Definition legal_c07 (x : prog * script) := legal (fst x) (snd x) && records (snd x) && complete (snd x).\n"
    "Definition p_all (x : bool * (prog * script)) := let r := run_case_pipe (snd x) in (fst r, if fst x then snd r else None, legal_c07 (snd x)).\n"
    "Definition p_eqb (a b : list event * option (str * str * option str) * bool) := trace_eqb (fst (fst a)) (fst (fst b)) && triple_eqb (snd (fst a)) (snd (fst b)) && Bool.eqb (snd a) (snd b).\n"
    "Definition h_all (x : bool * (option N * (prog * script))) := let r := run_case_http (snd x) in (fst (fst r), if fst x then snd (fst r) else None, snd r).\n"
    "Definition h_eqb (a b : list event * option (str * str * option str) * list (N * bool * bool)) := trace_eqb (fst (fst a)) (fst (fst b)) && triple_eqb (snd (fst a)) (snd (fst b)) && hobs_eqb (snd a) (snd b).\n"
    "Definition p_trace (x : bool * (prog * script)) := fst (run_case_pipe (snd x)).\n"
    "Definition p_triple (x : bool * (prog * script)) := snd (run_case_pipe (snd x)).\n"
    "Definition h_trace (x : bool * (option N * (prog * script))) := fst (fst (run_case_http (snd x))).\n"
    "Definition h_triple (x : bool * (option N * (prog * script))) := snd (fst (run_case_http (snd x))).\n"
    "Definition h_resps (x : bool * (option N * (prog * script))) := snd (run_case_http (snd x)).\n"
    "Definition codec_eqb (a b : metadata * option (str * str * str * str * option str)) :=\n"
    "  kv_eqb (fst a) (fst b) && option_eqb (pair_eqb (pair_eqb (pair_eqb (pair_eqb str_eqb str_eqb) str_eqb) str_eqb) o_eqb) (snd a) (snd b).\n"
    "Definition mk_view (c m : str) (k : option str) (tb : str) (ca co : option str) (fr : str) : exc_view :=\n"
    "  {| xe := {| cls := c; emsg := m; kind := k |}; xtb := tb; xcause := ca; xcontext := co; xframes := fr |}.\n"
)


# --------------------------------------------------------------------------- generators
def gen_logs(rng: Any, hi: int = 3) -> list[Any]:
    out = []
    for _ in range(rng.choice([0, 1, 1, 2, hi])):
        lvl = rng.choice(["ERROR", "WARN", "INFO", "DEBUG", "TRACE"])
        extra = {} if rng.random() < 0.6 else {rng.choice(["k", "detail", "code"]): rng.choice(["v", "", "ü"])}
        out.append([lvl, rng.choice(["m", "", "héllo ☃", "l1\nl2", "about to fail"]) + str(rng.randrange(50)), extra])
    return out


def ok_step(rng: Any) -> dict[str, Any]:
    return {"logs": gen_logs(rng, 2), "emit": {"rows": rng.choice([0, 1, 3, 40]), "meta": None if rng.random() < 0.7 else {"k": "v"}}, "finish": False, "raise": None}


def gen_case(rng: Any, exc: list[str] | None, site: str, exc_log: bool = False) -> tuple[str, dict[str, Any], list[Any], dict[str, Any]]:
    """One (kind, program, script, info).  site in unary | init | first | later | after_emit | validate | none."""
    info: dict[str, Any] = {"site": site, "exc": exc, "reached": exc is not None}
    if site == "unary" or (site == "none" and rng.random() < 0.3):
        logs = gen_logs(rng, 4)
        if exc_log:
            logs = logs + [["EXCEPTION", "impl-sent exception log", {}]]
        res = {"raise": exc} if exc is not None else {"ok": rng.choice([0, 1, -5, 2**40])}
        return "unary", {"logs": logs, "result": res}, ["unary"], info
    kind = rng.choice(["producer", "exchange"])
    h = rng.random() < 0.4
    method = kind + ("_h" if h else "")
    n_pre = {"init": rng.choice([0, 2]), "first": 0, "later": rng.choice([1, 2, 4]), "after_emit": rng.choice([0, 1, 3]), "validate": rng.choice([0, 2]),
             "none": rng.choice([0, 1, 3])}[site]
    steps = [ok_step(rng) for _ in range(n_pre)]
    prog: dict[str, Any] = {"init_logs": gen_logs(rng), "init": "ok", "header": rng.randrange(-3, 100), "steps": steps}
    if site == "init":
        prog["init"] = {"raise": exc}
    elif site in ("first", "later"):
        steps.append({"logs": gen_logs(rng, 3) or [["WARN", "about to fail", {}]], "emit": None, "finish": False, "raise": exc})
    elif site == "after_emit":
        steps.append({"logs": gen_logs(rng, 2), "emit": {"rows": 2, "meta": None}, "finish": False, "raise": exc})
    elif site == "validate":
        # the framework's own out.validate() fails inside dispatch: no data batch emitted
        steps.append({"logs": gen_logs(rng, 1), "emit": None, "finish": False, "raise": None})
        info["exc"] = ["RuntimeError", "No data batch was emitted"]
        info["validate"] = True
        info["reached"] = True
    elif site == "none":
        if kind == "producer":
            if rng.random() < 0.6:
                steps.append({"logs": gen_logs(rng, 1), "emit": None if rng.random() < 0.5 else {"rows": 1, "meta": None}, "finish": True, "raise": None})
        if exc_log and steps:
            steps[rng.randrange(len(steps))]["logs"].append(["EXCEPTION", "impl-sent exception log", {}])
        elif exc_log:
            prog["init_logs"].append(["EXCEPTION", "impl-sent exception log", {}])
    steps.extend(ok_step(rng) for _ in range(rng.choice([0, 0, 1])))  # steps after the failing one are never reached
    site_idx = n_pre
    if kind == "producer":
        sc = ["iterate", method, None, 0, "stop"]
    else:
        if site in ("none", "init"):
            n = rng.choice([1, 2, len(steps) + 1])
        else:
            n = rng.choice([site_idx + 1, site_idx + 1, site_idx + 2, site_idx] if site_idx else [1, 1, 2])
            if n <= site_idx:
                info["reached"] = False
        sc = ["exchange", method, None, n, "close"]
    return kind, prog, sc, info


ROUTES = ["unary", "init_producer", "init_exchange", "exchange_first", "exchange_later", "producer_first", "producer_continuation"]


def grid_case(cls: str, route: str, msg: str, header: bool) -> tuple[str, dict[str, Any], list[Any], dict[str, Any]]:
    """Deterministic class x HTTP-route grid: the exception is raised at the dispatch site served by that route kind
    (/{m}, /{m}/init for a producer or an exchange, an /exchange lockstep turn k = 0 / k = 2, the producer turn folded
    into /init, a producer continuation turn on /exchange)."""
    exc = [cls, msg]
    info: dict[str, Any] = {"site": "grid:" + route, "exc": exc, "reached": True}
    if route == "unary":
        return "unary", {"logs": [["INFO", "before", {}]], "result": {"raise": exc}}, ["unary"], info
    ok = {"logs": [["DEBUG", "ok", {}]], "emit": {"rows": 2, "meta": None}, "finish": False, "raise": None}
    bad = {"logs": [["WARN", "about to fail", {}]], "emit": None, "finish": False, "raise": exc}
    kind = "exchange" if "exchange" in route else "producer"
    prog: dict[str, Any] = {"init_logs": [["INFO", "init", {}]], "init": "ok", "header": 5, "steps": []}
    n = 1
    if route.startswith("init_"):
        prog["init"] = {"raise": exc}
        prog["steps"] = [dict(ok)]
    elif route in ("exchange_first", "producer_first"):
        prog["steps"] = [bad, dict(ok)]
    else:
        prog["steps"] = [dict(ok), dict(ok), bad]
        n = 3
    method = kind + ("_h" if header else "")
    sc = ["iterate", method, None, 0, "stop"] if kind == "producer" else ["exchange", method, None, n, "close"]
    return kind, prog, sc, info


def norm_msg(m: str) -> str:
    return CAP_MSG.sub("HTTP body exceeds max_response_bytes", m)


def split_trace(tr: list[list[Any]]) -> tuple[list[list[Any]], list[Any] | None]:
    """(M_Wire-shaped trace, full final error event or None)."""
    out, err = [], None
    for e in tr:
        if e[0] == "error":
            err = e
            out.append(["error", e[1], norm_msg(e[2])])
        else:
            out.append(e)
    return out, err


def translate(ctx: Any) -> None:
    from translate import t_c07_errpath

    ctx.gen("G_WireErr", lambda: t_c07_errpath.module(ctx.repo))


def run(ctx: Any) -> None:
    translate(ctx)
    ctx.prove(
        ["prop/P_C07.vo", "refuted/R_C07.vo"],
        {
            "P_C07": ["C07_type_and_text", "C07_kind_carried_exposed", "C07_event_is_client_error", "C07_reaches_client_socket",
                      "C07_reaches_client_http", "C07_http_failure_is_the_implementations", "C07_marker_iff_failed", "C07_turns_are_the_wire_frames"],
            "R_C07": ["C07_unrepaired_client_drops_kind_refuted"],
        },
    )
    # the tie is built separately: a source that no longer matches the tables breaks the tie obligations only
    ctx.prove(["tie/T_WireErr.vo"], {"T_WireErr": ["wireerr_keys_tie", "wireerr_status_tie", "C07_source_marker", "wireerr_flow_tie", "wireerr_http_sites_tie"]})

    from harness import c07_driver as D
    from harness import interp as I
    from props.C01 import c_cap, c_script

    thorough = ctx.tier == "thorough"
    rng = ctx.rng
    classes = list(D.C07_EXC)
    ABSENT = D._ABSENT

    def kind_of_exposed(x: Any) -> str | None:
        return None if x is ABSENT or x is None else str(x)

    ctx.rule = ("Layer A: case = (exception class, message, server id, request id, chain none/cause/context) through the real "
                "_write_error_batch/_dispatch_log_or_error. Layer S/H: case = (exception class, message, site in unary/init/first/later/"
                "after_emit/validate/none, logs before, method shape, script) over pipe, unix and HTTP x cap {None,1,1e7}, plus the deterministic grid every class x HTTP route kind {unary, init of a producer / an exchange, exchange turn k=0 / k=2, producer turn inside /init, producer continuation} over HTTP; distinct by "
                "(class, message, site, program, script); non-trivial = an exception is raised (or a failing validate)")

    # ======================================================================== Layer A
    codec_cases: list[tuple[str, str]] = []
    codec_keys: list[dict[str, Any]] = []
    t0 = time.time()
    a_list: list[tuple[str, str, str | None, str, str | None]] = []
    for cls in classes:
        for msg in (MESSAGES if thorough else rng.sample(MESSAGES, 4) + [""]):
            a_list.append((cls, msg, rng.choice([None, "srv-1", "sérver"]), rng.choice(["", "rid-42", "ríd"]), rng.choice([None, None, "cause", "context"])))
    a_list.append(("SessionLostError", LONG, "srv", "r", None))
    a_list.append(("ValueError", LONG + "ü", None, "", "cause"))
    for cls, msg, sid, rid, chain in a_list:
        name, text, kind = D.exc_facts(cls, msg)
        r = D.wire_roundtrip(cls, msg, sid, rid, chain)
        ctx.count("impl_runs")
        ctx.case(["A", cls, msg[:64], len(msg), sid, rid, chain])
        ctx.tally("A.class_group", D.group_of(cls))
        ctx.tally("A.chain", chain)
        repl = {"class": cls, "message": msg[:200], "message_len": len(msg), "server_id": sid, "request_id": rid, "chain": chain}
        if not r["json_roundtrip"]:
            ctx.obligation("env:json-roundtrip", "environment", False, f"json.loads(json.dumps(extra)) != extra for {repl}")
        extra, md, err = r["extra"], r["md"], r["error"]
        # ---- oracle on the real code (the statement itself)
        if err is None:
            ctx.violation("error-batch-not-raised-by-client", "the client did not raise on the server's error batch", repl)
            continue
        if err[1] != name:
            ctx.violation("error-type-is-not-the-class-name", f"RpcError.error_type {err[1]!r} != {name!r}", {**repl, "got": err[1]})
        if text not in err[2]:
            ctx.violation("error-message-lost-the-exception-text", "str(exc) is not contained in RpcError.error_message", {**repl, "got": err[2][:300]})
        if kind is not None and md.get("vgi_rpc.error_kind") != kind:
            ctx.violation("error-kind-not-carried-on-the-wire", "vgi_rpc.error_kind missing / different on the error batch", {**repl, "kind": kind, "wire": md.get("vgi_rpc.error_kind")})
        if kind is not None and name in FRAMEWORK_TYPED and kind_of_exposed(err[3]) != kind:
            ctx.violation(KEY_EXPOSE, "the client RpcError does not expose the error kind the server sent (WIRE_PROTOCOL section 8: error_kind)",
                          {**repl, "kind_on_wire": md.get("vgi_rpc.error_kind"), "client_exposes": repr(err[3]), "how": "harness.c07_driver.wire_roundtrip"})
        if kind is None and kind_of_exposed(err[3]) is not None:
            ctx.violation("client-invents-an-error-kind", "an untyped exception is exposed with an error kind", {**repl, "client_exposes": repr(err[3])})
        # ---- model input / expected output
        view = (f"mk_view {_s(name)} {_s(text)} {'None' if kind is None else '(Some ' + _s(kind) + ')'} {_s(extra['traceback'])} "
                f"{'None' if 'cause' not in extra else '(Some ' + _s(extra['cause']) + ')'} {'None' if 'context' not in extra else '(Some ' + _s(extra['context']) + ')'} {_s(str(extra['frames']))}")
        inp = f"({view}, {'None' if sid is None else '(Some ' + _s(sid) + ')'}, {_s(rid)})"
        md_list = [(k, ("<json>" if k == "vgi_rpc.log_extra" else v)) for k, v in md.items()]
        out = (f"({c_kv(md_list)}, Some ({_s(err[1])}, {_s(err[2])}, {_s(err[5])}, {_s(err[6])}, "
               f"{'None' if kind_of_exposed(err[3]) is None else '(Some ' + _s(kind_of_exposed(err[3])) + ')'}))")
        codec_cases.append((inp, out))
        codec_keys.append({**repl, "impl_error": err[:5], "kind": kind})
        # extras shape (keys in order, exception_type/message values) -- what from_exception writes
        want_keys = ["exception_type", "exception_message", "traceback"] + (["cause"] if chain == "cause" else []) + (["context"] if chain in ("cause", "context") and "context" in extra else []) + ["frames"] + (["error_kind"] if kind is not None else [])
        if list(extra) != want_keys or extra["exception_type"] != name or extra["exception_message"] != text or (kind is not None and extra.get("error_kind") != kind):
            ctx.violation("log-extra-shape", "log_extra of the error batch is not what from_exception is modelled to write", {**repl, "keys": list(extra), "want": want_keys})
    ctx.log(f"layer A: {len(a_list)} real codec round trips in {time.time() - t0:.1f}s")
    okA, badA, logA = ctx.coq_mismatches(HEADER, "run_case_codec", "codec_eqb", codec_cases, "exc_view * option str * str",
                                         "metadata * option (str * str * str * str * option str)", shard=40)
    ctx.obligation("correspondence:M_WireErr.run_case_codec", "correspondence", okA and not badA, logA if not okA else f"{len(badA)} of {len(codec_cases)} cases disagree")
    for i in badA[:3]:
        k = codec_keys[i]
        if k["kind"] is not None and kind_of_exposed(k["impl_error"][3]) != k["kind"]:
            ctx.violation(KEY_EXPOSE if k["class"] in FRAMEWORK_TYPED else "client-does-not-expose-error-kind-of-user-typed-error",
                          "model (repaired client) exposes the kind, the implementation does not", k)
        else:
            ctx.violation("model-impl-disagree:codec", "implementation and model build different metadata / client error", k)

    # ======================================================================== Layer S / H
    n_cases = 900 if thorough else 110
    sites = ["unary", "init", "first", "later", "after_emit", "validate", "none"]
    cases: list[dict[str, Any]] = []
    pid = 70000
    plan: list[tuple[list[str] | None, str, bool]] = []
    # every class at least once at a rotating site; every site x class group; success cases; success + EXCEPTION-level log
    for i, cls in enumerate(classes):
        plan.append(([cls, rng.choice(MESSAGES)], sites[i % 5], False))
    for cls in sorted(FRAMEWORK_TYPED):
        for site in sites[:5]:
            plan.append(([cls, rng.choice(MESSAGES)], site, False))
    plan.append((["SessionLostError", LONG], "later", False))
    plan.append((["ValueError", LONG], "unary", False))
    while len(plan) < n_cases:
        r = rng.random()
        if r < 0.12:
            plan.append((None, "none", False))
        elif r < 0.18:
            plan.append((None, "none", True))
        elif r < 0.24:
            plan.append((None, "validate", False))
        else:
            plan.append(([rng.choice(classes), rng.choice(MESSAGES)], rng.choice(sites[:5]), False))
    for exc, site, exc_log in plan:
        pid += 1
        kind, prog, sc, info = gen_case(rng, exc, site, exc_log)
        I.register(pid, prog)
        sc = [sc[0], pid] if sc[0] == "unary" else [sc[0], sc[1], pid, sc[3], sc[4]]
        cases.append({"pid": pid, "kind": kind, "prog": prog, "script": sc, "info": info, "exc_log": exc_log})

    # class x route grid, HTTP only (the status / marker decision is taken per route and may depend on the class: every
    # class -- built-in, subclasses of the classes the request-reading handlers name, user-defined, typed -- at every route)
    n_grid = 0
    for ci, cls in enumerate(classes):
        for ri, route in enumerate(ROUTES):
            pid += 1
            kind, prog, sc, info = grid_case(cls, route, MESSAGES[(ci + ri) % 4] if (ci + ri) % 5 else "grid boom", bool((ci + ri) % 2))
            I.register(pid, prog)
            sc = [sc[0], pid] if sc[0] == "unary" else [sc[0], sc[1], pid, sc[3], sc[4]]
            cases.append({"pid": pid, "kind": kind, "prog": prog, "script": sc, "info": info, "exc_log": False, "grid": route})
            n_grid += 1
    ctx.count("grid_cases", n_grid)

    caps: list[int | None] = [None, 1, BIG]
    m_pipe: list[tuple[str, str]] = []
    m_http: list[tuple[str, str]] = []
    keys_p: list[dict[str, Any]] = []
    keys_h: list[dict[str, Any]] = []
    t1 = time.time()
    for c in cases:
        kind, prog, sc, info = c["kind"], c["prog"], c["script"], c["info"]
        exc = info["exc"]
        reached = info["reached"] and exc is not None
        facts = D.exc_facts(exc[0], exc[1]) if exc is not None and not info.get("validate") else (("RuntimeError", "No data batch was emitted", None) if info.get("validate") else None)
        ctx.case(["S", exc[0] if exc else None, (exc[1][:64], len(exc[1])) if exc else None, info["site"], prog if not exc or len(exc[1]) < 1000 else c["pid"], sc[0], sc[1:2] if kind != "unary" else [], sc[3:]],
                 nontrivial=exc is not None)
        ctx.tally("site", info["site"])
        ctx.tally("class_group", D.group_of(exc[0]) if exc and not info.get("validate") else ("validate" if info.get("validate") else "none"))
        ctx.tally("method", "unary" if kind == "unary" else sc[1])
        ctx.tally("reached", reached)
        ctx.tally("message_len", "0" if exc and not exc[1] else ("64KiB" if exc and len(exc[1]) >= 65536 else ("long" if exc and len(exc[1]) >= 300 else "short")) if exc else "n/a")
        repl = {"program": prog if not exc or len(exc[1]) < 1000 else "<64KiB message>", "script": sc, "site": info["site"], "exception": [exc[0], exc[1][:200]] if exc else None}

        def check_final(transport: str, err: list[Any] | None, cap_hit: bool = False) -> None:
            """The statement on the real client error (independent of the model)."""
            if c["exc_log"]:
                return
            if not reached:
                if err is not None and not cap_hit:
                    ctx.violation("error-without-a-failing-dispatch", f"{transport}: the client raised although no dispatch on its path fails", {**repl, "transport": transport, "got": err[:5]})
                return
            if cap_hit:
                return
            name, text, kind_ = facts  # type: ignore[misc]
            if err is None:
                ctx.violation("implementation-error-did-not-reach-the-client", f"{transport}: no RpcError although the implementation raised", {**repl, "transport": transport})
                return
            if err[1] != name:
                ctx.violation("error-type-is-not-the-class-name", f"{transport}: error_type {err[1]!r} != {name!r}", {**repl, "transport": transport, "got": err[:3]})
            if text not in err[2]:
                ctx.violation("error-message-lost-the-exception-text", f"{transport}: str(exc) not contained in error_message", {**repl, "transport": transport, "got": err[2][:300]})
            if kind_ is not None and name in FRAMEWORK_TYPED and kind_of_exposed(err[3]) != kind_:
                ctx.violation(KEY_EXPOSE, "the client RpcError does not expose the error kind the server sent (WIRE_PROTOCOL section 8: error_kind)",
                              {**repl, "transport": transport, "kind": kind_, "client_exposes": repr(err[3])})
            if kind_ is None and kind_of_exposed(err[3]) is not None:
                ctx.violation("client-invents-an-error-kind", f"{transport}: untyped exception exposed with a kind", {**repl, "transport": transport, "client_exposes": repr(err[3])})

        ps = f"({c_prog(kind, prog)}, {c_script(sc, 'record')})"
        cmp_triple = "false" if c["exc_log"] else "true"
        # ---- socket family
        pipe_tr = None
        grid = c.get("grid")
        if grid:
            ctx.tally("grid_route", grid)
        for tk in (() if grid else ("pipe", "unix")):
            tr, err = split_trace(D.run_socket(tk, sc))
            ctx.count("impl_runs")
            if any(e[0] in ("blocked", "client_exc") for e in tr):
                ctx.violation("client-blocked-or-crashed", f"{tk}: the client blocked or a non-RpcError escaped", {**repl, "transport": tk, "trace": tr[-3:]})
            check_final(tk, err)
            if pipe_tr is None:
                pipe_tr = (tr, err)
            elif (tr, err[:5] if err else None) != (pipe_tr[0], pipe_tr[1][:5] if pipe_tr[1] else None):
                ctx.violation("socket-transports-differ", "pipe and unix observe differently", {**repl, "pipe": pipe_tr[0][-3:], "unix": tr[-3:]})
        if pipe_tr is not None:
            tr, err = pipe_tr
            tri = "None" if c["exc_log"] else c_triple(None if err is None else (err[1], norm_msg(err[2]), kind_of_exposed(err[3])))
            m_pipe.append((f"({cmp_triple}, {ps})", f"({c_trace7(tr)}, {tri}, true)"))
            keys_p.append({**repl, "transport": "pipe", "impl_trace_tail": [e[:3] if e[0] != "error" else [e[0], e[1], e[2][:200]] for e in tr[-3:]], "impl_error_kind": None if err is None else repr(err[3])})
        # ---- HTTP
        for cap in ([None] if grid else caps):
            tr, resps = D.run_http(cap, sc)
            tr, err = split_trace(tr)
            ctx.count("impl_runs")
            if any(e[0] in ("blocked", "client_exc") for e in tr):
                ctx.violation("client-blocked-or-crashed", f"http cap={cap}: the client blocked or a non-RpcError escaped", {**repl, "cap": cap, "trace": tr[-3:]})
            cap_hit = err is not None and err[1] == "RuntimeError" and "HTTP body exceeds max_response_bytes" in err[2]
            check_final(f"http(cap={cap})", err, cap_hit)
            obs = []
            for r in resps:
                ebs = D.error_batches(r["body"])
                marker = r["marker"] is not None
                obs.append((r["status"], marker, bool(ebs)))
                route_kind = "unary" if kind == "unary" else ("init" if r["url"].endswith("/init") else ("exchange-turn" if kind == "exchange" else "producer-continuation"))
                ctx.tally("http_route", route_kind + ("/failed" if ebs else "/ok"))
                rr = {**repl, "cap": cap, "url": r["url"], "route_kind": route_kind, "status": r["status"], "marker": r["marker"], "error_batches": len(ebs)}
                ctx.tally("http_response", f"{r['status']}/{'marker' if marker else 'plain'}/{'err' if ebs else 'ok'}")
                if r["status"] != 200:
                    ctx.violation("http-dispatched-call-status-not-200", "a dispatched call was answered with a status other than 200", rr)
                if ebs and not (marker and r["marker"] == "true"):
                    ctx.violation("http-error-response-without-marker", "a response carrying an error batch lacks X-VGI-RPC-Error: true", rr)
                if marker and not ebs:
                    ctx.violation("http-marker-on-successful-response", "a response without an error batch carries X-VGI-RPC-Error", rr)
                for eb in ebs:
                    if facts is not None and reached and not cap_hit and facts[2] is not None and eb["md"].get("vgi_rpc.error_kind") != facts[2]:
                        ctx.violation("error-kind-not-carried-on-the-wire", "vgi_rpc.error_kind missing / different on the HTTP error batch", {**rr, "kind": facts[2]})
            if reached and not cap_hit and not c["exc_log"] and obs and obs[-1] != (200, True, True):
                ctx.violation("http-failed-dispatch-not-200-marker-error-batch", "the response of the failed dispatched call is not 200 + X-VGI-RPC-Error + error batch",
                              {**repl, "cap": cap, "url": resps[-1]["url"], "last_response": obs[-1]})
            if reached and not cap_hit and not c["exc_log"] and not any(o[1] for o in obs):
                ctx.violation("http-error-response-without-marker", "the implementation raised but no response of the call carries the marker", {**repl, "cap": cap, "responses": obs})
            hs = f"({cmp_triple}, ({c_cap(cap)}, {ps}))"
            tri = "None" if c["exc_log"] else c_triple(None if err is None else (err[1], norm_msg(err[2]), kind_of_exposed(err[3])))
            robs = "[" + "; ".join(f"({s_}%N, {'true' if m_ else 'false'}, {'true' if e_ else 'false'})" for s_, m_, e_ in obs) + "]"
            m_http.append((hs, f"({c_trace7(tr)}, {tri}, {robs})"))
            keys_h.append({**repl, "cap": cap, "impl_trace_tail": [e[:3] if e[0] != "error" else [e[0], e[1], e[2][:200]] for e in tr[-3:]], "impl_responses": obs,
                           "impl_error_kind": None if err is None else repr(err[3])})
    ctx.log(f"layer S/H: {len(cases)} cases, {ctx.counters.get('impl_runs', 0)} implementation runs in {time.time() - t1:.1f}s")
    for smp in cases[:3]:
        ctx.sample({"program": smp["prog"], "script": smp["script"], "site": smp["info"]["site"]})

    ty = "bool * (prog * script)"
    tyh = "bool * (option N * (prog * script))"
    tt = "option (str * str * option str)"
    runs = [
        ("run_case_pipe", "p_all", "p_eqb", m_pipe, ty, f"list event * {tt} * bool", keys_p,
         [("trace", "p_trace"), ("error-triple", "p_triple")]),
        ("run_case_http", "h_all", "h_eqb", m_http, tyh, f"list event * {tt} * list (N * bool * bool)", keys_h,
         [("trace", "h_trace"), ("error-triple", "h_triple"), ("responses", "h_resps")]),
    ]
    for name, fn, eqb, lst, ity, oty, keys, parts in runs:
        ok, bad, lg = ctx.coq_mismatches(HEADER, fn, eqb, lst, ity, oty, shard=24)
        ctx.obligation(f"correspondence:M_WireErr.{name}", "correspondence", ok and not bad, lg if not ok else f"{len(bad)} of {len(lst)} cases disagree (trace, error triple, {'legal' if fn == 'p_all' else 'responses'})")
        ctx.count("model_cases", len(lst))
        for i in bad[:3]:
            shown = " | ".join(f"{pn}: " + ctx.coq_show(HEADER, f"{pf} {lst[i][0]}")[-700:] for pn, pf in parts)
            k = keys[i]
            exposed_gap = k.get("impl_error_kind") == repr(ABSENT) and "Some" in shown.split("error-triple:")[1].split("responses:")[0][-120:]
            ctx.violation("model-impl-disagree:" + name + (":exposed-kind" if exposed_gap else ""), "implementation and model observe differently",
                          {"case": k, "impl": lst[i][1][-1500:], "model": shown})
    ctx.assumptions += [
        "json.loads(json.dumps(extra)) == extra for the extras Message.from_exception writes (Section hypothesis loads_dumps; checked on every real case)",
        "Arrow custom-metadata transport and UTF-8 encode/decode are the identity on well-formed Unicode text (model: code-point strings); lone surrogates are outside",
        "exception = Exception subclass; BaseException-only classes (KeyboardInterrupt, SystemExit, GeneratorExit) are not implementation errors",
        "FIFO byte channels: pipe and unix stand for the socket family (C01 checks tcp / shm-pipe / subprocess against them)",
        "HTTP through the in-process Falcon app (falcon.testing / make_sync_client); no real sockets in the sandbox",
        "site theorems inherit C01's side conditions: recording on_log callback, no EXCEPTION-level client logs, the socket client reads, complete script",
    ]
