"""C28 Shared-memory allocations never overlap or overflow.

proof         : coq/prop/P_C28.v over model/M_Alloc.v (allocation table as `list (N * N)` in header order, scanned
                exactly as ShmAllocator.allocate / free do; `_ShmSink` cursor with its limit; allocate_and_write)
regenerated   : HEADER_SIZE, struct formats (field widths, count position), MAX_ALLOCS expression, _STREAM_OVERHEAD,
                len(_IPC_EOS), every guard / arithmetic expression of allocate, free, _ShmSink.write and the direct path
                of allocate_and_write (translate/t_c28_alloc.py -> gen/G_Alloc.v; tie/T_Alloc.v); the statements around
                the expressions are compared verbatim with the modelled control-flow skeleton (fail-closed)
correspondence: (a) EVERY reachable table of segments with 1..D data bytes x EVERY operation (allocate -1..D+1, free of
                every offset of the region +-1, reset) on a real ShmSegment, header parsed by the harness itself;
                (b) random histories on medium / large segments, table after every operation;
                (c) long histories and a table at the 4094-entry limit; (d) real allocate_and_write / maybe_write_to_shm
                of generated batches (narrow, wide, large schema metadata, nested dictionaries, dictionary columns)
                into prepared tables with live neighbours, with the sizes asked from the allocator and the lengths of
                the write() calls observed -> model run_write / run_copy.
oracle        : on the real header after every operation: sorted, pairwise disjoint, inside [HEADER_SIZE, total),
                <= 4094 entries, positive lengths; allocate -> None only if the table is full or no gap fits (computed
                independently from the table before); free removes exactly the named entry; on every write: every byte
                of the segment outside the entry the batch was given is unchanged (other live batches, header fields).

Readings adopted where the statement leaves room:
  * "fails only when no gap is large enough": a refusal is also legitimate when the table already holds 4094 entries
    (the limit the statement itself names); both causes are spelled out in C28_first_fit_complete.
  * the statement does not demand first-fit / lowest offset; the oracle does not either (the model, being the code, does).
  * "never extends beyond its own allocation": the bytes the write call alters and the (offset, length) it returns lie
    inside the table entry created for it.  A write that falls back to the inline path (returns None) must leave the
    table as it was and must not have altered any live batch; bytes in free space are not protected by the statement.
"""
from __future__ import annotations

import random
import struct
from typing import Any

META = {
    "id": "C28",
    "technique": "Coq proof (inductive invariant over all operation histories, first-fit completeness/minimality, bounded sink) + regenerated constants and guards + differential correspondence on real segments",
    "level_text": "Coq theorems for ALL histories of allocate(any integer)/free(any offset)/reset on segments of any size: every reachable "
    "header table is strictly sorted, pairwise disjoint, inside [HEADER_SIZE,total) and at most 4094 entries; allocate returns None iff the "
    "table is full or no address range of that size is free, otherwise the lowest fitting offset, adding exactly that entry; free removes "
    "exactly the named entry; for ANY estimate and ANY sequence of write() calls the direct write alters no byte of another live batch, of "
    "the header or outside the segment, the returned (offset, length) lies inside its own entry, and the inline fallback restores the table. "
    "Constants, header layout and every guard expression are regenerated from vgi_rpc/shm.py on each run and proved equal to the model's; "
    "the hand-written control-flow skeleton is tied by exhaustive state x operation correspondence on tiny real segments, random histories "
    "on large ones and observed real writes.",
    "level_note": "Trusted: Coq kernel (vm_compute), translate/t_c28_alloc.py (verbatim skeleton comparison + expression translator), the harness "
    "(its own header parser, a recording subclass of _ShmSink, a recording proxy around the allocator). Modelled not verified: struct "
    "pack/unpack of the header (checked by the harness parsing the raw header itself), Python list insert/pop, memoryview slice assignment "
    "(writes exactly the bytes it is given at the given position), Arrow's stream writer as an arbitrary sequence of write() calls "
    "(the theorem quantifies over all sequences; the real sequences are observed). Lockstep use (one side active at a time) is assumed by "
    "the code and by the model: no concurrent mutation of the header.",
    "design_ref": "§5 C28",
}

HDR = "From Coq Require Import List NArith ZArith Bool.\nFrom VGI Require Import M_Alloc Corr.\nImport ListNotations.\nOpen Scope N_scope."
T_EQB = "(list_eqb (pair_eqb N.eqb N.eqb))"
P_EQB = "(pair_eqb N.eqb N.eqb)"


# ---------------------------------------------------------------------------
# harness: the harness's own view of the header (independent of _read_allocs)
# ---------------------------------------------------------------------------
def parse_header(buf: Any) -> tuple[bytes, int, int, int, list[tuple[int, int]]]:
    """Documented layout: magic(4) version(u32) data_size(u64) num_allocs(u32 at byte 16) pad(4) then (u64,u64) entries."""
    magic = bytes(buf[0:4])
    version = struct.unpack_from("<I", buf, 4)[0]
    data_size = struct.unpack_from("<Q", buf, 8)[0]
    count = struct.unpack_from("<I", buf, 16)[0]
    entries = [struct.unpack_from("<QQ", buf, 24 + 16 * i) for i in range(count)]
    return magic, version, data_size, count, [(int(a), int(b)) for a, b in entries]


def table_of(buf: Any) -> list[tuple[int, int]]:
    return parse_header(buf)[4]


def wf_problems(table: list[tuple[int, int]], total: int, header_size: int) -> list[str]:
    """The four clauses of the statement, evaluated directly on a table."""
    out = []
    if len(table) > 4094:
        out.append(f"{len(table)} entries > 4094")
    for i, (o, ln) in enumerate(table):
        if ln <= 0:
            out.append(f"entry {i} has length {ln}")
        if o < header_size or o + ln > total:
            out.append(f"entry {i} ({o},{ln}) outside the data region [{header_size},{total})")
        if i and not table[i - 1][0] < o:
            out.append(f"entries {i-1},{i} not sorted by offset")
    for i in range(len(table)):
        for j in range(i + 1, min(len(table), i + 3) if len(table) > 64 else len(table)):
            (a, al), (b, bl) = table[i], table[j]
            if not (a + al <= b or b + bl <= a):
                out.append(f"entries {i},{j} overlap: ({a},{al}) ({b},{bl})")
    return out


def largest_gap(table: list[tuple[int, int]], total: int, header_size: int) -> int:
    """Largest run of addresses of the data region not covered by any entry (works on any table, sorted or not)."""
    best, pos = 0, header_size
    for o, ln in sorted(table):
        if o > pos:
            best = max(best, min(o, total) - pos)
        pos = max(pos, o + ln)
    return max(best, total - pos)


class Seg:
    """A real ShmSegment plus what the harness needs to observe it."""

    def __init__(self, shm_mod: Any, data: int):
        self.mod = shm_mod
        self.seg = shm_mod.ShmSegment.create(shm_mod.HEADER_SIZE + data)
        self.total = self.seg.size
        self.alloc = self.seg.allocator

    def reinit(self) -> None:
        self.mod.ShmAllocator.initialize(self.seg.buf, self.total)

    def close(self) -> None:
        try:
            self.seg.close()
        finally:
            self.seg.unlink()

    def apply(self, op: tuple[str, int]) -> tuple[int, int]:
        """Run one operation on the real allocator; result code as in M_Alloc.result_code (99 = anything else)."""
        kind, arg = op
        try:
            if kind == "A":
                r = self.alloc.allocate(arg)
                return (1, 0) if r is None else (0, int(r))
            if kind == "F":
                r = self.alloc.free(arg)
                return (3, 0) if r is None else (99, 0)
            self.seg.reset()
            return (3, 0)
        except ValueError:
            return (2, 0)
        except Exception as e:  # noqa: BLE001 - any other exception is an observable the model cannot produce
            return (99, hash(type(e).__name__) % 1000)


def c_op(op: tuple[str, int]) -> str:
    kind, arg = op
    if kind == "A":
        return f"(OAlloc ({arg})%Z)"
    if kind == "F":
        return f"(OFree {arg})"
    return "OReset"


def c_table(t: list[tuple[int, int]]) -> str:
    return "([" + "; ".join(f"({o}, {ln})" for o, ln in t) + "] : table)"


def c_res(r: tuple[int, int]) -> str:
    return f"({r[0]}, {r[1]})"


def judge_step(ctx: Any, total: int, hs: int, before: list[tuple[int, int]], op: tuple[str, int], res: tuple[int, int], after: list[tuple[int, int]], replay: dict[str, Any]) -> None:
    """The property's own predicate on one real operation (independent of the model)."""
    for pb in wf_problems(after, total, hs):
        ctx.violation("table-not-wellformed", pb, {**replay, "before": before[:50], "op": op, "after": after[:50]})
    kind, arg = op
    code, val = res
    if code == 99:
        ctx.violation("allocator-unexpected-exception", f"operation {op} raised something other than ValueError", {**replay, "before": before[:50], "op": op})
    if kind == "A":
        if code == 0:
            exp = sorted(before + [(val, arg)])
            if sorted(after) != exp:
                ctx.violation("allocate-table-change-wrong", "after a successful allocate the table is not the old one plus (offset, size)", {**replay, "before": before[:50], "op": op, "offset": val, "after": after[:50]})
        else:
            if after != before:
                ctx.violation("failed-allocate-changes-table", "an allocate that did not succeed changed the table", {**replay, "before": before[:50], "op": op, "after": after[:50]})
            if code == 1 and arg > 0 and len(before) < 4094 and largest_gap(before, total, hs) >= arg:
                ctx.violation("allocate-fails-with-gap", f"allocate({arg}) returned None although a gap of {largest_gap(before, total, hs)} bytes exists and the table has {len(before)} entries", {**replay, "before": before[:50], "op": op})
            if code == 1 and arg <= 0:
                ctx.violation("allocate-nonpositive-not-refused", "allocate of a non-positive size did not raise", {**replay, "op": op})
            if code == 2 and arg > 0:
                ctx.violation("allocate-positive-raises", "allocate of a positive size raised ValueError", {**replay, "before": before[:50], "op": op})
    elif kind == "F":
        present = [e for e in before if e[0] == arg]
        if code == 3:
            exp = [e for e in before if e[0] != arg]
            if not present or after != exp:
                ctx.violation("free-not-exact", "free did not remove exactly the entry starting at the offset", {**replay, "before": before[:50], "op": op, "after": after[:50]})
        else:
            if present or after != before:
                ctx.violation("free-refused-or-changed", "free of a live offset failed, or a failed free changed the table", {**replay, "before": before[:50], "op": op, "after": after[:50]})
    else:
        if after:
            ctx.violation("reset-leaves-entries", "reset left entries in the table", {**replay, "after": after[:50]})


# ---------------------------------------------------------------------------
# batches for the write path
# ---------------------------------------------------------------------------
def make_batch(rng: Any, kind: str) -> Any:
    import pyarrow as pa

    rows = rng.choice([1, 2, 7, 50, 300])
    if kind == "narrow":
        n = rng.randrange(1, 9)
        cols = [pa.array([rng.randrange(1 << 40) for _ in range(rows)], pa.int64()) for _ in range(n)]
        return pa.RecordBatch.from_arrays(cols, names=[f"c{i}" for i in range(n)])
    if kind == "strings":
        n = rng.randrange(1, 5)
        cols = [pa.array(["x" * rng.randrange(0, 200) for _ in range(rows)], pa.string()) for _ in range(n)]
        return pa.RecordBatch.from_arrays(cols, names=[f"s{i}" for i in range(n)])
    if kind == "wide":
        n = rng.choice([40, 60, 70, 80, 120, 200, 400])
        w = rng.choice([4, 12, 24, 60])
        rows = rng.choice([1, 3, 20])
        cols = [pa.array([i] * rows, pa.int64()) for i in range(n)]
        return pa.RecordBatch.from_arrays(cols, names=[f"{'n' * w}_{i:04d}" for i in range(n)])
    if kind == "wide_big":  # above SHM_MIN_BATCH_BYTES, for maybe_write_to_shm
        n = rng.choice([90, 150, 300])
        rows = 200_000 // (8 * n) + 40
        cols = [pa.array(list(range(rows)), pa.int64()) for _ in range(n)]
        return pa.RecordBatch.from_arrays(cols, names=[f"column_with_a_long_name_{i:04d}" for i in range(n)])
    if kind == "schema_md":
        md = {b"k%d" % i: bytes(rng.randrange(32, 127) for _ in range(rng.choice([10, 900, 3000, 9000]))) for i in range(rng.randrange(1, 4))}
        fmd = {b"doc": b"d" * rng.choice([0, 50, 5000])}
        schema = pa.schema([pa.field("a", pa.int64(), metadata=fmd), pa.field("b", pa.string())], metadata=md)
        return pa.RecordBatch.from_arrays([pa.array(list(range(rows)), pa.int64()), pa.array(["v"] * rows, pa.string())], schema=schema)
    if kind == "nested_dict":
        vals = [f"{'v' * rng.choice([3, 300, 1500])}{i}" for i in range(rng.choice([2, 10, 40]))]
        inner = pa.array([rng.choice(vals) for _ in range(rows * 2)], pa.string()).dictionary_encode()
        if rng.random() < 0.5:
            arr = pa.ListArray.from_arrays(pa.array(list(range(0, rows * 2 + 1, 2)), pa.int32()), inner)
            return pa.RecordBatch.from_arrays([arr], names=["l"])
        arr = pa.StructArray.from_arrays([inner.slice(0, rows)], names=["d"])
        return pa.RecordBatch.from_arrays([arr, pa.array(list(range(rows)), pa.int64())], names=["s", "x"])
    if kind == "dict":
        vals = [f"{'k' * rng.choice([1, 100, 2000])}{i}" for i in range(rng.choice([1, 5, 60]))]
        d = pa.array([rng.choice(vals) for _ in range(rows)], pa.string()).dictionary_encode()
        cols, names = [d, pa.array(list(range(rows)), pa.int32())], ["d", "i"]
        if rng.random() < 0.4:  # dictionary column in a wide schema: still the dictionary path
            extra = rng.choice([50, 150])
            cols += [pa.array([1] * rows, pa.int8()) for _ in range(extra)]
            names += [f"wide_dictionary_schema_{i:04d}" for i in range(extra)]
        return pa.RecordBatch.from_arrays(cols, names=names)
    if kind.startswith("boundary"):
        # schema metadata padded so that the stream misses / meets / exceeds the estimate by a few bytes
        pad = int(kind.split(":")[1])
        schema = pa.schema([pa.field("a", pa.int64())], metadata={b"p": b"p" * pad})
        return pa.RecordBatch.from_arrays([pa.array(list(range(rows)), pa.int64())], schema=schema)
    raise AssertionError(kind)


KINDS = ["narrow", "strings", "wide", "schema_md", "nested_dict", "dict"]


def boundary_pads(shm_mod: Any, scratch: "Seg") -> dict[int, int]:
    """Metadata paddings for which (stream bytes - bytes asked from the allocator) is -16, -8, 0, +8, +16 (observed, not computed)."""
    found: dict[int, int] = {}
    rng = random.Random(0)
    for pad in range(3800, 4300):
        scratch.reinit()
        ob = observe_write(shm_mod, scratch, make_batch(rng, f"boundary:{pad}"), False)
        allocs = [c for c in ob["alloc_calls"] if c[0] == "A"]
        if len(allocs) == 1 and len(ob["sinks"]) == 1:
            delta = sum(ob["sinks"][0]["chunks"]) - allocs[0][1]
            if delta in (-16, -8, 0, 8, 16) and delta not in found:
                found[delta] = pad
        if len(found) == 5:
            break
    return found


class AllocProxy:
    """Records what allocate_and_write asks from the real allocator and delegates."""

    def __init__(self, inner: Any):
        self._inner = inner
        self.calls: list[tuple[Any, ...]] = []

    def allocate(self, size: int) -> Any:
        r = self._inner.allocate(size)
        self.calls.append(("A", int(size), None if r is None else int(r)))
        return r

    def free(self, offset: int) -> None:
        self.calls.append(("F", int(offset)))
        self._inner.free(offset)

    def __getattr__(self, name: str) -> Any:
        return getattr(self._inner, name)


def observe_write(shm_mod: Any, s: Seg, batch: Any, via_maybe: bool) -> dict[str, Any]:
    """Run the real write with recording sink / allocator proxy; return everything observed."""
    import pyarrow as pa

    orig_sink = shm_mod._ShmSink
    log: list[dict[str, Any]] = []

    class RecSink(orig_sink):  # type: ignore[misc, valid-type]
        def __init__(self, *a: Any, **k: Any) -> None:
            super().__init__(*a, **k)
            log.append({"start": int(self._pos), "limit": getattr(self, "_limit", None), "chunks": []})

        def write(self, data: Any) -> int:
            log[-1]["chunks"].append(memoryview(data).nbytes)
            return super().write(data)

    proxy = AllocProxy(s.alloc)
    before_bytes = bytes(s.seg.buf)
    before_table = table_of(s.seg.buf)
    shm_mod._ShmSink = RecSink
    s.seg._allocator = proxy
    exc = None
    res: Any = None
    try:
        if via_maybe:
            out, cm = shm_mod.maybe_write_to_shm(batch, None, s.seg)
            if cm is not None and cm.get(shm_mod.SHM_OFFSET_KEY) is not None:
                res = (int(cm.get(shm_mod.SHM_OFFSET_KEY)), int(cm.get(shm_mod.SHM_LENGTH_KEY)))
            elif out is not batch:
                exc = "maybe_write_to_shm returned neither a pointer nor the batch"
        else:
            r = s.seg.allocate_and_write(batch)
            res = None if r is None else (int(r[0]), int(r[1]))
    except Exception as e:  # noqa: BLE001 - observable
        exc = f"{type(e).__name__}: {e}"
    finally:
        shm_mod._ShmSink = orig_sink
        s.seg._allocator = s.alloc
    after_bytes = bytes(s.seg.buf)
    after_table = table_of(s.seg.buf)
    is_dict = any(pa.types.is_dictionary(f.type) for f in batch.schema)
    return {
        "before_table": before_table, "after_table": after_table, "result": res, "exc": exc, "sinks": log,
        "alloc_calls": proxy.calls, "before": before_bytes, "after": after_bytes, "dict_path": is_dict,
    }


def changed_ranges(a: bytes, b: bytes, lo: int, hi: int) -> list[tuple[int, int]]:
    """Maximal ranges in [lo, hi) where a and b differ (coarse-to-fine, so unchanged megabytes cost one compare)."""
    out: list[tuple[int, int]] = []

    def rec(x: int, y: int) -> None:
        if a[x:y] == b[x:y]:
            return
        if y - x <= 64:
            for i in range(x, y):
                if a[i] != b[i]:
                    if out and out[-1][1] == i:
                        out[-1] = (out[-1][0], i + 1)
                    else:
                        out.append((i, i + 1))
            return
        m = (x + y) // 2
        rec(x, m)
        rec(m, y)

    rec(lo, hi)
    return out


def judge_write(ctx: Any, s: Seg, hs: int, ob: dict[str, Any], replay: dict[str, Any]) -> None:
    bt, at, res = ob["before_table"], ob["after_table"], ob["result"]
    for pb in wf_problems(at, s.total, hs):
        ctx.violation("table-not-wellformed", pb, {**replay, "before": bt, "after": at})
    if ob["exc"] is not None:
        ctx.violation("write-raises", f"the write raised {ob['exc']}", {**replay, "before_table": bt, "after_table": at, "sinks": ob["sinks"]})
    # header: fixed fields intact
    if ob["after"][:16] != ob["before"][:16]:
        ctx.violation("write-alters-header", "magic / version / data_size changed", replay)
    own: tuple[int, int] | None = None
    if res is not None:
        off, ln = res
        mine = [e for e in at if e[0] == off]
        if len(mine) != 1 or sorted(at) != sorted(bt + mine):
            ctx.violation("write-table-change-wrong", "after a write the table is not the old one plus one entry at the returned offset", {**replay, "before_table": bt, "after_table": at, "result": res})
        else:
            own = mine[0]
            if ln > own[1] or ln <= 0:
                ctx.violation(
                    "direct-write-length-exceeds-allocation",
                    f"the write returned length {ln} for an allocation of {own[1]} bytes",
                    {**replay, "before_table": bt, "after_table": at, "result": res, "sinks": ob["sinks"]},
                )
    elif ob["exc"] is None and at != bt:
        ctx.violation("fallback-leaves-allocation", "the write fell back to inline but the table changed", {**replay, "before_table": bt, "after_table": at})
    # bytes: everything in the data region outside the own entry must be unchanged when the write succeeded;
    # live batches must be unchanged in every case
    diffs = changed_ranges(ob["before"], ob["after"], hs, s.total)
    for a, b in diffs:
        hit = [e for e in bt if a < e[0] + e[1] and e[0] < b]
        if hit:
            ctx.violation(
                "direct-write-alters-live-batch",
                f"bytes [{a},{b}) of live allocation {hit[0]} changed during the write of another batch",
                {**replay, "before_table": bt, "after_table": at, "result": res, "changed": [a, b], "sinks": ob["sinks"]},
            )
        elif own is not None and not (own[0] <= a and b <= own[0] + own[1]):
            ctx.violation(
                "direct-write-exceeds-allocation",
                f"bytes [{a},{b}) outside the batch's own allocation {own} changed",
                {**replay, "before_table": bt, "after_table": at, "result": res, "changed": [a, b], "sinks": ob["sinks"]},
            )


def prepare_table(rng: Any, s: Seg, want: int) -> None:
    """Live neighbours around a hole of `want` bytes (the adversarial layout), or a random layout."""
    s.reinit()
    buf = s.seg.buf
    mode = rng.choice(["tight", "tight", "slack", "random", "empty", "end"])
    if mode == "empty":
        return
    if mode == "end":  # only the tail of the segment is free, exactly / almost `want` bytes
        free_tail = want + rng.choice([0, 0, 8, 64, 3000])
        fill = s.total - s.mod.HEADER_SIZE - free_tail
        if fill > 0:
            o = s.alloc.allocate(fill)
            if o is not None:
                buf[o : o + fill] = b"\xa5" * fill
        return
    lead = rng.choice([16, 300, 5000])
    hole = want + (0 if mode == "tight" else rng.choice([8, 100, 4096])) if mode != "random" else rng.randrange(64, 40000)
    sizes = [lead, hole, rng.choice([64, 1000, 20000]), rng.choice([8, 512])]
    offs = []
    for z in sizes:
        o = s.alloc.allocate(z)
        if o is None:
            break
        buf[o : o + z] = bytes([0xA0 + len(offs)]) * z
        offs.append(o)
    if len(offs) >= 2:
        s.alloc.free(offs[1])
    if len(offs) == 4 and rng.random() < 0.3:
        s.alloc.free(offs[3])


# ---------------------------------------------------------------------------
def translate(ctx: Any) -> None:
    from translate import t_c28_alloc

    ctx.gen("G_Alloc", lambda: t_c28_alloc.generate(ctx.repo / "vgi_rpc" / "shm.py"))


THEOREMS = {
    "P_C28": [
        "C28_inv", "C28_inv_from", "C28_first_fit_complete", "C28_alloc_outcomes", "C28_first_fit_least", "C28_free_exact",
        "C28_write_within_allocation", "C28_write_table_is_history", "C28_copy_within_allocation", "C28_table_fits_header",
    ],
    "T_Alloc": ["tie_constants", "tie_layout", "src_allocate_eq", "tie_sink_guard", "tie_sink_limit", "C28_source_inv", "C28_source_first_fit_complete", "C28_source_fallback"],
    "R_C28": ["C28_old_write_refuted"],
}


def run(ctx: Any) -> None:
    translate(ctx)
    ctx.prove(["prop/P_C28.vo", "tie/T_Alloc.vo", "refuted/R_C28.vo"], THEOREMS)

    import vgi_rpc.shm as shm_mod

    hs = 65536  # the statement's data region starts after the 64 KiB header; the source constant is tied in T_Alloc
    ctx.obligation("env:header-size", "environment", shm_mod.HEADER_SIZE == hs and shm_mod.MAX_ALLOCS == 4094, f"HEADER_SIZE={shm_mod.HEADER_SIZE} MAX_ALLOCS={shm_mod.MAX_ALLOCS}")
    quick = ctx.tier == "quick"
    ctx.rule = (
        "allocator cases = (segment size, table, operation): (a) all reachable tables of 1..D-byte data regions x all operations "
        "(allocate -1..D+1, free HEADER-1..HEADER+D, reset), (b) random histories (sizes skewed to the free space, frees of live / dead offsets), "
        "(c) long histories and the 4094-entry limit; write cases = (prepared table with live neighbours, generated batch kind); "
        "non-trivial = the operation changes the table or is refused for lack of space / a write meets a non-empty table"
    )
    step_cases: list[tuple[str, str]] = []
    step_keys: list[dict[str, Any]] = []

    # ---- (a) exhaustive: every reachable table x every operation on tiny real segments -------------
    D = 6 if quick else 7
    n_states = 0
    for d in range(1, D + 1):
        s = Seg(shm_mod, d)
        try:
            if s.total != hs + d:
                ctx.obligation("env:tiny-segment-size", "environment", False, f"asked {hs + d}, got {s.total}")
                continue
            ops = [("A", z) for z in range(-1, d + 2)] + [("F", o) for o in range(hs - 1, hs + d + 1)] + [("R", 0)]
            paths: dict[tuple[tuple[int, int], ...], list[tuple[str, int]]] = {(): []}
            frontier: list[tuple[tuple[int, int], ...]] = [()]
            while frontier:
                nxt = []
                for st in frontier:
                    for op in ops:
                        s.reinit()
                        for p in paths[st]:
                            s.apply(p)
                        before = table_of(s.seg.buf)
                        if tuple(before) != st:
                            ctx.violation("replay-not-deterministic", "the same history gave a different table", {"total": s.total, "ops": paths[st]})
                        res = s.apply(op)
                        after = table_of(s.seg.buf)
                        ctx.count("impl_runs")
                        if after != [(int(a), int(b)) for a, b in s.alloc._read_allocs()] or s.alloc.num_allocs != len(after):
                            ctx.violation("header-layout-differs", "the table parsed from the raw header differs from _read_allocs / num_allocs", {"total": s.total, "ops": paths[st] + [op]})
                        replay = {"kind": "ops", "data_size": d, "ops": paths[st] + [op]}
                        judge_step(ctx, s.total, hs, before, op, res, after, replay)
                        ctx.case(["step", d, before, op], nontrivial=(after != before or res[0] == 1))
                        ctx.tally("op", {"A": "allocate", "F": "free", "R": "reset"}[op[0]])
                        ctx.tally("result", {0: "offset", 1: "None", 2: "ValueError", 3: "done"}.get(res[0], "other"))
                        step_cases.append((f"({s.total}, {c_table(before)}, {c_op(op)})", f"({c_res(res)}, {c_table(after)})"))
                        step_keys.append(replay)
                        k = tuple(after)
                        if k not in paths:
                            paths[k] = paths[st] + [op]
                            nxt.append(k)
                frontier = nxt
            n_states += len(paths)
            ctx.tally("tiny_states", f"d={d}:{len(paths)}")
        finally:
            s.close()
    ctx.exhaustive = True
    ctx.log(f"exhaustive tiny segments: {n_states} tables, {len(step_cases)} (table, operation) cases")
    ctx.count("tiny_states", n_states)
    ctx.sample({"exhaustive": f"all reachable tables of 1..{D} data bytes x all operations", "states": n_states, "cases": len(step_cases)})

    ok, bad, clog = ctx.coq_mismatches(HDR, "run_step", f"pair_eqb {P_EQB} {T_EQB}", step_cases, "N * table * op", "(N * N) * table")
    ctx.count("model_cases", len(step_cases))
    ctx.obligation("correspondence:M_Alloc.run_step", "correspondence", ok and not bad, clog if not ok else f"{len(bad)} of {len(step_cases)} cases disagree")
    for i in bad[:3]:
        ctx.violation("model-impl-disagree-step", "allocator and model decide differently", {**step_keys[i], "impl": step_cases[i][1], "model": ctx.coq_show(HDR, f"run_step {step_cases[i][0]}")[-400:]})

    ctx.log("run_step correspondence done")
    # ---- (b) random histories, table after every operation ---------------------------------------
    hist_cases: list[tuple[str, str]] = []
    hist_keys: list[dict[str, Any]] = []
    n_hist = 200 if quick else 1200
    for h in range(n_hist):
        data = ctx.rng.choice([8, 33, 100, 1000, 4096, 65536, 1 << 20])
        s = Seg(shm_mod, data)
        try:
            ops_done: list[tuple[str, int]] = []
            outs = []
            live: list[int] = []
            dead: list[int] = []
            for _ in range(ctx.rng.randrange(5, 45)):
                before = table_of(s.seg.buf)
                r = ctx.rng.random()
                if r < 0.55:
                    gap = largest_gap(before, s.total, hs)
                    z = ctx.rng.choice([1, 1, 2, 3, max(1, gap // 4), max(1, gap // 2), gap, gap + 1, max(1, gap - 1), data, data + 1, 0, -5, ctx.rng.randrange(1, data + 2), 1 << 64, (1 << 64) + 3])
                    op = ("A", z)
                elif r < 0.93:
                    pool = ([e[0] for e in before] * 3) + dead[-3:] + [hs + ctx.rng.randrange(0, data), hs - 1, 0, s.total]
                    pool += [e[0] + 1 for e in before[:2]] + [e[0] + e[1] for e in before[:2]]
                    op = ("F", ctx.rng.choice(pool))
                else:
                    op = ("R", 0)
                res = s.apply(op)
                after = table_of(s.seg.buf)
                ctx.count("impl_runs")
                ops_done.append(op)
                replay = {"kind": "ops", "data_size": data, "ops": list(ops_done)}
                judge_step(ctx, s.total, hs, before, op, res, after, replay)
                ctx.case(["hist", data, before, op], nontrivial=(after != before or res[0] == 1))
                ctx.tally("op", {"A": "allocate", "F": "free", "R": "reset"}[op[0]])
                ctx.tally("result", {0: "offset", 1: "None", 2: "ValueError", 3: "done"}.get(res[0], "other"))
                if op[0] == "F" and res[0] == 3:
                    dead.append(op[1])
                outs.append(f"({c_res(res)}, {c_table(after)})")
            hist_cases.append((f"({s.total}, [{'; '.join(c_op(o) for o in ops_done)}])", "[" + "; ".join(outs) + "]"))
            hist_keys.append({"kind": "ops", "data_size": data, "ops": ops_done})
            ctx.tally("history_data_size", data)
        finally:
            s.close()
    ctx.log(f"{len(hist_cases)} random histories run")
    ctx.sample({"history": hist_keys[0]})
    ok, bad, clog = ctx.coq_mismatches(HDR, "run_case", f"list_eqb (pair_eqb {P_EQB} {T_EQB})", hist_cases, "N * list op", "list ((N * N) * table)", shard=60)
    ctx.count("model_cases", len(hist_cases))
    ctx.obligation("correspondence:M_Alloc.run_case", "correspondence", ok and not bad, clog if not ok else f"{len(bad)} of {len(hist_cases)} histories disagree")
    for i in bad[:3]:
        ctx.violation("model-impl-disagree-history", "allocator and model differ on a history", hist_keys[i])

    ctx.log("run_case correspondence done")
    # ---- (c) long histories and the entry limit ---------------------------------------------------
    long_cases: list[tuple[str, str]] = []
    long_keys: list[dict[str, Any]] = []

    def long_run(s: Seg, t0: list[tuple[int, int]], ops: list[tuple[str, int]], label: str) -> None:
        s.reinit()
        if t0:  # a table left in the header by the peer: written in the documented layout by the harness
            struct.pack_into("<I", s.seg.buf, 16, len(t0))
            for i, (o, ln) in enumerate(t0):
                struct.pack_into("<QQ", s.seg.buf, 24 + 16 * i, o, ln)
        results = []
        for j, op in enumerate(ops):
            before = table_of(s.seg.buf)
            res = s.apply(op)
            after = table_of(s.seg.buf)
            ctx.count("impl_runs")
            judge_step(ctx, s.total, hs, before, op, res, after, {"kind": "ops", "label": label, "data_size": s.total - hs, "initial_entries": len(t0), "ops": ops[: j + 1] if len(ops) < 200 else f"{label}: first {j + 1} operations"})
            ctx.case(["long", label, j], nontrivial=(after != before or res[0] == 1))
            ctx.tally("result", {0: "offset", 1: "None", 2: "ValueError", 3: "done"}.get(res[0], "other"))
            results.append(res)
        final = table_of(s.seg.buf)
        long_cases.append((f"({s.total}, {c_table(t0)}, [{'; '.join(c_op(o) for o in ops)}])", f"([{'; '.join(c_res(r) for r in results)}], {c_table(final)})"))
        long_keys.append({"kind": "ops", "label": label, "data_size": s.total - hs, "initial_entries": len(t0), "n_ops": len(ops)})
        ctx.tally("long_final_entries", f"{label}:{len(final)}")

    s = Seg(shm_mod, 3 * 4094 + 100)
    try:
        # 4090 one-byte entries with one-byte gaps: gaps everywhere, 4 entries below the limit
        t0 = [(hs + 3 * i, 1) for i in range(4090)]
        ops = [("A", 1)] * 6 + [("F", hs + 3), ("A", 2), ("A", 1), ("A", 1), ("F", hs), ("F", hs + 6), ("A", 50), ("A", 101), ("R", 0), ("A", 7)]
        long_run(s, t0, ops, "limit-4094")
        if not quick:  # the same limit reached through the real allocator alone
            long_run(s, [], [("A", 1)] * 4097 + [("F", hs + 17), ("A", 3), ("A", 1), ("A", 1)], "fill-to-4094")
    finally:
        s.close()
    for rep in range(2 if quick else 6):
        data = ctx.rng.choice([5000, 20000, 1 << 20])
        s = Seg(shm_mod, data)
        try:
            n_ops = 700 if quick else 5000 if rep < 5 else 10000
            ops = []
            sim: list[int] = []  # offsets believed live (steering only)
            s.reinit()
            # steer with a shadow run on the real allocator, then rerun for the record
            for _ in range(n_ops):
                r = ctx.rng.random()
                if r < 0.6 or not sim:
                    z = ctx.rng.choice([1, 2, 5, 16, 64, ctx.rng.randrange(1, max(2, data // 200))])
                    o = s.alloc.allocate(z)
                    ops.append(("A", z))
                    if o is not None:
                        sim.append(o)
                elif r < 0.995:
                    o = sim.pop(ctx.rng.randrange(len(sim)))
                    s.alloc.free(o)
                    ops.append(("F", o))
                else:
                    s.seg.reset()
                    sim.clear()
                    ops.append(("R", 0))
            long_run(s, [], ops, f"random-{rep}")
        finally:
            s.close()
    ctx.log(f"{len(long_cases)} long histories run")
    ok, bad, clog = ctx.coq_mismatches(HDR, "run_final", f"pair_eqb (list_eqb {P_EQB}) {T_EQB}", long_cases, "N * table * list op", "list (N * N) * table", shard=1)
    ctx.count("model_cases", len(long_cases))
    ctx.obligation("correspondence:M_Alloc.run_final", "correspondence", ok and not bad, clog if not ok else f"{len(bad)} of {len(long_cases)} long histories disagree")
    for i in bad[:3]:
        ctx.violation("model-impl-disagree-long-history", "allocator and model differ on a long history", long_keys[i])

    ctx.log("run_final correspondence done")
    # ---- (d) the write path ------------------------------------------------------------------------
    from pyarrow import ipc

    write_cases: list[tuple[str, str]] = []
    copy_cases: list[tuple[str, str]] = []
    write_keys: list[dict[str, Any]] = []
    copy_keys: list[dict[str, Any]] = []
    n_writes = 210 if quick else 1200
    s = Seg(shm_mod, 4 << 20)
    small = Seg(shm_mod, 60000)
    try:
        pads = boundary_pads(shm_mod, small)
        ctx.obligation("generator:estimate-boundary", "generator", set(pads) >= {0, 8}, f"stream-minus-estimate deltas reached: {sorted(pads)}")
        plan = [(k, False) for k in KINDS for _ in range(n_writes // len(KINDS))] + [("wide_big", True)] * (3 if quick else 12)
        plan += [(f"boundary:{pad}", False) for _d, pad in sorted(pads.items()) for _ in range(4 if quick else 12)]
        for idx, (kind, via_maybe) in enumerate(plan):
            case_seed = f"C28-{ctx.seed}-{ctx.tier}-w{idx}"
            crng = random.Random(case_seed)  # every write case is reproducible on its own (see replay)
            batch = make_batch(crng, kind)
            seg = small if (crng.random() < 0.25 and not via_maybe) else s
            want = ipc.get_record_batch_size(batch) + 4096  # steering only: where to put the hole
            prepare_table(crng, seg, want)
            ob = observe_write(shm_mod, seg, batch, via_maybe)
            ctx.count("impl_runs")
            replay = {"kind": "write", "batch_kind": kind, "case_seed": case_seed, "via_maybe_write_to_shm": via_maybe, "segment_data_size": seg.total - hs,
                      "columns": batch.num_columns, "rows": batch.num_rows, "schema_bytes": batch.schema.serialize().size}
            judge_write(ctx, seg, hs, ob, replay)
            ctx.case(["write", kind, idx, ob["before_table"]], nontrivial=bool(ob["before_table"]))
            ctx.tally("batch_kind", kind.split(":")[0])
            ctx.tally("write_result", "exception" if ob["exc"] else ("inline-fallback" if ob["result"] is None else "shm"))
            allocs = [c for c in ob["alloc_calls"] if c[0] == "A"]
            if len(allocs) != 1 and not (via_maybe and not allocs):
                ctx.violation("write-allocates-not-once", f"{len(allocs)} allocate calls for one write", {**replay, "calls": ob["alloc_calls"]})
                continue
            if not allocs:
                continue
            size = allocs[0][1]
            r = ob["result"]
            c_r = "None" if r is None else f"(Some ({r[0]}, {r[1]}))"
            out = f"({c_table(ob['after_table'])}, {c_r})" if ob["exc"] is None else "([(0, 0)], None)"  # an exception is no model outcome
            if ob["dict_path"]:
                if ob["sinks"]:
                    ctx.violation("dictionary-batch-on-direct-path", "a batch with a top-level dictionary column went through _ShmSink", replay)
                copy_cases.append((f"({seg.total}, {c_table(ob['before_table'])}, {size})", out))
                copy_keys.append(replay)
            else:
                if len(ob["sinks"]) != (1 if allocs[0][2] is not None else 0):
                    ctx.violation("direct-path-sink-count", f"{len(ob['sinks'])} sinks for one direct write", replay)
                    continue
                chunks = ob["sinks"][0]["chunks"] if ob["sinks"] else []
                if ob["sinks"] and ob["sinks"][0]["start"] != allocs[0][2]:
                    ctx.violation("sink-not-at-allocation", "the sink does not start at the allocated offset", {**replay, "sink": ob["sinks"][0], "alloc": allocs[0]})
                ctx.tally("stream_vs_estimate", "stream<estimate" if sum(chunks) < size else "stream=estimate" if sum(chunks) == size else "stream>estimate")
                write_cases.append((f"({seg.total}, {c_table(ob['before_table'])}, {size}, [{'; '.join(map(str, chunks))}])", out))
                write_keys.append({**replay, "estimated": size, "stream_bytes": sum(chunks), "result": r})
            if idx < 3 or (kind == "wide" and len(ctx.samples) < 6):
                ctx.sample({"write": {**replay, "estimated": size, "stream_bytes": sum(ob["sinks"][0]["chunks"]) if ob["sinks"] else None, "result": r, "table_before": ob["before_table"]}})
    finally:
        s.close()
        small.close()
    ctx.log(f"{len(write_cases)} direct and {len(copy_cases)} dictionary-path writes run")
    # the sink alone, on a real segment with marked neighbours: chunk sequences that end before / at / after the limit
    sink_cases: list[tuple[str, str]] = []
    sink_keys: list[dict[str, Any]] = []
    s = Seg(shm_mod, 4096)
    try:
        for k in range(60 if quick else 600):
            start = hs + ctx.rng.randrange(0, 1000)
            room = ctx.rng.choice([0, 1, 8, 64, 500])
            limit = start + room
            lens = []
            tot = 0
            target = room + ctx.rng.choice([-8, -1, 0, 0, 1, 8, 40])
            while tot < max(target, 1) and len(lens) < 8:
                n = min(ctx.rng.choice([0, 1, 3, 8, 16, 64, room or 1, room + 1]), 600)
                lens.append(n)
                tot += n
            if ctx.rng.random() < 0.5:
                lens += [ctx.rng.choice([0, 1, 2, 8])]  # a small chunk after a possible overflow: must not be written either
            s.seg.buf[hs : s.total] = b"\x5a" * (s.total - hs)
            before = bytes(s.seg.buf)
            try:
                sink = shm_mod._ShmSink(s.seg.buf, start, limit)
            except TypeError:
                ctx.tally("sink_cases", "sink takes no limit")
                break
            data_kinds = [bytes, bytearray, memoryview]
            for n in lens:
                payload = bytes([0xC3]) * n
                sink.write(ctx.rng.choice(data_kinds)(payload))
            after = bytes(s.seg.buf)
            ctx.count("impl_runs")
            repl = {"kind": "sink", "start": start, "limit": limit, "chunk_lengths": lens}
            for a, b in changed_ranges(before, after, 0, s.total):
                if a < start or b > limit:
                    ctx.violation("sink-writes-past-limit", f"_ShmSink(start={start}, limit={limit}) altered bytes [{a},{b})", repl)
            pos, over = start + sink.bytes_written, bool(getattr(sink, "overflowed", False))
            ctx.case(["sink", start, limit, lens], nontrivial=sum(lens) > room)
            ctx.tally("sink_cases", "overflow" if over else "fits")
            sink_cases.append((f"({start}, {limit}, [{'; '.join(map(str, lens))}])", f"({pos}, {'true' if over else 'false'})"))
            sink_keys.append(repl)
    finally:
        s.close()
    if sink_cases:
        ok, bad, clog = ctx.coq_mismatches(HDR, "run_sink", "pair_eqb N.eqb Bool.eqb", sink_cases, "N * N * list N", "N * bool")
        ctx.count("model_cases", len(sink_cases))
        ctx.obligation("correspondence:M_Alloc.run_sink", "correspondence", ok and not bad, clog if not ok else f"{len(bad)} of {len(sink_cases)} sink runs disagree")
        for i in bad[:2]:
            ctx.violation("model-impl-disagree-sink", "_ShmSink and model differ", sink_keys[i])
    else:
        ctx.obligation("correspondence:M_Alloc.run_sink", "correspondence", False, "_ShmSink has no limit parameter: the bounded sink of the model does not exist in this tree")
    ok, bad, clog = ctx.coq_mismatches(HDR, "run_write", f"pair_eqb {T_EQB} (option_eqb {P_EQB})", write_cases, "N * table * N * list N", "table * option (N * N)")
    ctx.count("model_cases", len(write_cases))
    ctx.obligation("correspondence:M_Alloc.run_write", "correspondence", ok and not bad, clog if not ok else f"{len(bad)} of {len(write_cases)} direct writes disagree")
    for i in bad[:2]:
        ctx.violation("model-impl-disagree-write", "direct write: the implementation and the bounded-sink model differ (table after / returned region)", {**write_keys[i], "case": write_cases[i][0][-300:], "impl": write_cases[i][1][-200:]})
    ok, bad, clog = ctx.coq_mismatches(HDR, "run_copy", f"pair_eqb {T_EQB} (option_eqb {P_EQB})", copy_cases, "N * table * N", "table * option (N * N)")
    ctx.count("model_cases", len(copy_cases))
    ctx.obligation("correspondence:M_Alloc.run_copy", "correspondence", ok and not bad, clog if not ok else f"{len(bad)} of {len(copy_cases)} dictionary-path writes disagree")
    for i in bad[:2]:
        ctx.violation("model-impl-disagree-copy", "dictionary-path write and model differ", copy_keys[i])

    ctx.assumptions += [
        "lockstep use: one side mutates the header at a time (no concurrent allocate/free), as the module documents",
        "struct.pack_into/unpack_from, list.insert/pop and memoryview slice assignment behave as documented; the harness parses the raw header itself after every operation",
        "Arrow's IPC stream writer is an arbitrary finite sequence of write() calls (the theorem covers every sequence; the real sequences are observed through a recording subclass of _ShmSink)",
        "a table found in the header at attach time is well-formed (C28_inv_from); tables written by this implementation always are (C28_inv)",
    ]


# ---------------------------------------------------------------------------
def replay(ctx: Any, data: dict[str, Any]) -> None:
    """./check C28 --replay FILE : re-run exactly the recorded input against the real code (vlib.main prints the
    record and calls core.finish afterwards, so a reproduced violation ends in VIOLATION / exit 1)."""
    import vgi_rpc.shm as shm_mod

    r = data.get("replay", data)
    hs = 65536
    if r.get("kind") == "ops" and isinstance(r.get("ops"), list):
        s = Seg(shm_mod, int(r["data_size"]))
        try:
            for op in r["ops"]:
                op = (op[0], int(op[1]))
                before = table_of(s.seg.buf)
                res = s.apply(op)
                after = table_of(s.seg.buf)
                judge_step(ctx, s.total, hs, before, op, res, after, {"kind": "ops", "data_size": r["data_size"], "ops": r["ops"]})
                ctx.case(["replay", before, op])
                print(f"  {op} -> {res}  table={after[:12]}{'...' if len(after) > 12 else ''}")
        finally:
            s.close()
    elif r.get("kind") == "write" and "case_seed" in r:
        from pyarrow import ipc

        crng = random.Random(r["case_seed"])
        batch = make_batch(crng, r["batch_kind"])
        crng.random()  # the segment choice of the original run
        s = Seg(shm_mod, int(r["segment_data_size"]))
        try:
            prepare_table(crng, s, ipc.get_record_batch_size(batch) + 4096)
            ob = observe_write(shm_mod, s, batch, bool(r.get("via_maybe_write_to_shm")))
            judge_write(ctx, s, hs, ob, {k: r[k] for k in ("kind", "batch_kind", "case_seed", "via_maybe_write_to_shm", "segment_data_size")})
            ctx.case(["replay", r["case_seed"]])
            print(f"  {r['batch_kind']}: columns={batch.num_columns} rows={batch.num_rows} table before={ob['before_table']}")
            print(f"  asked from the allocator: {[c for c in ob['alloc_calls']]}  stream bytes written: {[sum(k['chunks']) for k in ob['sinks']]}")
            print(f"  result={ob['result']} exception={ob['exc']} table after={ob['after_table']}")
        finally:
            s.close()
    else:
        print("  nothing replayable in this record (obligation-only); re-run ./check C28")
    for v in ctx.violations:
        print(f"REPRODUCED {v['key']}: {v['what']}")
