"""C38 HTTP retries are bounded and never duplicate non-idempotent calls.

proof         : coq/prop/P_C38.v over model/M_Retry.v (proofs in proof/L_Retry.v): for ALL configurations, ALL outcome
                sequences (any length, every status, every Retry-After form incl. NaN/+-inf/negative/date/garbage) and ALL
                jitter draws: sends in [1, max_retries+1]; a resend only after a retryable outcome; one wait per resend,
                each wait a number in [0, backoff_max]; exchange <= 2 requests, the second only after a 413; cancel <= 1.
regenerated   : translate/t_c38_retry.py -> gen/G_Retry.v: _DEFAULT_RETRYABLE, the HttpRetryConfig defaults and validation,
                the body of _compute_delay (min/max argument order), the range bound, the three guards and the disconnect
                marker of _request_with_retry (its whole statement skeleton is shape-checked), the _post/_options wrappers,
                and the request sites (plain post vs _post_with_retry, enclosing 413/415 test) of exchange / cancel /
                _send_continuation / unary caller / stream-init caller.  tie/T_Retry.v: every generated term equals the
                modelled one (reflexivity) and the delay theorem is restated over the generated _compute_delay.
correspondence: level A: _request_with_retry / _post_with_retry / _options_with_retry on a real httpx2.Client whose transport
                raises real httpx2 exceptions / answers scripted statuses + Retry-After; scripted random.uniform, fixed clock,
                recorded _sleep; (sends, sleeps, uniform bounds, final) vs M_Retry.run_case.  _compute_delay/_get_retry_after
                alone vs M_Retry.run_delay.  level B: the real client (http_connect proxy, HttpStreamSession) against the
                in-process server through the same transport: requests to the operation's URL, externalisation, final
                vs M_Retry.run_op, for unary / init / continuation / exchange / cancel (also on a cancelled session).
                histories: exchange() / cancel() / close() in any order on ONE session (live exchange stream, producer stream
                after init, stream finished at init) with faults on any of its POSTs (never sent / delivered-response-lost /
                5xx / 429 / 413): per operation (requests, final) vs M_Retry.run_hist; cancel requests are recognised on the
                wire by their vgi_rpc.cancel metadata and counted per session, server-side on_cancel / process runs too.
oracle        : the statement's own predicate evaluated on what the implementation did (independent of the model).

Readings adopted where the statement leaves room
  * "a retried request" = one invocation of _post_with_retry/_options_with_retry (one logical request).  The unary / init
    callers may issue a second such invocation for a different body after a 413 (externalised pointer) or a 415 (other
    codec); each invocation is bounded separately.
  * "timeout" covers every httpx2.TimeoutException (connect, read, write, pool), as the code and the statement say;
    "disconnect before any response byte" is httpx2.RemoteProtocolError whose text is httpcore's
    "Server disconnected without sending a response." (checked against the installed httpcore2 source).
  * "Stream exchange and cancel requests" = the POSTs issued by HttpStreamSession.exchange() and .cancel().  Producer
    continuations (_send_continuation, also POST .../exchange) are retried requests under the first sentence.
    The auxiliary requests of the 413 fallback (OPTIONS capabilities, POST __upload_url__/init, PUT to the store) go to other
    URLs; the first two are retried requests themselves.
  * "every wait between 0 and backoff_max" is read for configurations whose backoff_max is a number >= 0 (the grid).
    HttpRetryConfig also accepts NaN (nan < 0 is False); then nothing is clamped -- documented in refuted/R_C38.v, reported,
    not counted as a violation.
  * the model's 2**attempt is exact; the code raises OverflowError in _compute_delay for attempt >= 1024 (int too large to
    convert to float), i.e. it stops EARLIER than the model; no clause of the statement is affected.
"""
from __future__ import annotations

import itertools
import math
from pathlib import Path
from typing import Any

META = {
    "id": "C38",
    "technique": "Coq proof (retry loop as recursion over outcome lists, exact float order with NaN/inf and CPython min/max) + regenerated "
    "constants/guards/delay expression/request sites + differential correspondence through a real httpx2 client",
    "level_text": "Coq theorems for all configurations, all outcome sequences of any length and all jitter draws: a retried request is "
    "sent between 1 and max_retries+1 times, send i+2 only after outcome i+1 was a retryable status / connect error / timeout / "
    "disconnect-before-response (and the configuration enables that class), exactly one wait per resend and every wait is a number "
    "in [0, backoff_max] whatever Retry-After says; exchange sends at most 2 requests, the second only after a 413 and a successful "
    "externalisation, cancel at most 1 and none on a cancelled session. Range bound, guards, delay expression, defaults and request "
    "sites in these theorems are regenerated from the source on every run (tie by reflexivity); the loop skeleton is shape-checked "
    "by the translator and tied by running the real code on scripted fault sequences.",
    "level_note": "Trusted: Coq kernel (vm_compute), t_c38_retry translator, harness (FaultTransport, scripted random.uniform / clock). "
    "Modelled not verified: float() / parsedate_to_datetime parsing of the Retry-After text (class + value by construction of the "
    "corpus), random.uniform's contract 0 <= result <= bound, httpx2 exception classes standing for real network faults, helper calls "
    "of exchange()/cancel() not followed statically (requests on the wire are counted per URL dynamically instead).",
    "design_ref": "§5 C38",
}

DEFAULT_RETRYABLE = [429, 502, 503, 504]

# Retry-After corpus: (header text, value float() gives) -- class and value by construction
INF = float("inf")
NAN = float("nan")
RA_FLOATS: list[tuple[str, float]] = [
    ("0", 0.0), ("1", 1.0), ("1.5", 1.5), ("0.25", 0.25), ("30", 30.0), ("31", 31.0), ("120", 120.0), ("0.001", 0.001), ("1e-3", 0.001),
    ("-5", -5.0), ("-0.5", -0.5), ("-0", 0.0), ("-1e9", -1e9), ("nan", NAN), ("NaN", NAN), ("-nan", NAN), ("inf", INF), ("+inf", INF),
    ("Infinity", INF), ("-inf", -INF), ("-Infinity", -INF), ("1e400", INF), ("-1e400", -INF), ("1e9", 1e9), (" 2 ", 2.0), ("2\t", 2.0),
    ("1_0", 10.0), ("١٢", 12.0), ("00007", 7.0), (".5", 0.5), ("5.", 5.0), ("1e2", 100.0), ("4.9e-324", 5e-324),
    ("1.7976931348623157e308", 1.7976931348623157e308),
]
RA_GARBAGE = ["", " ", "soon", "0x10", "1,5", "1.5s", "--1", "nan(1)", "1e", "Wed, 21 Oct 2015 07:28:00", "Wed, 21 Oct 2015 07:28:00 -0000",
              "21 Oct", "1 2", "None", "1.2.3", "∞"]
RA_DATES = [-10**9, -100000, -1, 0, 1, 29, 30, 31, 3600, 86400, 10**9]


def _header_ok(s: str) -> bool:
    """httpx2 header values are encoded ascii unless bytes; keep non-ascii via utf-8 bytes -> skip those the client rejects."""
    try:
        s.encode("ascii")
        return True
    except UnicodeEncodeError:
        return False


def translate(ctx: Any) -> None:
    from translate import t_c38_retry

    ctx.gen("G_Retry", lambda: t_c38_retry.definitions(ctx.repo))


# ---------------------------------------------------------------------------------------------
# rendering for the model
# ---------------------------------------------------------------------------------------------
def _cfl(x: Any) -> str:
    from translate.t_c38_retry import cfl

    return cfl(float(x))


def _ccfg(cfg: dict[str, Any]) -> str:
    return (
        f"(C {cfg['max_retries']}%nat {_cfl(cfg['backoff_base'])} {_cfl(cfg['backoff_max'])} "
        f"[{'; '.join(str(s) for s in cfg['retryable'])}]%N {str(cfg['roce']).lower()} {str(cfg['respect']).lower()})"
    )


def _cra(ra: Any) -> str:
    if ra is None:
        return "RAabsent"
    if ra[0] == "float":
        return f"(RAfloat {_cfl(ra[2])})"
    if ra[0] == "date":
        return f"(RAdate {_cfl(float(ra[1]))})"
    return "RAgarbage"


def _cout(o: tuple[Any, ...]) -> str:
    k = o[0]
    if k == "resp":
        return f"(OResp {o[1]}%N {_cra(o[2])})"
    return {"conn": "OConnErr", "timeout": "OTimeout", "disc": "ODisconnect", "proto": "OProtoOther", "other": "OOtherErr"}[k]


def _clist(xs: list[str]) -> str:
    return "[" + "; ".join(xs) + "]"


def _copt_fl(x: Any) -> str:
    return "None" if x is None else f"(Some {_cfl(x)})"


KIND_CODE = {"conn": 2, "timeout": 3, "disc": 4, "proto": 5, "other": 6}
HEADER = (
    "From Coq Require Import List NArith ZArith QArith Bool.\nFrom VGI Require Import M_Retry.\nImport ListNotations.\n"
    "Definition C (m : nat) (b x : fl) (r : list N) (ro re : bool) : config :=\n"
    "  {| max_retries := m; bbase := b; bmax := x; retryable := r; roce := ro; respect_ra := re |}.\n"
)


def _strip_ra(o: tuple[Any, ...]) -> tuple[Any, ...]:
    """outcome as sent to the driver (drop the expected float value from ('float', text, value))"""
    if o[0] == "resp" and o[2] is not None and o[2][0] == "float":
        return ("resp", o[1], ("float", o[2][1]))
    return o


def _statement_retryable(cfg: dict[str, Any], o: tuple[Any, ...]) -> bool:
    if o[0] in ("conn", "timeout", "disc"):
        return True
    if o[0] == "resp":
        return o[1] in cfg["retryable"]
    return False


def _finite_cfg(cfg: dict[str, Any]) -> bool:
    return all(math.isfinite(cfg[k]) and cfg[k] >= 0 for k in ("backoff_base", "backoff_max"))


# ---------------------------------------------------------------------------------------------
def run(ctx: Any) -> None:
    translate(ctx)
    ctx.prove(
        ["prop/P_C38.vo", "tie/T_Retry.vo", "refuted/R_C38.vo"],
        {
            "P_C38": [
                "C38_sends_le_max_plus_1", "C38_resend_only_after_retryable", "C38_one_wait_per_resend", "C38_delay_in_0_backoff_max",
                "C38_compute_delay_in_0_backoff_max", "C38_final_classes", "C38_exchange_cancel_once_plus_413", "C38_no_config_single_send",
                "C38_session_cancel_at_most_once", "C38_session_silent_after_cancel", "C38_session_each_operation",
            ],
            "T_Retry": ["compute_delay_tie", "guard_conn_tie", "guard_disconnect_tie", "guard_status_tie", "loop_fuel_tie", "default_config_tie",
                        "exchange_sites_tie", "cancel_sites_tie", "cancel_release_order_tie", "continuation_sites_tie", "unary_sites_tie",
                        "C38_source_delay_in_0_backoff_max", "C38_source_default_config", "C38_source_range_and_guards"],
        },
    )

    from harness import c38_driver as drv
    from translate import t_c38_retry

    rng = ctx.rng
    quick = ctx.tier == "quick"

    # ---- environment facts -------------------------------------------------------------------
    try:
        import httpcore2

        src = (Path(httpcore2.__file__).parent / "_sync" / "http11.py").read_text()
        tree = t_c38_retry._parse(ctx.repo / "vgi_rpc" / "http" / "_retry.py")
        marker = t_c38_retry.request_with_retry(t_c38_retry._func(tree, "_request_with_retry", "retry"), "retry")["marker"]
        env_ok = drv.DISCONNECT_MSG in src and marker in drv.DISCONNECT_MSG
        detail = f"marker {marker!r}; httpcore2 raises {drv.DISCONNECT_MSG!r}: {drv.DISCONNECT_MSG in src}"
    except Exception as e:  # noqa: BLE001
        env_ok, detail, marker = False, f"{type(e).__name__}: {e}", None
    ctx.obligation("env:httpcore-disconnect-message", "environment", env_ok, detail)
    import httpx2

    hier_ok = (
        all(issubclass(getattr(httpx2, c), httpx2.TimeoutException) for c in drv.TIMEOUT_CLASSES)
        and not any(issubclass(getattr(httpx2, c), (httpx2.TimeoutException, httpx2.ConnectError, httpx2.RemoteProtocolError)) for c in drv.OTHER_CLASSES)
    )
    ctx.obligation("env:httpx2-exception-hierarchy", "environment", hier_ok, "timeout / other exception classes of the harness are classified as assumed")

    # ---- generators ---------------------------------------------------------------------------
    def mk_cfg(mr: int, base: float, bmax: float, retryable: list[int], roce: bool, respect: bool) -> dict[str, Any]:
        return {"max_retries": mr, "backoff_base": base, "backoff_max": bmax, "retryable": sorted(retryable), "roce": roce, "respect": respect}

    RETRYABLE_SETS = [DEFAULT_RETRYABLE, [503], [], [200, 404, 500], list(range(500, 600)), [413, 429, 503]]

    def rand_cfg(adversarial: bool = False) -> dict[str, Any]:
        base = rng.choice([0.0, 0.001, 0.5, 1.0, 3.0])
        bmax = rng.choice([0.0, 0.75, 2.0, 30.0])
        if adversarial:
            k = rng.randrange(4)
            if k == 0:
                bmax = rng.choice([INF, NAN])
            elif k == 1:
                base = rng.choice([INF, NAN])
            elif k == 2:
                base, bmax = rng.choice([INF, NAN]), rng.choice([INF, NAN])
            else:
                base = 1e300
        return mk_cfg(rng.randrange(4), base, bmax, rng.choice(RETRYABLE_SETS), rng.random() < 0.75, rng.random() < 0.75)

    def rand_ra() -> Any:
        k = rng.randrange(10)
        if k < 3:
            return None
        if k < 7:
            t, v = rng.choice(RA_FLOATS)
            if not _header_ok(t):
                t, v = "1.5", 1.5
            return ("float", t, v)
        if k < 9:
            return ("date", rng.choice(RA_DATES))
        g = rng.choice(RA_GARBAGE)
        return ("garbage", g if _header_ok(g) else "soon")

    def rand_status(cfg: dict[str, Any], want_retryable: bool) -> int:
        if want_retryable and cfg["retryable"]:
            return rng.choice(cfg["retryable"])
        return rng.choice([200, 201, 204, 301, 304, 400, 401, 404, 408, 413, 415, 429, 500, 501, 502, 503, 504, 599, rng.randrange(200, 600)])

    def rand_outcome(cfg: dict[str, Any]) -> tuple[Any, ...]:
        k = rng.random()
        if k < 0.45:
            return ("resp", rand_status(cfg, True), rand_ra())
        if k < 0.57:
            return ("conn",)
        if k < 0.69:
            return ("timeout", rng.choice(drv.TIMEOUT_CLASSES))
        if k < 0.81:
            return ("disc",)
        if k < 0.86:
            return ("proto", rng.choice(drv.PROTO_OTHER_MSGS))
        if k < 0.90:
            return ("other", rng.choice(drv.OTHER_CLASSES))
        return ("resp", rand_status(cfg, False), rand_ra())

    FRACTIONS = [0.0, 0.25, 0.5, 0.75, 1.0]

    a_cases: list[tuple[dict[str, Any], list[float], list[tuple[Any, ...]], str, bool]] = []   # cfg, fractions, script, via, in_grid

    # (1) exhaustive over a 12-letter alphabet, every sequence of length max_retries + 2
    ALPHA: list[tuple[Any, ...]] = [
        ("conn",), ("timeout", "ReadTimeout"), ("disc",), ("proto", drv.PROTO_OTHER_MSGS[0]), ("other", "ReadError"),
        ("resp", 200, None), ("resp", 404, ("float", "5", 5.0)), ("resp", 503, None), ("resp", 503, ("float", "1e9", 1e9)),
        ("resp", 429, ("float", "nan", NAN)), ("resp", 503, ("date", 31)), ("resp", 502, ("garbage", "soon")),
    ]
    ex_plan = [(0, True), (1, True), (1, False)] if quick else [(0, True), (0, False), (1, True), (1, False), (2, True)]
    for mr, roce in ex_plan:
        cfg = mk_cfg(mr, 0.5, 2.0, DEFAULT_RETRYABLE, roce, True)
        alpha = ALPHA if (roce or not quick) else ALPHA[:8]
        for seq in itertools.product(alpha, repeat=mr + 2):
            a_cases.append((cfg, [0.5] * (mr + 1), list(seq), "post", True))
    # (1b) deeper loops on reduced alphabets: max_retries 2 (5 / 6 letters) and 3 (3 / 4 letters)
    for mr, idx in (((2, [0, 2, 3, 5, 8]), (3, [0, 5, 8])) if quick else ((2, [0, 2, 3, 5, 7, 8]), (3, [0, 3, 5, 8]))):
        cfg = mk_cfg(mr, 0.25, 1.0, DEFAULT_RETRYABLE, True, True)
        for seq in itertools.product([ALPHA[i] for i in idx], repeat=mr + 2):
            a_cases.append((cfg, [1.0] * (mr + 1), list(seq), "request", True))
    # (2) every status 200..599 as the first outcome (default set and a custom set), then 503, then 200
    for s in range(200, 600):
        a_cases.append((mk_cfg(2, 0.5, 2.0, DEFAULT_RETRYABLE, True, True), [1.0, 0.25], [("resp", s, ("float", "1", 1.0)), ("resp", 503, None)], "request", True))
        if not quick or s % 3 == 0:
            a_cases.append((mk_cfg(1, 1.0, 0.75, [s, 404], True, False), [0.75], [("resp", s, None), ("resp", 404, None), ("resp", s, None)], "options", True))
    # (3) every Retry-After form x clamp situations
    ra_all: list[Any] = [None] + [("float", t, v) for t, v in RA_FLOATS if _header_ok(t)] + [("date", d) for d in RA_DATES] + [("garbage", g) for g in RA_GARBAGE if _header_ok(g)]
    for ra in ra_all:
        for bmax in (0.0, 0.75, 30.0):
            for respect in (True, False):
                for fr in (0.0, 1.0):
                    a_cases.append((mk_cfg(1, 1.0, bmax, [503], True, respect), [fr], [("resp", 503, ra)], "post", True))
        a_cases.append((mk_cfg(1, 1.0, INF, [503], True, True), [0.5], [("resp", 503, ra)], "post", False))
        a_cases.append((mk_cfg(1, 1.0, NAN, [503], True, True), [0.5], [("resp", 503, ra)], "post", False))
    # (4) random sequences of length <= max_retries + 2 over the full outcome space, property grid and adversarial configurations
    for i in range(500 if quick else 6000):
        adv = i % 8 == 7
        cfg = rand_cfg(adv)
        n = rng.randrange(cfg["max_retries"] + 3)
        script = [rand_outcome(cfg) for _ in range(n)]
        fr = [rng.choice(FRACTIONS) if rng.random() < 0.6 else rng.random() for _ in range(cfg["max_retries"] + 1)]
        a_cases.append((cfg, fr, script, rng.choice(["request", "post", "options"]), not adv))

    ctx.rule = (
        "level A cases = (retry configuration, jitter fractions, outcome script, entry point): exhaustive over a 12-letter outcome alphabet "
        "for every sequence of length max_retries+2 (max_retries 0..1 quick, 0..2 thorough), every status 200..599 as first outcome, every "
        "Retry-After form x clamp situation, seeded random sequences of length <= max_retries+2; level B cases = (client operation, "
        "configuration or none, script on the operation's URL, externalisation possible). distinct by canonical JSON of the case; "
        "non-trivial = the script is non-empty"
    )

    ctx.log(f"proofs done; {len(a_cases)} level-A cases")
    # ---- level A: run the implementation, oracle ---------------------------------------------------
    model_cases: list[tuple[str, str]] = []
    replays: list[dict[str, Any]] = []
    for cfg, fr, script, via, in_grid in a_cases:
        r = drv.run_level_a(cfg, fr, [_strip_ra(o) for o in script], via)
        ctx.count("impl_runs")
        ctx.count("level_a")
        ctx.case(["A", cfg, fr, [list(map(str, o)) for o in script], via], nontrivial=bool(script))
        ctx.tally("max_retries", cfg["max_retries"])
        ctx.tally("script_len", len(script))
        ctx.tally("sends", r["sends"])
        for o in script[: r["sends"]]:
            ctx.tally("outcome", o[0] if o[0] != "resp" else ("resp-retryable" if o[1] in cfg["retryable"] else "resp-other"))
            if o[0] == "resp":
                ctx.tally("retry_after", "absent" if o[2] is None else o[2][0])
        rep = {"level": "A", "config": cfg, "jitter_fractions": fr, "script": [list(map(str, o)) for o in script], "via": via,
               "observed": {"sends": r["sends"], "sleeps": [repr(x) for x in r["sleeps"]], "final": [str(x) for x in r["final"]]}}
        replays.append(rep)
        sends, sleeps = r["sends"], r["sleeps"]
        # the property's own predicate on what the real code did
        if sends > cfg["max_retries"] + 1:
            ctx.violation("retry-sends-exceed-max-plus-1", f"{sends} sends with max_retries={cfg['max_retries']}", rep)
        for i in range(max(0, sends - 1)):
            o = script[i] if i < len(script) else ("resp", 200, None)
            if not _statement_retryable(cfg, o):
                ctx.violation(f"resend-after-nonretryable-{o[0]}", f"request resent after outcome {o}", rep)
                break
        if len(sleeps) != max(0, sends - 1):
            ctx.violation("waits-not-one-per-resend", f"{len(sleeps)} waits for {sends} sends", rep)
        if in_grid and _finite_cfg(cfg):
            for d in sleeps:
                if not (isinstance(d, (int, float)) and 0 <= d <= cfg["backoff_max"]):
                    ctx.violation("wait-outside-0-backoff-max", f"wait {d!r} with backoff_max={cfg['backoff_max']}", rep)
                    break
        if r["final"][0] == "crash":
            ctx.violation("retry-loop-crash-" + str(r["final"][1]), f"unexpected exception {r['final'][1:]}", rep)
        if any(a != 0 for a, _ in r["uniform_calls"]):
            ctx.obligation("harness:uniform-lower-bound", "harness", False, f"random.uniform called with lower bound != 0: {r['uniform_calls']}")
        # model side
        f = r["final"]
        if f[0] == "return":
            fc = f"(0%N, {f[1]}%N, None)"
        elif f[0] == "transient":
            fc = f"(1%N, {f[1]}%N, {_copt_fl(f[2])})"
        elif f[0] == "raise":
            fc = f"({KIND_CODE[f[1][0]]}%N, 0%N, None)"
        else:
            fc = "(99%N, 0%N, None)"
        try:
            inp = f"({_ccfg(cfg)}, {_clist([_cfl(x) for x in r['jits']])}, {_clist([_cout(o) for o in script])})"
            out = f"({sends}%N, {_clist([_cfl(x) for x in sleeps])}, {_clist([_cfl(b) for _, b in r['uniform_calls']])}, {fc})"
        except (TypeError, ValueError, OverflowError) as e:
            ctx.violation("retry-loop-non-float-wait", f"a wait / uniform bound is not a float: {e}", rep)
            continue
        model_cases.append((inp, out))
    ctx.log("level A implementation runs done")
    ctx.sample({"config": a_cases[0][0], "script": [list(map(str, o)) for o in a_cases[200][2]], "via": "post"})
    ok, bad, clog = ctx.coq_mismatches(HEADER, "run_case", "case_eqb", model_cases, "config * list fl * list outcome", "N * list fl * list fl * (N * N * option fl)")
    ctx.count("model_cases", len(model_cases))
    ctx.obligation("correspondence:M_Retry.run_case", "correspondence", ok and not bad, clog if not ok else f"{len(bad)} of {len(model_cases)} cases disagree")
    for i in bad[:3]:
        shown = ctx.coq_show(HEADER, f"run_case {model_cases[i][0]}")
        ctx.violation("model-impl-disagree-retry-loop", "retry loop and model behave differently", {**replays[i], "model": shown[-600:]})

    ctx.log("level A model comparison done")
    # ---- _compute_delay / _get_retry_after alone ----------------------------------------------------
    d_cases: list[tuple[str, str]] = []
    d_rep: list[dict[str, Any]] = []
    d_in: list[tuple[dict[str, Any], int, Any, float]] = []
    for ra in ra_all:
        for base, bmax in ((0.5, 2.0), (0.0, 0.0), (1.0, 30.0), (0.001, 0.75), (1.0, INF), (1.0, NAN), (NAN, 2.0), (INF, 2.0)):
            for respect in (True, False):
                d_in.append((mk_cfg(3, base, bmax, [503], True, respect), rng.choice([0, 1, 2, 5, 10, 40]), ra, rng.choice(FRACTIONS)))
    for _ in range(200 if quick else 3000):
        cfg = rand_cfg(rng.random() < 0.2)
        # stay inside the exact-arithmetic assumption: backoff_base * 2**attempt must not overflow a double
        attempts = [0, 1, 2, 3, 7, 20] if cfg["backoff_base"] == 1e300 else [0, 1, 2, 3, 7, 20, 60, 200, 1000]
        d_in.append((cfg, rng.choice(attempts), rand_ra(), rng.random()))
    for cfg, attempt, ra, frac in d_in:
        hdr = drv.ra_header(_strip_ra(("resp", 503, ra))[2])
        try:
            r = drv.run_delay(cfg, attempt, hdr, frac)
        except Exception as e:  # noqa: BLE001
            ctx.violation("compute-delay-crash-" + type(e).__name__, f"_compute_delay raised {type(e).__name__}: {e}", {"config": cfg, "attempt": attempt, "retry_after": hdr})
            continue
        ctx.count("impl_runs")
        ctx.count("delay_cases")
        ctx.case(["D", cfg, attempt, str(ra), frac])
        rep = {"level": "delay", "config": cfg, "attempt": attempt, "retry_after_header": hdr, "fraction": frac, "delay": repr(r["delay"]), "parsed": repr(r["parsed"])}
        d = r["delay"]
        jit_ok = r["jit"] is not None and r["jit"] == r["jit"] and r["jit"] >= 0
        if _finite_cfg(cfg) and jit_ok and not (isinstance(d, float) and 0 <= d <= cfg["backoff_max"]):
            ctx.violation("wait-outside-0-backoff-max", f"_compute_delay returned {d!r} with backoff_max={cfg['backoff_max']}", rep)
        d_rep.append(rep)
        ub = r["uniform_calls"][0][1] if r["uniform_calls"] else NAN
        d_cases.append((f"({_ccfg(cfg)}, {attempt}%nat, {_cra(ra)}, {_cfl(r['jit'] if r['jit'] is not None else 0.0)})",
                        f"({_cfl(ub)}, {_cfl(d)}, {_copt_fl(r['parsed'])})"))
    ok, bad, clog = ctx.coq_mismatches(HEADER, "run_delay", "delay_eqb", d_cases, "config * nat * ra_hdr * fl", "fl * fl * option fl")
    ctx.obligation("correspondence:M_Retry.run_delay", "correspondence", ok and not bad, clog if not ok else f"{len(bad)} of {len(d_cases)} cases disagree")
    for i in bad[:3]:
        ctx.violation("model-impl-disagree-compute-delay", "_compute_delay / _get_retry_after and model differ", {**d_rep[i], "model": ctx.coq_show(HEADER, f"run_delay {d_cases[i][0]}")[-400:]})

    # ---- documented edge (refuted/R_C38.v): NaN backoff_max passes validation and clamps nothing ------
    try:
        r = drv.run_delay(mk_cfg(1, 0.0, NAN, [503], True, True), 0, "1000000", 0.0)
        ctx.notes.append(f"HttpRetryConfig(backoff_max=nan) accepted; _compute_delay(0, cfg, 1e6) = {r['delay']!r} (unclamped; outside the property's grid, see refuted/R_C38.v)")
    except Exception as e:  # noqa: BLE001
        ctx.notes.append(f"HttpRetryConfig(backoff_max=nan): {type(e).__name__} (the documented edge of R_C38.v no longer reproduces)")

    ctx.log("delay comparison done")
    def xcode(op: str, cfg: dict[str, Any] | None, f: tuple[Any, ...], n: int, ev: list[Any], rep: dict[str, Any]) -> str:
        """what one client operation ended with, as M_Retry.xfinal_code"""
        last_status = None
        if ev:
            last = ev[-1]
            if last[0] == "resp":
                last_status = last[1]
            elif last[0] == "pass":
                retryable = cfg["retryable"] if cfg is not None else []
                if last[1] in retryable or last[1] in (413, 415):
                    ctx.obligation("harness:passthrough-status", "harness", False, f"in-process server answered {last[1]} on {op}")
                last_status = 200
        if op.startswith("cancel") or op == "close":
            return "(10%N, 0%N)" if f[0] == "ok" else "(98%N, 0%N)"
        if f[0] == "transient":
            return f"(1%N, {f[1]}%N)"
        if f[0] == "raise":
            return f"({KIND_CODE[f[1][0]]}%N, 0%N)"
        if f[0] == "crash":
            ctx.violation("client-op-crash-" + str(f[1]), f"{op}: unexpected {f[1:]}", rep)
            return "(99%N, 0%N)"
        if f[0] == "rpcerror" and f[1] in ("RequestTooLarge", "ExternalUploadFailed"):
            return "(9%N, 0%N)"
        if f[0] == "rpcerror" and f[1] == "ProtocolError" and n == 0 and "cancelled" in f[2]:
            return "(11%N, 0%N)"
        if f[0] == "rpcerror" and f[1] == "ProtocolError" and n == 0 and "finished" in f[2]:
            return "(8%N, 0%N)"
        return f"(0%N, {last_status if last_status is not None else 97}%N)"

    # ---- level B: client operations ----------------------------------------------------------------
    apps = drv.make_apps()
    OPC = {"unary": "OpUnary", "init": "OpInit", "cont": "OpCont", "exchange": "OpExchange", "cancel": "OpCancel",
           "exchange_cancelled": "OpExchangeCancelled", "cancel_cancelled": "OpCancelCancelled"}
    b_cfgs: list[dict[str, Any] | None] = [
        None, mk_cfg(0, 0.0, 0.0, DEFAULT_RETRYABLE, True, True), mk_cfg(2, 0.0, 0.001, DEFAULT_RETRYABLE, True, True),
        mk_cfg(1, 0.0, 0.001, [413, 500, 503], True, False), mk_cfg(3, 0.0, 0.0, DEFAULT_RETRYABLE, False, True),
    ]
    b_in: list[tuple[str, dict[str, Any] | None, list[tuple[Any, ...]], bool]] = []
    fixed_scripts: list[list[tuple[Any, ...]]] = [
        [], [("resp", 502, None)], [("resp", 502, None)] * 5, [("resp", 413, None)], [("resp", 413, None), ("resp", 413, None)],
        [("resp", 413, None), ("resp", 502, None), ("resp", 200, None)], [("conn",)], [("timeout", "ReadTimeout")], [("disc",)], [("disc",)] * 5,
        [("proto", drv.PROTO_OTHER_MSGS[0])], [("other", "ReadError")], [("resp", 503, ("float", "1e9", 1e9)), ("resp", 413, None), ("conn",), ("resp", 413, None)],
        [("resp", 429, ("float", "nan", NAN)), ("resp", 500, None)], [("resp", 413, None), ("conn",)], [("resp", 413, None), ("disc",), ("resp", 503, None)],
    ]
    for op in OPC:
        for cfg in b_cfgs:
            for sc in fixed_scripts:
                if quick and op.endswith("_cancelled") and len(sc) > 1:
                    continue
                for ext in (True, False):
                    if not ext and not any(o[0] == "resp" and o[1] == 413 for o in sc):
                        continue
                    b_in.append((op, cfg, sc, ext))
        for _ in range(25 if quick else 300):
            cfg = rng.choice(b_cfgs)
            base_cfg = cfg or mk_cfg(0, 0.0, 0.0, DEFAULT_RETRYABLE, True, True)
            n = rng.randrange(2 * (base_cfg["max_retries"] + 1) + 2)
            sc = []
            for _ in range(n):
                sc.append(("resp", 413, None) if rng.random() < 0.2 else rand_outcome(base_cfg))
            b_in.append((op, cfg, sc, rng.random() < 0.8))
    b_cases: list[tuple[str, str]] = []
    b_rep: list[dict[str, Any]] = []
    for op, cfg, sc, ext in b_in:
        r = drv.run_level_b(apps, op, cfg, [_strip_ra(o) for o in sc], ext)
        ctx.count("impl_runs")
        ctx.count("level_b")
        ctx.case(["B", op, cfg, [list(map(str, o)) for o in sc], ext], nontrivial=bool(sc))
        ctx.tally("op", op)
        n = r["target_sends"]
        rep = {"level": "B", "op": op, "config": cfg, "script": [list(map(str, o)) for o in sc], "externalisation_possible": ext,
               "observed": {"target_sends": n, "final": [str(x) for x in r["final"]], "aux": r["aux"], "server_log": r["server_log"]}}
        b_rep.append(rep)
        first = sc[0] if sc else ("resp", 200, None)
        if op.startswith("exchange"):
            if n > 2:
                ctx.violation("exchange-sent-more-than-twice", f"exchange() issued {n} requests", rep)
            elif n == 2 and not (first[0] == "resp" and first[1] == 413):
                ctx.violation("exchange-resent-without-413", f"exchange() resent after {first}", rep)
            if r["server_log"].count("process") > 1:
                ctx.violation("exchange-processed-twice", "the server ran process() twice for one exchange()", rep)
        if op.startswith("cancel") and n > 1:
            ctx.violation("cancel-sent-more-than-once", f"cancel() issued {n} requests", rep)
        if op in ("unary", "init", "cont") and not any(o[0] == "resp" and o[1] in (413, 415) for o in sc):
            lim = (cfg["max_retries"] + 1) if cfg is not None else 1
            if n > lim:
                ctx.violation("retry-sends-exceed-max-plus-1", f"{op}: {n} requests with limit {lim}", rep)
        code = xcode(op, cfg, r["final"], n, r["events"], rep)
        ext_seen = any(u.endswith("/health") or "__upload_url__" in u or "//store/" in u for _, u in r["aux"])
        ccfg = "None" if cfg is None else f"(Some {_ccfg(cfg)})"
        b_cases.append((f"({OPC[op]}, {ccfg}, {_clist([_cout(o) for o in sc])}, {str(ext).lower()})", f"({n}%N, {str(ext_seen).lower()}, {code})"))
    ctx.log("level B implementation runs done")
    ctx.sample({"level": "B", "op": "exchange", "script": [["resp", "413", "None"], ["resp", "413", "None"]], "expected": "2 requests, then HttpError 413"})
    ok, bad, clog = ctx.coq_mismatches(HEADER, "run_op", "op_eqb", b_cases, "op * option config * list outcome * bool", "N * bool * (N * N)")
    ctx.count("model_cases", len(b_cases) + len(d_cases))
    ctx.obligation("correspondence:M_Retry.run_op", "correspondence", ok and not bad, clog if not ok else f"{len(bad)} of {len(b_cases)} cases disagree")
    for i in bad[:3]:
        ctx.violation("model-impl-disagree-client-op", "client operation and model behave differently", {**b_rep[i], "model": ctx.coq_show(HEADER, f"run_op {b_cases[i][0]}")[-300:]})

    # ---- histories of operations on one stream session ---------------------------------------------------
    # [cancel(fault), cancel, cancel, close], exchange-then-cancel, init-then-cancel, ...: per session at most one cancel
    # request ever leaves the client, nothing after cancel(), each exchange() at most once (+ one resend after 413)
    HOP = {"exchange": "HExchange", "cancel": "HCancel", "close": "HClose"}
    START = {"live": "SLive", "producer": "SLive", "finished": "SFinished"}
    H_FAULTS: list[tuple[Any, ...]] = [
        ("conn",), ("timeout", "ReadTimeout", "delivered"), ("timeout", "ConnectTimeout"), ("timeout", "PoolTimeout"), ("disc",),
        ("proto", drv.PROTO_OTHER_MSGS[0], "delivered"), ("other", "ReadError"), ("resp", 503, None), ("resp", 429, ("float", "1", 1.0)),
        ("resp", 500, None), ("resp", 502, None), ("resp", 413, None), ("resp", 200, None),
    ]
    h_in: list[tuple[str, dict[str, Any] | None, list[str], list[tuple[Any, ...]], bool]] = []
    h_cfgs: list[dict[str, Any] | None] = [None, mk_cfg(2, 0.0, 0.001, DEFAULT_RETRYABLE, True, True)]
    for flt in H_FAULTS:
        for cfg in h_cfgs:
            h_in.append(("live", cfg, ["cancel", "cancel", "cancel", "close"], [flt], True))
            h_in.append(("live", cfg, ["exchange", "cancel", "cancel"], [("resp", 200, None), flt], True))
            h_in.append(("live", cfg, ["exchange", "cancel", "exchange", "cancel"], [flt, flt], True))
            h_in.append(("producer", cfg, ["cancel", "cancel", "close", "cancel"], [flt, flt], True))
        h_in.append(("live", None, ["exchange", "exchange", "cancel", "cancel"], [flt, ("resp", 413, None), flt, flt], True))
        h_in.append(("live", None, ["exchange", "cancel", "cancel"], [("resp", 413, None), flt, flt], False))
        h_in.append(("finished", None, ["cancel", "exchange", "cancel"], [flt], True))
        h_in.append(("finished", None, ["exchange", "cancel"], [flt], True))
    for ln in range(1, 5 if quick else 6):
        for ops in itertools.product(["exchange", "cancel", "close"], repeat=ln):
            if "cancel" not in ops and ln > 2:
                continue
            for _ in range(2 if quick else 6):
                sc = [rng.choice(H_FAULTS) for _ in range(rng.randrange(1, 5))]
                h_in.append(("live", rng.choice(h_cfgs), list(ops), sc, rng.random() < 0.85))
    h_cases: list[tuple[str, str]] = []
    h_rep: list[dict[str, Any]] = []
    for start, cfg, ops, sc, ext in h_in:
        r = drv.run_history(apps, cfg, start, ops, [_strip_ra(o) for o in sc], ext)
        ctx.count("impl_runs")
        ctx.count("histories")
        ctx.case(["H", start, cfg, ops, [list(map(str, o)) for o in sc], ext])
        ctx.tally("history_len", len(ops))
        rep = {"level": "history", "start": start, "config": cfg, "ops": ops, "script": [list(map(str, o)) for o in sc], "externalisation_possible": ext,
               "observed": [{k: (str(v) if k in ("final", "events") else v) for k, v in o.items() if k != "aux"} for o in r["ops"]],
               "cancel_requests_total": r["cancel_requests_total"], "server_log": r["server_log"]}
        h_rep.append(rep)
        want0 = {"live": (False, True), "producer": (False, True), "finished": (True, False)}[start]
        if (r["state0"]["finished"], r["state0"]["has_token"]) != want0:
            ctx.obligation("harness:history-start-state", "harness", False, f"start {start}: session state after init is {r['state0']}")
        # the property's own predicate on the history
        if r["cancel_requests_total"] > 1 or sum(o["target_sends"] for o in r["ops"] if o["op"] == "cancel") > 1:
            ctx.violation("cancel-request-sent-more-than-once-per-session", f"{r['cancel_requests_total']} cancel requests left the client for one stream", rep)
        if r["server_log"].count("on_cancel") > 1:
            ctx.violation("cancel-processed-twice", "the server ran on_cancel() more than once for one stream", rep)
        seen_cancel = False
        for o in r["ops"]:
            n = o["target_sends"]
            if seen_cancel and n > 0:
                ctx.violation("request-sent-after-cancel", f"{o['op']}() sent {n} request(s) on a session that was already cancelled", rep)
            if o["op"] == "cancel":
                seen_cancel = True
                if n > 1:
                    ctx.violation("cancel-sent-more-than-once", f"cancel() issued {n} requests", rep)
            elif o["op"] == "exchange":
                first = o["events"][0] if o["events"] else ("resp", 200, None)
                if n > 2:
                    ctx.violation("exchange-sent-more-than-twice", f"exchange() issued {n} requests", rep)
                elif n == 2 and not (first[0] == "resp" and first[1] == 413):
                    ctx.violation("exchange-resent-without-413", f"exchange() resent after {first}", rep)
                if o["server"].count("process") > 1:
                    ctx.violation("exchange-processed-twice", "the server ran process() twice for one exchange()", rep)
            elif n > 0:
                ctx.violation("close-sent-request", f"close() issued {n} requests", rep)
        outs = [f"({o['target_sends']}%N, {xcode(o['op'], None, o['final'], o['target_sends'], o['events'], rep)})" for o in r["ops"]]
        h_cases.append((f"({START[start]}, {_clist([HOP[o] for o in ops])}, {_clist([_cout(o) for o in sc])}, {str(ext).lower()})", _clist(outs)))
    ctx.log("session histories done")
    ctx.sample({"level": "history", "ops": ["cancel", "cancel", "cancel", "close"], "script": [["timeout", "ReadTimeout", "delivered"]], "expected": "one cancel request in total"})
    ok, bad, clog = ctx.coq_mismatches(HEADER, "run_hist", "hist_eqb", h_cases, "sess * list hop * list outcome * bool", "list (N * (N * N))")
    ctx.count("model_cases", len(h_cases))
    ctx.obligation("correspondence:M_Retry.run_hist", "correspondence", ok and not bad, clog if not ok else f"{len(bad)} of {len(h_cases)} cases disagree")
    for i in bad[:3]:
        ctx.violation("model-impl-disagree-session-history", "a history of operations on one session and the model behave differently", {**h_rep[i], "model": ctx.coq_show(HEADER, f"run_hist {h_cases[i][0]}")[-300:]})

    ctx.exhaustive = False
    ctx.assumptions += [
        "random.uniform(0, e) returns a number in [0, e] for a number e >= 0 (hypothesis jit_ok of C38_delay_in_0_backoff_max); the harness scripts it",
        "the text -> float / date parsing of Retry-After is Python's (float(), email.utils.parsedate_to_datetime); the model starts from the parse class and value, "
        "which the corpus fixes by construction (and httpx2 delivers header values unchanged)",
        "backoff_base * 2**attempt is exact in binary floating point (no overflow / subnormal): attempt < 1024 and a product below 1.8e308; beyond that the code raises "
        "OverflowError, i.e. stops earlier than the model",
        "real network faults surface as the httpx2 exception classes the harness raises from its transport (ConnectError, *Timeout, RemoteProtocolError, ReadError, ...); "
        "the disconnect-before-response text is the one the installed httpcore2 uses (checked)",
        "level B runs with compression_level=None (this sandbox's httpx2 cannot decode zstd responses) and backoff_base=0 (real time.sleep of at most 1 ms)",
    ]
