"""C21 401 responses follow the unauthorized specification.

proof         : coq/prop/P_C21.v over model/M_Unauthorized.v -- authenticator compositions as a tree
                (leaf | chain of any length | require_all gate +/- inner), leaf behaviour as an environment
                (ok | AuthFailure r | other ValueError +/- duck reason | PermissionError +/- duck reason |
                AuthUnavailableError | anything else), _AuthMiddleware, the error serializer, the proxy-note
                derivation of make_wsgi_app, and the client's _parse_unauthorized over JSON-like values.
regenerated   : AuthReason members, the build_proxy_hint f-string, PROOF_HEADER, the Accept token of _wants_html, the
                exception classes suppressed around json.loads in _parse_unauthorized, _MAX_UNAUTHORIZED_DETAIL and the
                two HTML sniffing prefixes -> gen/G_Unauthorized.v; tie/T_Unauthorized.v proves them equal to (or, for
                the suppressed classes, a superset of) what the theorems are about and restates the theorems over them.
correspondence: (server) real Falcon apps from make_wsgi_app around authenticators built with the repo's own
                chain_authenticate / require_all / PreconditionGate / mtls_authenticate_xfcc / proxy_proof_gate, requests
                steering every leaf to every exception kind x Accept headers; status, the four headers, the body fields and
                the list of leaves invoked are compared with the model.  (client) the real _parse_unauthorized on a corpus
                of 401 bodies (every JSON shape, invalid JSON, HTML, empty, huge, deeply nested, encodings) vs the model.
oracle        : the property's own clauses evaluated on the real responses / real client results, independent of the model.

Readings adopted where the statement leaves room
  * "the client asked for HTML"  = the Accept header contains the substring ``text/html`` (spec 4.2); that is what the model
    and the theorems say.  The oracle on the real responses is lenient about case (``TEXT/HTML`` may be answered either way).
  * "closed set" = the six codes of docs/unauthorized-spec.md section 3 (read from the tree under test) -- the AuthReason
    members are regenerated and tied to the same list.
  * "Chains report missing_credential only when every alternative saw none": an *alternative* is a chain link that was
    tried and answered with a ValueError (that is what chaining means).  A PermissionError is a precondition that
    short-circuits the chain (spec 3.1, require_all); if a third-party PermissionError itself declares
    ``missing_credential`` through the duck attribute, the 401 carries that code although earlier links may have seen a
    credential.  No built-in does this (ProofError declares proxy_required); the theorem states the side condition, the
    oracle skips exactly those scenarios.
  * "an authenticator outage yields 503": any consulted authenticator raising AuthUnavailableError (an outage raised as a
    ValueError is, by the class's own documentation, not an outage signal).
  * HEAD requests carry no body by HTTP; requests are POST / GET.
"""
from __future__ import annotations

import html as _html
import io
import json
import re
from typing import Any

META = {
    "id": "C21",
    "technique": "Coq proof (induction over authenticator composition trees, JSON-like values) + regenerated constants/f-string/suppress list tie + differential correspondence on real Falcon apps and the real client parser",
    "level_text": "Coq theorems for ALL compositions (unbounded chain length and nesting) and ALL leaf behaviours: every rejection is a 401 "
    "whose reason is in the regenerated AuthReason list, header and JSON envelope carry the same reason, no-store always, the proxy note is a "
    "function of the app configuration alone and present iff a proxy header is declared anywhere in it, a chain reports missing_credential only "
    "if every link did, an unavailable authenticator that is consulted yields 503, and _parse_unauthorized is total with a closed-set reason "
    "(and inverts the server's envelope).  The hand model is tied to the code by running real apps / the real parser against it.",
    "level_note": "Trusted: Coq kernel (vm_compute), t_c21_reasons translator, harness (leaf observation, body parsing); modelled not verified: "
    "Falcon's dispatch of HTTPUnauthorized/HTTPServiceUnavailable to the serializer, json.dumps/json.loads/html.escape (inverted by the harness), "
    "str()/repr() of non-ASCII strings nested in containers, str.strip()/bytes.decode (given to the model as input), json.loads raising only "
    "ValueError subclasses or RecursionError.",
    "design_ref": "§5 C21",
}

H_REASON = "VGI-Auth-Reason"
H_PROXY = "VGI-Auth-Proxy-Required"
XFCC = "x-forwarded-client-cert"
PROOF = "VGI-Proxy-Proof"
ORDER = ["missing_credential", "invalid_credential", "expired_credential", "insufficient_scope", "proxy_required", "unauthorized"]
NAMES = ["MISSING_CREDENTIAL", "INVALID_CREDENTIAL", "EXPIRED_CREDENTIAL", "INSUFFICIENT_SCOPE", "PROXY_REQUIRED", "UNAUTHORIZED"]
CTOR = dict(zip(ORDER, ["Missing", "Invalid", "Expired", "Insufficient", "ProxyRequired", "Unauthorized"]))

ACCEPTS: list[str | None] = [
    None, "*/*", "application/json", "text/html", "text/html,application/xhtml+xml,application/xml;q=0.9,*/*;q=0.8",
    "application/json, text/html;q=0.1", "TEXT/HTML", "text/htm", "xtext/htmlx", "", "text/plain", "text /html",
]
DETAILS = ["", "bad token", 'quote" <b>&amp;\'x\'', "ünï—cödé ✓", "x" * 90, "line1\nline2", " "]


def translate(ctx: Any) -> None:
    from translate import t_c21_reasons

    ctx.gen("G_Unauthorized", lambda: t_c21_reasons.coq_text(ctx.repo))


# --------------------------------------------------------------------------- generators
def _spec_catalogue(rng: Any) -> list[list[Any]]:
    cat: list[list[Any]] = [["ok"]]
    for n in NAMES:
        cat.append(["af", n, rng.choice(DETAILS)])
        cat.append(["af", n, ""])
    cat += [["ve", "plain value error"], ["ve", ""], ["ve0"], ["ude"], ["duckve", None, "duck none"]]
    cat += [["duckve", n, rng.choice(DETAILS)] for n in NAMES]
    cat += [["pe", "forbidden"], ["pe0"], ["duckpe", None, "duck perm"], ["prooferr", "no_proof", "header absent"], ["prooferr", "bad_mac", ""]]
    cat += [["duckpe", n, rng.choice(DETAILS)] for n in NAMES]
    cat += [["un", "authority down", 5], ["un", "", 0], ["un", "späť", 120], ["rt", "boom"], ["lookup"], ["key"]]
    return cat


class _Ids:
    def __init__(self) -> None:
        self.n = 0

    def next(self) -> int:
        self.n += 1
        return self.n


DECLS = [(), (), (), ("X-Proxy-A",), ("X-Proxy-A", "X-Proxy-B"), (XFCC,), ("X-Proxy-B", "X-Proxy-B")]
GHDRS = [(), ("X-Gate",), ("X-Proxy-A",), (PROOF,), ("X-Gate", "X-Gate", "X-Proxy-A")]


def _rand_cfg(rng: Any, ids: _Ids, depth: int, in_chain: bool = False) -> Any:
    r = rng.random()
    if depth <= 0 or r < 0.35:
        if rng.random() < 0.15:
            return ("xfcc", ids.next())
        return ("leaf", ids.next(), rng.choice(DECLS))
    if r < 0.70:
        k = rng.choice([1, 2, 2, 3, 3, 3, 4, 5])
        return ("chain", [_rand_cfg(rng, ids, depth - 1, True) for _ in range(k)])
    if r < 0.88:
        gid = ids.next()
        return ("req", gid, rng.choice(GHDRS), None if rng.random() < 0.4 else _rand_cfg(rng, ids, depth - 1))
    gid = ids.next()
    return ("proof", gid, rng.choice(["require", "allow"]), None if rng.random() < 0.4 else _rand_cfg(rng, ids, depth - 1))


def _fixed_cfgs() -> list[tuple[Any, tuple[str, ...] | None, bool]]:
    L = lambda i, d=(): ("leaf", i, d)  # noqa: E731
    return [
        (L(1), None, False),
        (L(1, ("X-Proxy-A",)), None, False),
        (L(1), ("X-Op-Header",), False),
        (L(1), (), True),
        (L(1), ("X-Op-Header", "X-Op-Header", ""), True),
        (("xfcc", 1), None, False),
        (("chain", [L(1)]), None, False),
        (("chain", [L(1), L(2)]), None, False),
        (("chain", [L(1), L(2), L(3)]), None, False),
        (("chain", [L(1), L(2, ("X-Proxy-A",)), L(3)]), None, False),
        (("chain", [L(1), ("xfcc", 2), L(3)]), None, False),
        (("chain", [("chain", [L(1), L(2)]), L(3)]), None, False),
        (("chain", [L(1), ("chain", [L(2), ("chain", [L(3), L(4)])])]), None, False),
        (("req", 1, (), None), None, False),
        (("req", 1, ("X-Gate",), None), None, False),
        (("req", 1, (), L(2)), None, False),
        (("req", 1, ("X-Gate",), L(2, ("X-Proxy-A",))), None, False),
        (("req", 1, (), L(2, ("X-Proxy-A",))), None, False),
        (("proof", 1, "require", None), None, True),
        (("proof", 1, "require", L(2)), None, False),
        (("proof", 1, "allow", L(2)), None, False),
        (("proof", 1, "allow", None), None, False),
        (("proof", 1, "require", ("xfcc", 2)), None, True),
        (("chain", [("req", 1, ("X-Gate",), L(2)), ("req", 3, (), L(4)), L(5)]), None, False),
        (("chain", [("proof", 1, "require", L(2)), L(3)]), None, False),
        (("req", 1, (), ("chain", [L(2), L(3), L(4)])), ("X-Op-Header",), False),
        (("chain", [L(i) for i in range(1, 8)]), None, False),
    ]


def _depends_on_proxy(cfg: Any) -> bool:
    k = cfg[0]
    if k == "leaf":
        return len(cfg[2]) > 0
    if k == "xfcc":
        return True
    if k == "chain":
        return any(_depends_on_proxy(c) for c in cfg[1])
    if k == "req":
        return len(cfg[2]) > 0 or (cfg[3] is not None and _depends_on_proxy(cfg[3]))
    if k == "proof":
        return cfg[2] == "require" or (cfg[3] is not None and _depends_on_proxy(cfg[3]))
    raise AssertionError(cfg)


# --------------------------------------------------------------------------- Coq rendering
def cstr(s: str) -> str:
    """str -> list of code points, as the compact literal decoded by M_Unauthorized.u (fast to parse)."""
    out = []
    for ch in s:
        o = ord(ch)
        if 32 <= o < 127 and ch not in '\\"':
            out.append(ch)
        else:
            out.append("\\%06x" % o)
    return '(u "' + "".join(out) + '")'


def _c_cfg(cfg: Any) -> str:
    from vlib.coqterm import cN, clist

    k = cfg[0]
    if k == "leaf":
        return f"(CLeaf {cN(cfg[1])} {clist(cstr(h) for h in cfg[2])})"
    if k == "xfcc":
        return f"(CLeaf {cN(cfg[1])} [{cstr(XFCC)}])"
    if k == "chain":
        return f"(CChain {clist(_c_cfg(c) for c in cfg[1])})"
    if k in ("req", "proof"):
        gh = cfg[2] if k == "req" else ((PROOF,) if cfg[2] == "require" else ())
        inner = "None" if cfg[3] is None else f"(Some {_c_cfg(cfg[3])})"
        return f"(CRequire {cN(cfg[1])} {clist(cstr(h) for h in gh)} {inner})"
    raise AssertionError(cfg)


def _c_reason_opt(v: str | None) -> str:
    return "None" if v is None else f"(Some {CTOR[v]})"


def _c_outcome(d: list[Any]) -> str | None:
    k = d[0]
    if k == "ok":
        return "OOk"
    if k == "af":
        if d[1] is None:
            return None
        return f"(ORaise (XAuthFailure {CTOR[d[1]]} {cstr(d[2])}))"
    if k == "ve":
        return f"(ORaise (XValue {_c_reason_opt(d[1])} {cstr(d[2])} {cstr(d[3])}))"
    if k == "pe":
        return f"(ORaise (XPerm {_c_reason_opt(d[1])} {cstr(d[2])}))"
    if k == "un":
        return f"(ORaise (XUnavail {cstr(d[1])} {cstr(d[2])}))"
    return "(ORaise XOther)"


def _c_json(v: Any) -> str:
    from vlib.coqterm import cbool, clist

    if v is None:
        return "JNull"
    if isinstance(v, bool):
        return f"(JBool {cbool(v)})"
    if isinstance(v, (int, float)):
        return f"(JNum {cstr(repr(v))})"
    if isinstance(v, str):
        return f"(JStr {cstr(v)})"
    if isinstance(v, list):
        return f"(JArr {clist(_c_json(x) for x in v)})"
    if isinstance(v, dict):
        return "(JObj " + clist(f"pair {cstr(k)} {_c_json(x)}" for k, x in v.items()) + ")"
    raise AssertionError(type(v))


def _opt(x: str | None) -> str:
    from vlib.coqterm import copt

    return copt(None if x is None else cstr(x))


def _depth(v: Any) -> int:
    d, stack = 0, [(v, 1)]
    while stack:
        x, k = stack.pop()
        d = max(d, k)
        if isinstance(x, list):
            stack.extend((y, k + 1) for y in x)
        elif isinstance(x, dict):
            stack.extend((y, k + 1) for y in x.values())
    return d


_HTML_REASON = re.compile(r'<div class="reason">(.*?)</div>', re.S)
_HTML_DETAIL = re.compile(r'<div class="detail">(.*?)</div>', re.S)
_HTML_NOTE = re.compile(r'<div class="note"><strong>[^<]*</strong>(.*?)</div>', re.S)


def _observe_response(r: Any) -> dict[str, Any]:
    h = {k.lower(): v for k, v in r.headers.items()}
    ct = h.get("content-type", "")
    out: dict[str, Any] = {
        "status": r.status_code, "h_reason": h.get(H_REASON.lower()), "h_proxy": h.get(H_PROXY.lower()),
        "h_cache": h.get("cache-control"), "h_retry": h.get("retry-after"), "ctype": ct, "kind": 0,
        "b_error": None, "b_reason": None, "b_detail": None, "b_hint": None, "json": None,
    }
    if r.status_code != 401:
        return out
    if ct.startswith("application/json"):
        try:
            j = json.loads(r.content)
        except ValueError:
            out["kind"] = 8
            return out
        out["json"] = j
        if not isinstance(j, dict):
            out["kind"] = 9
            return out
        out["kind"] = 1
        g = lambda k: j[k] if isinstance(j.get(k), str) else None  # noqa: E731
        out.update(b_error=g("error"), b_reason=g("reason"), b_detail=g("detail"), b_hint=g("proxy_hint"))
    elif ct.startswith("text/html"):
        t = r.content.decode("utf-8", "replace")
        out["kind"] = 2
        m = _HTML_REASON.search(t)
        out["b_reason"] = None if m is None else _html.unescape(m.group(1))
        m = _HTML_DETAIL.search(t)
        out["b_detail"] = None if m is None else _html.unescape(m.group(1))
        m = _HTML_NOTE.search(t)
        out["b_hint"] = None if m is None else _html.unescape(m.group(1))
    return out


def _spec_codes(ctx: Any) -> list[str]:
    text = (ctx.repo / "docs" / "unauthorized-spec.md").read_text()
    sec = text.split("## 3. Reason codes", 1)[1].split("\n## ", 1)[0].split("### ", 1)[0]
    return re.findall(r"^\| `([a-z_]+)` \|", sec, flags=re.M)


# --------------------------------------------------------------------------- the check
def run(ctx: Any) -> None:
    from vlib.coqterm import cN, cbool, clist

    translate(ctx)
    # two builds: the theorems about the model stand on their own; the tie (which depends on the regenerated file) is separate,
    # so a source change that breaks a tie lemma does not hide which theorems still hold of the model
    ctx.prove(
        ["prop/P_C21.vo", "refuted/R_C21.vo"],
        {
            "P_C21": [
                "C21_rejection_is_401", "C21_reason_closed_set", "C21_header_body_agree", "C21_no_store",
                "C21_proxy_note_constant_per_app", "C21_proxy_note_iff_proxy_dependent", "C21_declarations_propagate",
                "C21_missing_only_if_all_missing", "C21_missing_general", "C21_unavailable_503", "C21_401_never_hides_outage",
                "C21_client_parse_total_closed", "C21_client_unknown_reason_is_unauthorized", "C21_client_inverts_server_envelope",
            ],
            "R_C21": ["C21_client_parse_total_refuted_when_only_ValueError_is_suppressed"],
        },
    )
    ctx.prove(
        ["tie/T_Unauthorized.vo"],
        {
            "T_Unauthorized": [
                "reasons_tie", "hint_template_tie", "proof_header_tie", "html_token_tie", "suppressed_tie", "max_detail_tie",
                "html_prefixes_tie", "C21_source_reason_closed_set", "C21_source_client_parse_total_closed",
            ],
        },
    )

    import logging

    logging.disable(logging.CRITICAL)
    import falcon.testing
    from harness import c21_service as S
    from harness.rawrpc import request_bytes
    from vgi_rpc.http import make_wsgi_app

    quick = ctx.tier == "quick"
    rng = ctx.rng
    spec_codes = _spec_codes(ctx)
    ctx.obligation("env:spec-section-3-has-six-codes", "environment", spec_codes == ORDER, f"docs/unauthorized-spec.md section 3 lists {spec_codes}")
    closed = set(spec_codes) if spec_codes else set(ORDER)
    from translate import t_c21_reasons

    try:
        src_reasons = t_c21_reasons.reasons(ctx.repo)
    except Exception:  # noqa: BLE001 - already recorded by ctx.gen
        src_reasons = []
    ctx.obligation("tie:AuthReason-equals-spec-table", "tie", [v for _, v in src_reasons] == spec_codes, f"AuthReason values {[v for _, v in src_reasons]} vs spec {spec_codes}")

    srv = S.make_server()
    body_ok = request_bytes("f", srv._methods["f"].params_schema, {"a": 1}, {})
    cat = _spec_catalogue(rng)
    heavy = [s for s in cat if s[0] != "ok"]

    cfgs = _fixed_cfgs()
    for _ in range(18 if quick else 150):
        ids = _Ids()
        c = _rand_cfg(rng, ids, rng.choice([1, 2, 2, 3]))
        pah = rng.choice([None, None, (), ("X-Op-Header",), ("X-Proxy-A", "X-Op-Header")])
        cfgs.append((c, pah, rng.random() < 0.2))

    ctx.rule = ("server cases = (authenticator composition tree, proxy_auth_headers, proxy_proof_required) x per-leaf behaviour (ok | AuthFailure r | "
                "ValueError kinds | PermissionError kinds | ProofError | AuthUnavailableError | other) x Accept x {POST, GET}; client cases = 401 body; "
                "distinct by the full case; non-trivial = at least one leaf raises (server) / every body (client)")
    server_cases: list[Any] = []
    hint_cases: list[tuple[str, str]] = []
    hint_meta: list[dict[str, Any]] = []
    server_meta: list[dict[str, Any]] = []
    envelopes: list[tuple[bytes, str]] = []

    def mk_headers(cfg: Any, assign: dict[int, list[Any]], accept: str | None, extra: dict[str, str]) -> dict[str, str]:
        h = {"Content-Type": "application/vnd.apache.arrow.stream", **extra}
        for i, sp in assign.items():
            h[f"X-L{i}"] = json.dumps(sp)
        if accept is not None:
            h["Accept"] = accept
        return h

    for ci, (cfg, pah, ppr) in enumerate(cfgs):
        kw: dict[str, Any] = {}
        if pah is not None:
            kw["proxy_auth_headers"] = list(pah)
        app = make_wsgi_app(srv, prefix="", token_key=b"k" * 32, authenticate=S.build(cfg), proxy_proof_required=ppr,
                            enable_landing_page=False, enable_not_found_page=False, enable_describe_page=False, **kw)
        client = falcon.testing.TestClient(app)
        lv = S.leaves(cfg)
        synth = [i for i, k, _ in lv if k in ("leaf", "gate")]
        iso = {i: (S._leaf(i, tuple(d[2])) if k == "leaf" else S._gate(i, tuple(d[2])) if k == "gate" else None) for i, k, d in lv}
        for i, k, d in lv:
            if k == "xfcc":
                from vgi_rpc.http._mtls import mtls_authenticate_xfcc

                iso[i] = mtls_authenticate_xfcc()
            elif k == "proofgate":
                from vgi_rpc.http._proof import ProxyProofConfig, proxy_proof_gate

                iso[i] = proxy_proof_gate(ProxyProofConfig(mode=d[2], origin_id="origin-1", secrets={"k1": (S.PROOF_SECRET, "lbl")}))
        top_links = [S.build(c) for c in cfg[1]] if cfg[0] == "chain" else []
        top_auth = S.build(cfg)
        depends = _depends_on_proxy(cfg) or bool(pah) or ppr
        notes_seen: set[tuple[Any, Any]] = set()
        app_note: list[str] = []   # the first note text this app put into a JSON envelope
        first_case = len(server_cases)

        # scenarios
        scen: list[dict[int, list[Any]]] = [{}]
        scen.append({i: ["af", "MISSING_CREDENTIAL", ""] for i in synth})
        for i in synth:
            picks = heavy if (ci < 12 and not quick) or (len(synth) == 1 and ci < 6) else rng.sample(heavy, (2 if len(synth) > 3 else 3) if quick else 14)
            for sp in picks:
                base = {j: rng.choice([["af", "MISSING_CREDENTIAL", ""], ["af", "MISSING_CREDENTIAL", "none"], ["ve", "nope"], ["ok"]]) for j in synth if j != i}
                base = {j: v for j, v in base.items() if v != ["ok"] or rng.random() < 0.3}
                scen.append({**{j: v for j, v in base.items()}, i: sp})
        for _ in range(3 if quick else 30):
            scen.append({i: rng.choice(cat) for i in synth if rng.random() < 0.9})
        for _ in range(2 if quick else 10):
            scen.append({i: rng.choice([["af", "MISSING_CREDENTIAL", ""], ["af", "MISSING_CREDENTIAL", "x"], ["af", "INVALID_CREDENTIAL", "y"], ["duckpe", "MISSING_CREDENTIAL", "z"]]) for i in synth})

        for assign in scen:
            accept = rng.choice(ACCEPTS)
            extra: dict[str, str] = {}
            if any(k == "xfcc" for _, k, _ in lv):
                x = rng.choice([None, None, 'By=spiffe://proxy;Hash=abc123;Subject="CN=client,O=Org"', ";;;", ""])
                if x is not None:
                    extra[XFCC] = x
            if any(k == "proofgate" for _, k, _ in lv):
                p = rng.choice([None, None, "", "garbage", "a,b", "v1.k1.123.nonce.sig"])
                if p is not None:
                    extra[PROOF] = p
            method = "GET" if rng.random() < 0.15 else "POST"
            headers = mk_headers(cfg, assign, accept, extra)
            del S.CONSULTED[:]
            del S.LOG[:]
            r = client.simulate_request(method, "/f", headers=headers, body=body_ok if method == "POST" else b"", wsgierrors=io.StringIO())
            consulted = list(S.CONSULTED)
            ran = list(S.LOG)
            obs = _observe_response(r)
            ctx.count("impl_runs")
            # what every leaf does on this request, observed on an isolated instance of the same leaf
            req = falcon.testing.create_req(method=method, path="/f", headers=headers)
            leaf_out = {i: S.describe_exc(iso[i], req) for i, _, _ in lv}
            del S.CONSULTED[:]
            raising = [i for i in consulted if leaf_out[i][0] != "ok"]
            repl = {"config": cfg, "proxy_auth_headers": pah, "proxy_proof_required": ppr, "leaf_behaviour": {str(k): v for k, v in assign.items()},
                    "extra_headers": extra, "accept": accept, "method": method, "observed": {k: v for k, v in obs.items() if k != "json"}, "consulted": consulted}
            ctx.case([cfg, pah, ppr, sorted(assign.items()), extra, accept, method], nontrivial=bool(raising))
            ctx.tally("status", obs["status"])
            ctx.tally("top", cfg[0])
            ctx.tally("accept_html", accept is not None and "text/html" in accept)
            for i in consulted:
                ctx.tally("leaf_outcome", leaf_out[i][0] + ("" if leaf_out[i][0] not in ("af",) else ":" + str(leaf_out[i][1])))
            if len(ctx.samples) < 3 and obs["status"] == 401:
                ctx.sample({"config": cfg, "leaf_behaviour": assign, "accept": accept, "status": 401, "reason": obs["h_reason"]})

            # ---------------- property oracle on the real response (independent of the model)
            status = obs["status"]
            wants = accept is not None and "text/html" in accept.lower()  # lenient: media types are case-insensitive
            top = S.describe_exc(top_auth, req)
            del S.CONSULTED[:]
            if top[0] in ("af", "ve", "pe") and status != 401:
                ctx.violation("rejection-not-401", f"authenticate raised {top[0]} but the response is {status}", repl)
            if top[0] == "un" and status != 503:
                ctx.violation("outage-not-503", f"authenticate raised AuthUnavailableError but the response is {status}", repl)
            if any(leaf_out[i][0] == "un" for i in consulted) and status != 503:
                ctx.violation("consulted-outage-not-503", f"a consulted authenticator was unavailable but the response is {status}", repl)
            if top[0] == "ok" and (status in (401, 503) or not ran) and method == "POST":
                ctx.violation("accepted-but-not-served", f"authenticate accepted but status {status}", repl)
            if status == 401:
                if obs["h_reason"] not in closed:
                    ctx.violation("reason-header-outside-closed-set", f"{H_REASON}={obs['h_reason']!r}", repl)
                if obs["h_cache"] is None or "no-store" not in [t.strip().lower() for t in obs["h_cache"].split(",")]:
                    ctx.violation("401-without-no-store", f"Cache-Control={obs['h_cache']!r}", repl)
                if not wants:
                    if obs["kind"] != 1:
                        ctx.violation("non-html-request-without-json-envelope", f"content-type {obs['ctype']!r}, kind {obs['kind']}", repl)
                    else:
                        if obs["b_reason"] != obs["h_reason"]:
                            ctx.violation("header-body-reason-differ", f"header {obs['h_reason']!r} body {obs['b_reason']!r}", repl)
                        if obs["b_error"] != "unauthorized" or obs["b_detail"] is None:
                            ctx.violation("envelope-malformed", f"error={obs['b_error']!r} detail={obs['b_detail']!r}", repl)
                        envelopes.append((r.content, obs["h_reason"]))
                note_hdr = obs["h_proxy"]
                note_body = obs["b_hint"]
                if note_hdr not in (None, "true"):
                    ctx.violation("proxy-required-header-not-true", f"{H_PROXY}={note_hdr!r}", repl)
                if obs["kind"] == 1 and (note_hdr is None) != (note_body is None or note_body == ""):
                    ctx.violation("proxy-note-header-body-differ", f"header {note_hdr!r} body hint {note_body!r}", repl)
                if obs["kind"] == 1 and obs["json"] is not None and "proxy_hint" in obs["json"] and not obs["json"]["proxy_hint"]:
                    ctx.violation("proxy-hint-present-but-empty", "proxy_hint key present with an empty value", repl)
                if (note_hdr is not None or note_body) and not depends:
                    ctx.violation("proxy-note-without-proxy-dependency", "note on a service whose configuration declares no proxy header", repl)
                notes_seen.add((note_hdr, note_body if obs["kind"] in (1, 2) else "?"))
                if cfg[0] == "chain" and obs["h_reason"] == "missing_credential":
                    links = []
                    for lk in top_links:
                        links.append(S.describe_exc(lk, req))
                        del S.CONSULTED[:]
                    if not any(x[0] == "pe" and x[1] == "missing_credential" for x in links):
                        if not all(x[0] == "af" and x[1] == "missing_credential" for x in links):
                            ctx.violation("chain-missing-although-a-link-saw-a-credential", f"links answered {[x[:2] for x in links]}", repl)
            else:
                if obs["h_reason"] is not None or obs["h_proxy"] is not None:
                    pass  # the statement does not speak about non-401 responses (spec 4.1 does; the model comparison below covers it)

            # ---------------- model case
            outs = [(i, _c_outcome(leaf_out[i])) for i, _, _ in lv]
            if any(o is None for _, o in outs):
                continue
            env = clist(f"pair {cN(i)} {o}" for i, o in outs)
            inp = f"(pair (pair (pair (pair {_c_cfg(cfg)} {clist(cstr(h) for h in (pah or ()))}) {cbool(ppr)}) {env}) {_opt(accept)})"
            st = obs["status"]
            if top[0] == "ok" and st not in (401, 500, 503):
                # the authenticator accepted: whatever the route answers (200, 405, a page) is "passed" = 200 in the model;
                # only the two VGI rejection headers are still compared (they must be absent)
                st = 200
                obs = {**obs, "h_cache": None, "h_retry": None}
            hd = f"(pair {cN(st)} (pair {_opt(obs['h_reason'])} (pair {_opt(obs['h_proxy'])} (pair {_opt(obs['h_cache'])} {_opt(obs['h_retry'])}))))"
            if obs["kind"] in (1, 2) and obs["b_hint"] and not app_note:
                app_note.append(obs["b_hint"])
            bd = (obs["kind"], obs["b_error"], obs["b_reason"], obs["b_detail"], obs["b_hint"])
            server_cases.append((inp, (hd, bd, clist(cN(i) for i in consulted))))  # rendered after the app's note is known
            server_meta.append(repl)
        # the note text is compared with the model once per app; per request it is abbreviated when it is that text
        for k in range(first_case, len(server_cases)):
            inp_k, (hd_k, bd_k, cons_k) = server_cases[k]
            hint_k = None if bd_k[4] is None else ("\x01" if app_note and bd_k[4] == app_note[0] else bd_k[4])
            bd_s = f"(pair {cN(bd_k[0])} (pair {_opt(bd_k[1])} (pair {_opt(bd_k[2])} (pair {_opt(bd_k[3])} {_opt(hint_k)}))))"
            server_cases[k] = (inp_k, f"(pair {hd_k} (pair {bd_s} {cons_k}))")
        if notes_seen:
            hint_cases.append((f"(pair (pair {_c_cfg(cfg)} {clist(cstr(h) for h in (pah or ()))}) {cbool(ppr)})", cstr(app_note[0] if app_note else "")))
            hint_meta.append({"config": cfg, "proxy_auth_headers": pah, "proxy_proof_required": ppr, "note": app_note[0] if app_note else None})
        # identical note on every 401 of this service
        if len(notes_seen) > 1:
            ctx.violation("proxy-note-varies-across-401s", f"one service produced {len(notes_seen)} different notes", {"config": cfg, "proxy_auth_headers": pah, "notes": sorted(map(str, notes_seen))})
        if notes_seen and depends and any(n[0] is None for n in notes_seen):
            # spec section 5 MUST (the statement only says "present only when"): reported through the model comparison, not here
            ctx.count("note_absent_on_proxy_dependent_service")

    ctx.log(f"server: {len(cfgs)} apps, {len(server_cases)} requests answered")
    o = "option_eqb bytes_eqb"
    five = f"pair_eqb N.eqb (pair_eqb ({o}) (pair_eqb ({o}) (pair_eqb ({o}) ({o}))))"
    hdr = "From Coq Require Import String.\nFrom Coq Require Import List NArith Bool.\nFrom VGI Require Import M_Unauthorized Corr.\nImport ListNotations.\nOpen Scope N_scope."
    o5 = "(N * (option str * (option str * (option str * option str))))"
    ok, bad, clog = ctx.coq_mismatches(
        hdr, "run_case", f"pair_eqb ({five}) (pair_eqb ({five}) (list_eqb N.eqb))", server_cases,
        "(cfg * list str * bool) * list (N * outcome) * option str", f"{o5} * ({o5} * list N)", shard=400,
    )
    ctx.count("model_cases_server", len(server_cases))
    ctx.obligation("correspondence:M_Unauthorized.run_case", "correspondence", ok and not bad, clog if not ok else f"{len(bad)} of {len(server_cases)} cases disagree")
    for i in bad[:3]:
        shown = ctx.coq_show(hdr, f"run_case {server_cases[i][0]}")
        ctx.violation("model-impl-disagree-server", "implementation and model answer a request differently", {**server_meta[i], "model": shown[-1200:]})

    seen_h: set[tuple[str, str]] = set()
    keep = [k for k, c in enumerate(hint_cases) if not (c in seen_h or seen_h.add(c))]
    hint_cases = [hint_cases[k] for k in keep]
    hint_meta = [hint_meta[k] for k in keep]
    ok3, bad3, clog3 = ctx.coq_mismatches(hdr, "run_hint", "bytes_eqb", hint_cases, "cfg * list str * bool", "str", shard=400)
    ctx.count("model_cases_hint", len(hint_cases))
    ctx.obligation("correspondence:M_Unauthorized.run_hint", "correspondence", ok3 and not bad3, clog3 if not ok3 else f"{len(bad3)} of {len(hint_cases)} apps disagree")
    for i in bad3[:3]:
        ctx.violation("model-impl-disagree-proxy-note", "the note of a service differs from the model's build_proxy_hint of its declared headers", hint_meta[i])
    ctx.log("server correspondence evaluated")
    # ----------------------------------------------------------------------- client
    from vgi_rpc.http._client import _open_response_stream, _parse_unauthorized
    from vgi_rpc.http._unauthorized import AuthenticationError, AuthReason

    env_ = lambda **k: json.dumps(k).encode()  # noqa: E731
    bodies: list[bytes] = []
    for v in ORDER:
        bodies.append(env_(error="unauthorized", reason=v, detail="d " + v))
        bodies.append(env_(error="unauthorized", reason=v, detail="", proxy_hint="check the proxy"))
    for v in ["Expired_Credential", "expired_credential ", " expired_credential", "", "nan", "None", "EXPIRED_CREDENTIAL", "unauthorised", "expired—credential", "proxy_required\x00"]:
        bodies.append(env_(error="unauthorized", reason=v, detail="x"))
    for v in [None, 1, -1, 1.5, 1e300, True, False, ["expired_credential"], {"expired_credential": 1}, [], {}, [None, True, 1.25, "a'b", 'a"b', "a'\"b", "t\tn\nr\r\\ \x01\x7f"], {"k'": ["v"], "n": {"m": None}}]:
        bodies.append(env_(error="unauthorized", reason=v, detail="x"))
        bodies.append(env_(error="unauthorized", reason="invalid_credential", detail=v))
        bodies.append(env_(reason="proxy_required", proxy_hint=v))
    bodies += [env_(reason="expired_credential"), env_(detail="only detail"), env_(), env_(error="other", title="401 Unauthorized"),
               env_(reason="insufficient_scope", extra={"a": [1, 2, {"b": None}]}, detail="ünï—cödé"),
               b'{"reason":"expired_credential","reason":"invalid_credential"}', b'{"reason": NaN}', b'{"reason": Infinity, "detail": -Infinity}',
               b'{"reason":"expired_credential","detail":null}']
    bodies += [b"null", b"true", b"false", b"12", b"-1.5e10", b'"str"', b'"expired_credential"', b"[]", b'[1,"a"]', b"NaN", b"Infinity", b'[{"reason":"expired_credential"}]', b"0", b'""']
    bodies += [b"", b" ", b"\n\t ", b"{", b"}", b"{'a':1}", b"unauthorized", b"Unauthorized\n", b"\xff\xfe", b"\xff", b'{"reason":"expired_credential"', b'{"reason":"expired_credential"}x',
               b'{"reason":"expired_credential"}\xff', b'\xef\xbb\xbf{"reason":"expired_credential"}', '{"reason":"expired_credential"}'.encode("utf-16"), '{"reason":"expired_credential"}'.encode("utf-32"),
               '{"reason":"expired_credential"}'.encode("utf-16-le"), b"\x00", b"401 Unauthorized", "zugriff verweigert – ü".encode(), b'{"reason": "\\ud800"}', b'{"detail": "\\ud83d\\ude00", "reason": "unauthorized"}']
    bodies += [b"<!DOCTYPE html><html><body>401</body></html>", b"<html>", b"  \n<HTML lang='en'>", b"<!doctype", b"<!DOCTYPE", b"<htm", b"<!DOCTYP", b"x<html>", b"<HtMl", b"<!DocType html>", "<İdoctype".encode(), b"<html" + b"x" * 3000, b"\xef\xbb\xbf<html>"]
    bodies += [b"a" * 1_000_000, b"a" * 499, b"a" * 500, b"a" * 501, b" " + b"b" * 600 + b" ", ("é" * 700).encode(), b"1" * 5000, b'{"reason": ' + b"1" * 5000 + b"}", b'{"detail":"' + b"d" * 100_000 + b'","reason":"expired_credential"}']
    deep = [b"[" * 100_000, b'{"a":' * 100_000, b"[" * 20_000 + b"]" * 20_000, b'{"reason":"expired_credential","detail":' + b"[" * 50_000 + b"]" * 50_000 + b"}",
            b"[" * 10_000, b"[" * 9_000 + b"]" * 9_000, b"[" * 2_000 + b"]" * 2_000, b'{"detail":' + b"[" * 3_000 + b"]" * 3_000 + b"}", b"[" * 200 + b"]" * 200,
            b'{"detail":' + b'{"k":' * 150 + b"1" + b"}" * 150 + b"}", b'{"a":' * 5_000 + b"1" + b"}" * 5_000]
    bodies += deep
    base = env_(error="unauthorized", reason="expired_credential", detail="token expired", proxy_hint="h")
    for _ in range(60 if quick else 600):
        b = bytearray(base)
        for _ in range(rng.choice([1, 1, 2, 3])):
            k = rng.randrange(3)
            pos = rng.randrange(len(b) + 1)
            if k == 0:
                b.insert(min(pos, len(b)), rng.choice(b'{}[]",:\\ \n0aeE.-\xff\x00u'))
            elif k == 1 and b:
                del b[min(pos, len(b) - 1)]
            elif b:
                b[min(pos, len(b) - 1)] = rng.choice(b'{}[]",:\\ \n0aeE.-\xff\x00u')
        bodies.append(bytes(b))
    bodies += [e for e, _ in envelopes[:: max(1, len(envelopes) // (40 if quick else 300))]]
    bodies = list(dict.fromkeys(bodies))

    client_cases: list[tuple[str, str]] = []
    client_meta: list[dict[str, Any]] = []
    for content in bodies:
        shown = content[:120].hex() + ("" if len(content) <= 120 else f"...(+{len(content) - 120} bytes)")
        repl = {"body_hex_prefix": shown, "body_len": len(content), "rebuild": None}
        if len(content) > 120:
            for tok in (b"[", b'{"a":', b"a", b"1"):
                if content == tok * (len(content) // len(tok)):
                    repl["rebuild"] = f"{tok!r} * {len(content) // len(tok)}"
        ctx.count("impl_runs")
        ctx.case(["client", content.hex() if len(content) < 4000 else [len(content), content[:64].hex()]], nontrivial=True)
        res: Any
        try:
            res = _parse_unauthorized(content)
            raised = None
        except BaseException as e:  # noqa: BLE001 - totality is the property
            res, raised = None, e
        try:
            _open_response_stream(content, 401)
            via = "returned"
        except AuthenticationError:
            via = "AuthenticationError"
        except BaseException as e:  # noqa: BLE001
            via = type(e).__name__
        ctx.tally("client_result", "raised:" + type(raised).__name__ if raised is not None else "reason:" + str(getattr(getattr(res, "reason", None), "value", None)))
        # oracle
        if raised is not None or via != "AuthenticationError":
            nm = type(raised).__name__ if raised is not None else via
            key = "client-parse-deep-json-recursionerror" if nm == "RecursionError" else f"client-parse-raises-{nm}"
            ctx.violation(key, f"a 401 body makes the client raise {nm} instead of AuthenticationError", {**repl, "raised": nm, "via_open_response_stream": via})
        else:
            if not isinstance(res, AuthenticationError) or not isinstance(res.reason, AuthReason) or res.reason.value not in closed:
                ctx.violation("client-reason-outside-closed-set", f"client produced {res!r} / reason {getattr(res, 'reason', None)!r}", repl)
        # model input: what json.loads does with the body, and the decoded, stripped text (both computed by the runtime)
        try:
            v = json.loads(content)
            lo: Any = ("val", v)
        except RecursionError:
            lo = ("exc", "KRecursionError")
        except ValueError:
            lo = ("exc", "KValueError")
        except BaseException:  # noqa: BLE001
            lo = ("exc", "KOther")
        if lo[0] == "val" and (_depth(lo[1]) > 300 or len(content) > 20_000):
            ctx.count("client_cases_oracle_only")
            continue
        text = content.decode(errors="replace").strip()[:640]
        lo_c = f"(LVal {_c_json(lo[1])})" if lo[0] == "val" else f"(LExc {lo[1]})"
        if raised is None:
            idx = ORDER.index(res.reason.value) if res.reason.value in ORDER else 99
            out = f"(pair 0 (pair {cN(idx)} (pair {cstr(res.detail)} {cstr(res.proxy_hint)})))"
        else:
            code = {"ValueError": 1, "RecursionError": 2}.get(type(raised).__name__, 3)
            out = f"(pair {code} (pair 0 (pair {cstr('')} {cstr('')})))"
        client_cases.append((f"(pair {lo_c} {cstr(text)})", out))
        client_meta.append(repl)
    # end to end: the client reads the reason the server put in the header
    for content, hreason in envelopes:
        e = None
        try:
            e = _parse_unauthorized(content)
        except BaseException:  # noqa: BLE001 - reported above when the body is in the corpus
            pass
        if e is None or getattr(e.reason, "value", None) != hreason:
            ctx.violation("client-reads-different-reason-than-header", f"server header {hreason!r}, client reason {getattr(getattr(e, 'reason', None), 'value', None)!r}", {"body": content.decode('utf-8', 'replace')[:400]})
    ctx.count("end_to_end_envelopes", len(envelopes))

    ctx.log(f"client: {len(bodies)} bodies parsed")
    hdr_c = hdr + "\nFrom VGI Require Import G_Unauthorized."
    ok2, bad2, clog2 = ctx.coq_mismatches(
        hdr_c, "run_client_with gen_client_suppressed gen_max_detail", "pair_eqb N.eqb (pair_eqb N.eqb (pair_eqb bytes_eqb bytes_eqb))", client_cases,
        "loads * str", "N * (N * (str * str))", shard=400,
    )
    ctx.count("model_cases_client", len(client_cases))
    ctx.obligation("correspondence:M_Unauthorized.run_client_with", "correspondence", ok2 and not bad2, clog2 if not ok2 else f"{len(bad2)} of {len(client_cases)} cases disagree")
    for i in bad2[:3]:
        shown = ctx.coq_show(hdr_c, f"run_client_with gen_client_suppressed gen_max_detail {client_cases[i][0]}") if len(client_cases[i][0]) < 20000 else "(large)"
        ctx.violation("model-impl-disagree-client", "real _parse_unauthorized and the model turn a body into different errors", {**client_meta[i], "impl": client_cases[i][1][:300], "model": shown[-600:]})

    ctx.assumptions += [
        "Falcon routes HTTPUnauthorized / HTTPServiceUnavailable raised by a middleware's process_request to the app's error serializer (exercised, not modelled)",
        "json.loads raises only ValueError subclasses or RecursionError (model: loads = value | KValueError | KRecursionError | KOther; the theorem excludes KOther)",
        "the model receives json.loads' result and content.decode(errors='replace').strip() as inputs computed by the runtime",
        "str()/repr() of json values is modelled exactly for ASCII; non-ASCII code points nested in containers are assumed printable",
        "leaf authenticators are deterministic per request (each leaf's behaviour is observed on an isolated instance built the same way)",
        "a PermissionError that itself declares missing_credential short-circuits a chain with that code (side condition of C21_missing_only_if_all_missing)",
    ]
