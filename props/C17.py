"""C17 Request size caps and content decoding are enforced.

proof         : coq/prop/P_C17.v over model/M_ReqCaps.v -- the two middlewares + the two chunk loops of _codec.py,
                for ALL bodies, caps, Content-Length values, header strings and ALL decoder behaviours (a decoder is
                an arbitrary well-founded interaction tree; zstandard / zlib themselves are not modelled).
regenerated   : _DECOMPRESS_CHUNK_BYTES, the Encoding enum (order + wire names), every size guard / requested-size
                expression of _MaxRequestBytesMiddleware, _decompress_body_zstd, _decompress_body_gzip, the arm order
                of _CompressionMiddleware.process_request, the installation order in make_wsgi_app and three
                source-shape flags (identity arm, gzip loop leaves at end-of-stream, gzip end-of-stream test) -> gen/G_ReqCaps.v;
                tie/T_ReqCaps.v proves them equal to the modelled terms and restates the theorems over them.
correspondence: the real Falcon app (make_wsgi_app) driven with hand-built WSGI environs (Content-Length honest /
                lying / absent) and with environs built by waitress' own parser from raw chunked HTTP/1.1 requests;
                a spy on _get_request_stream records the bytes handed to the RPC layer; recorders around
                zstandard / zlib record every library call with the size asked for and the chunk returned.  The model
                replays the recorded decoder behaviour and must reproduce status, delivered bytes, the exact
                sequence of requested sizes and the number of decoded bytes materialised.
interleaving  : one app, request A parked (profile hook on the C call, no interposition) just before its k-th bounded
                decoder read while request B is served completely; each must get the verdict it gets when served alone
                and, if valid and in-cap, reach the RPC layer byte-for-byte (per-request isolation of decode state).

Readings adopted where the statement leaves room (a false alarm is worse than a missed nuance):
  * "on the wire" = the body length the WSGI layer declares (CONTENT_LENGTH).  waitress (the server serve_http
    uses) de-chunks a chunked request and sets CONTENT_LENGTH to the real length, so chunked == Content-Length
    there.  A WSGI server that passes a body on WITHOUT CONTENT_LENGTH gets an empty body from Falcon's
    BoundedStream (the middleware's one-byte-sentinel branch reads 0 bytes): modelled as it is, not flagged.
  * "undecodable" = no complete valid gzip member / zstd frame at the start of the body, judged by the libraries'
    whole-input decoders (zlib.decompressobj(...).eof, zstandard decompressobj().eof); trailing bytes after a
    complete member / frame make the case unspecified (one-shot zstd ignores them, the zstd stream reader decodes
    on into them; only safety -- status set, materialisation bound, termination -- is demanded).  The demand on an undecodable body is on the
    observable the statement names: the final HTTP status must be 400 (413 is accepted when the frame declares,
    or the decodable prefix already exceeds, the cap).  An EMPTY or corrupt-frame result that reaches the RPC layer
    and is answered 400 there is tolerated (python-zstandard decodes a frame declaring 0 bytes as b"" unchecked);
    a NON-EMPTY decoded prefix of a truncated stream handed to the RPC layer is reported whatever the RPC layer
    then answers (observable "bytes handed to the RPC layer"; the RPC layer's answer to the garbage changed 200 -> 400
    with an unrelated upstream fix, the hand-over did not).
  * `identity` is a known coding that no configuration disables ("no transform"): it must reach the RPC layer.
  * header values with several codings ("gzip, zstd") are "unknown" codings (415); values containing non-ASCII
    or control whitespace are left to the model correspondence only.
  * "materialised decoded bytes" = bytes returned by the decoder objects (+ the declared size the one-shot zstd
    API allocates); bound demanded: cap + _DECOMPRESS_CHUNK_BYTES + 1.
"""
from __future__ import annotations

import os
import re
from typing import Any

META = {
    "id": "C17",
    "technique": "Coq proof (loop invariants over arbitrary decoder interaction trees) + regenerated guards/constants tie + differential correspondence on the real Falcon app",
    "level_text": "Coq theorems for all requests, caps and decoder behaviours: 413 exactly on wire-over-cap or decoder-over-cap "
    "(for faithful decoders: iff decoded size > cap), materialised decoded bytes <= cap + max(1, flush tail) at every point of both "
    "chunk loops with every requested size in [1, chunk], 415 exactly on unknown/disabled tokens, 400 exactly on a decoder "
    "exception, no/identity coding delivers the wire body unchanged, any delivered body is within the cap. Guards, constants, "
    "enum and arm order are regenerated from the source on every run; the hand model is tied by replaying the real app.",
    "level_note": "partial: zstandard/zlib internals are hypotheses (reader yields <= requested, one-shot output length = declared size, "
    "flush tail bounded) validated only by the correspondence runs; real peak RSS is not measured (decoded bytes returned by the "
    "decoder objects are counted instead); Falcon's BoundedStream and waitress' de-chunking are modelled/observed, not proved.",
    "design_ref": "§5 C17",
}

TOKENS_KNOWN = ["gzip", "zstd", "identity"]
TOKENS_VARIANTS = [
    "GZIP", "Gzip", "gZiP", " gzip", "gzip ", "\tgzip\t", "  GZip  ", "ZSTD", "Zstd", " zstd ", "Identity", "IDENTITY", " identity ", "\tIdentity",
]
TOKENS_UNKNOWN = [
    "br", "deflate", "compress", "x-gzip", "x-zstd", "gzip, zstd", "zstd, gzip", "gzip,identity", "identity, gzip", "gzip;q=1", "gz", "zst", "gzipp", "g zip",
    "zstd\x00", "none", "*", "gzip, gzip", ",", "identity,", "lz4", "snappy", "Ⓖzip".encode("utf-8").decode("latin-1"),
]
TOKENS_EMPTY = ["", " ", "\t", "  \t "]
TOKENS_EXOTIC = ["gzip\x0b", "\x0cgzip", "gzip\xa0", "\x85zstd", "gzip\x1c", "\x1fidentity\x1e", "gzip\n", "\rgzip", "GZ\xcdP", "gz\xedp", "İdentity".encode("utf-8").decode("latin-1")]


def translate(ctx: Any) -> None:
    from translate import t_c17_src

    ctx.gen("G_ReqCaps", lambda: t_c17_src.coq_text(ctx.repo))


def _classify_token(ce: str | None) -> tuple[str, str]:
    """Oracle-side reading of a Content-Encoding value: ("none"|"known"|"unknown"|"unspecified", coding)."""
    if ce is None:
        return "none", ""
    if not ce.isascii() or any((ord(ch) < 32 and ch != "\t") or ord(ch) == 127 for ch in ce):
        return "unspecified", ""
    t = ce.strip(" \t")
    if t == "":
        return "none", ""
    low = t.lower()
    if low in TOKENS_KNOWN:
        return "known", low
    return "unknown", ""


def run(ctx: Any) -> None:
    from vlib.coqterm import cN, cbool, cbytes, copt

    translate(ctx)
    ctx.prove(
        ["prop/P_C17.vo", "tie/T_ReqCaps.vo", "refuted/R_C17.vo"],
        {
            "P_C17": [
                "C17_413_iff", "C17_413_iff_decoded_size_zstd_stream", "C17_413_iff_decoded_size_gzip", "C17_zstd_declared_exact",
                "C17_materialised_le_cap_plus_chunk", "C17_requests_within_chunk", "C17_delivered_within_cap",
                "C17_415_iff_unknown_or_disabled", "C17_400_iff_decoder_raises", "C17_identity_to_rpc_layer", "C17_status_contract",
            ],
            "T_ReqCaps": ["reqcaps_tie", "C17_source_materialised", "C17_source_identity"],
        },
    )

    # ------------------------------------------------------------------ the implementation
    from harness import c17_driver as drv
    from harness.rawrpc import request_bytes
    from translate import t_c17_src

    try:
        src = t_c17_src.extract(ctx.repo)
        chunk = int(src["chunk"])
        flag_id, flag_gz, flag_gb = bool(src["identity_pass"]), bool(src["gzip_eof_check"]), bool(src["gzip_eof_break"])
    except Exception:  # translation broken: the obligation is already recorded; run with the expected shape
        chunk, flag_id, flag_gz, flag_gb = 65536, True, True, True
    rng = ctx.rng
    quick = ctx.tier == "quick"

    apps: dict[tuple[int | None, bool, str], Any] = {}

    def app_for(cap: int | None, zd: bool, prefix: str = "") -> Any:
        key = (cap, zd, prefix)
        if key not in apps:
            apps[key] = drv.build_app(cap, zd, compression_level=rng.choice([1, None, 3]) if prefix == "" else 1, prefix=prefix)
        return apps[key][0]

    _, srv0 = drv.build_app(None, False)
    sch = srv0._methods["f"].params_schema

    def req_of(n: int, kind: str = "rand") -> bytes:
        data = {"rand": lambda: rng.randbytes(n), "zeros": lambda: b"\0" * n, "text": lambda: (b"the quick brown fox " * (n // 20 + 1))[:n]}[kind]()
        return request_bytes("f", sch, {"data": data})

    def encode(enc: str, payload: bytes) -> bytes:
        if enc == "gzip":
            return drv.gzip_body(payload, rng.choice([0, 1, 6, 9]))
        if enc == "zstd":
            return drv.zstd_honest(payload, rng.choice([1, 3, 10]))
        if enc == "zstd-nosize":
            return drv.zstd_nosize(payload, rng.choice([1, 3]))
        return payload

    def hdr_of(enc: str) -> str | None:
        return {"none": None, "identity": "identity", "gzip": "gzip", "zstd": "zstd", "zstd-nosize": "zstd"}[enc]

    # ------------------------------------------------------------------ interleaving leg: per-request isolation of decode state
    # One app, two requests: A is parked just before its k-th bounded decoder read (both chunk loops of _codec.py),
    # B is served completely, A resumes.  Each request must get exactly the verdict it gets when served alone
    # (the model -- and every theorem -- takes the decoder behaviour to be a function of the request's own body).
    import hashlib as _hl

    from harness import c17_interleave as il

    def il_req(n: int, phrase: bytes) -> bytes:
        # deterministic, highly compressible: the whole wire body fits into the replay file
        return request_bytes("f", sch, {"data": (phrase * (n // len(phrase) + 1))[:n]})

    IL_CAP, IL_SMALL_CAP = 1 << 20, 100000
    il_apps = {IL_CAP: drv.build_app(IL_CAP, False)[0], IL_SMALL_CAP: drv.build_app(IL_SMALL_CAP, False)[0]}
    p_big, p_big2 = il_req(150000, b"the quick brown fox jumps over the lazy dog. "), il_req(140000, b"pack my box with five dozen liquor jugs; ")
    p_small, p_90k = il_req(300, b"sphinx of black quartz, judge my vow! "), il_req(90000, b"how vexingly quick daft zebras jump? ")

    def il_body(kind: str) -> tuple[bytes, str | None, bytes | None]:
        """(wire body, Content-Encoding, the client's uncompressed request or None when no delivery is due)"""
        return {
            "zstd-stream": lambda: (drv.zstd_nosize(p_big, 3), "zstd", p_big),
            "zstd-stream2": lambda: (drv.zstd_nosize(p_big2, 1), "zstd", p_big2),
            "zstd-stream-90k": lambda: (drv.zstd_nosize(p_90k, 3), "zstd", p_90k),
            "zstd-declared": lambda: (drv.zstd_honest(p_small, 3), "zstd", p_small),
            "zstd-declared-big": lambda: (drv.zstd_honest(p_big2, 3), "zstd", p_big2),
            "zstd-garbage": lambda: (b"\x28\xb5\x2f\xfd" + b"\xff" * 40, "zstd", None),
            "gzip": lambda: (drv.gzip_body(p_big, 6), "gzip", p_big),
            "gzip2": lambda: (drv.gzip_body(p_big2, 1), "gzip", p_big2),
            "gzip-small": lambda: (drv.gzip_body(p_small, 6), "gzip", p_small),
            "identity": lambda: (p_small, "Identity", p_small),
            "plain": lambda: (p_small, None, p_small),
            "unknown": lambda: (p_small, "br", None),
        }[kind]()

    # (cap, A kind, B kind, k): A parks before its k-th (0-based) bounded read
    schedules = [
        (IL_CAP, "zstd-stream", "zstd-declared", 1), (IL_CAP, "zstd-stream", "zstd-stream2", 1), (IL_CAP, "zstd-stream", "zstd-declared", 0),
        (IL_CAP, "zstd-stream", "zstd-stream2", 2), (IL_CAP, "zstd-stream", "gzip-small", 1), (IL_CAP, "zstd-stream", "identity", 1),
        (IL_CAP, "zstd-stream", "unknown", 1), (IL_CAP, "zstd-stream", "zstd-garbage", 1), (IL_CAP, "gzip", "gzip2", 1),
        (IL_CAP, "gzip", "zstd-declared", 1), (IL_CAP, "gzip", "plain", 0), (IL_CAP, "gzip", "zstd-stream2", 2),
        (IL_SMALL_CAP, "zstd-stream", "zstd-declared", 1), (IL_SMALL_CAP, "zstd-stream-90k", "zstd-declared-big", 1),
        (IL_SMALL_CAP, "gzip", "zstd-stream-90k", 1), (IL_SMALL_CAP, "zstd-stream-90k", "zstd-stream", 1),
    ]
    il_not_parked = 0
    with il.spy_delivered():
        for cap_i, ka, kb, k in schedules:
            app_i = il_apps[cap_i]
            (body_a, ce_a, pay_a), (body_b, ce_b, pay_b) = il_body(ka), il_body(kb)
            solo_a = il.serve_alone(app_i, drv.environ(body_a, ce_a))
            solo_b = il.serve_alone(app_i, drv.environ(body_b, ce_b))
            out_a, out_b = il.serve_interleaved(app_i, drv.environ(body_a, ce_a), drv.environ(body_b, ce_b), k)
            ctx.count("impl_runs", 4)
            ctx.count("interleaved_schedules")
            ctx.tally("interleave", f"A={ka} parked before read {k} | B={kb}")
            ctx.case(["interleave", cap_i, ka, kb, k])
            if solo_a.reads > k and not out_a.parked:
                il_not_parked += 1

            def desc(o: Any) -> dict[str, Any]:
                return {"status": o.status, "refused_by_middleware": o.refused, "delivered_len": None if o.delivered is None else len(o.delivered),
                        "delivered_sha1": None if o.delivered is None else _hl.sha1(o.delivered).hexdigest(), "rpc_error_header": o.rpc_error, "bounded_reads": o.reads, "detail": o.detail}

            repl = {
                "max_request_bytes": cap_i, "schedule": f"A is parked just before its bounded decoder read #{k}; B is served completely; A resumes",
                "A": {"kind": ka, "content_encoding": ce_a, "body_hex": body_a.hex() if len(body_a) <= 4096 else body_a[:256].hex() + "...", "body_len": len(body_a),
                      "body_sha1": _hl.sha1(body_a).hexdigest(), "uncompressed_len": None if pay_a is None else len(pay_a), "alone": desc(solo_a), "interleaved": desc(out_a)},
                "B": {"kind": kb, "content_encoding": ce_b, "body_hex": body_b.hex() if len(body_b) <= 4096 else body_b[:256].hex() + "...", "body_len": len(body_b),
                      "body_sha1": _hl.sha1(body_b).hexdigest(), "uncompressed_len": None if pay_b is None else len(pay_b), "alone": desc(solo_b), "interleaved": desc(out_b)},
            }
            for who, solo, out, pay in (("A", solo_a, out_a, pay_a), ("B", solo_b, out_b, pay_b)):
                if out.verdict() != solo.verdict():
                    ctx.violation(
                        "concurrent-decode-not-isolated",
                        f"request {who} gets HTTP {out.status}" + (" (refused by the middleware)" if out.refused else "") + f" when another request is decoded between two of A's bounded reads, "
                        f"but HTTP {solo.status} when served alone: decode state is shared between requests",
                        repl,
                    )
                # absolute demand of the statement on the interleaved run
                if pay is not None and len(pay) <= cap_i and not (out.delivered == pay and not out.refused):
                    ctx.violation(
                        "concurrent-decodable-body-not-delivered",
                        f"request {who} (valid, in-cap) did not reach the RPC layer byte-for-byte while another request was in flight: HTTP {out.status}",
                        repl,
                    )
                if pay is not None and len(pay) > cap_i and not (out.refused and out.status == 413):
                    ctx.violation("concurrent-over-cap-not-413", f"request {who} decodes over the cap but got HTTP {out.status} while another request was in flight", repl)
    ctx.obligation("schedule:interleave-parked", "harness", il_not_parked == 0, f"{il_not_parked} schedules never reached their parking point")
    ctx.sample({"interleave": "A = zstd stream frame decoding to 150 KB, parked before its 2nd 64 KiB read; B = small zstd request served meanwhile", "expected": "both reach the RPC layer byte-for-byte"})

    cases: list[dict[str, Any]] = []

    def add(label: str, cap: int | None, body: bytes, ce: str | None, *, zd: bool = False, cl: Any = "actual", via: str = "environ", sizes: list[int] | None = None,
            prefix: str = "", route: str = "/f") -> None:
        cases.append({"label": label, "cap": cap, "zd": zd, "body": body, "ce": ce, "cl": cl, "via": via, "sizes": sizes or [4096], "prefix": prefix, "route": route})

    small = req_of(300)
    mid = req_of(70000)  # decoded size crosses one chunk
    zeros = req_of(200000, "zeros")
    bomb = req_of(1 << 20, "zeros")

    # A. every codec token x decode set x body kind
    for tok in [None] + TOKENS_KNOWN + TOKENS_VARIANTS + TOKENS_UNKNOWN + TOKENS_EMPTY + TOKENS_EXOTIC:
        for zd in (False, True):
            for bk in ("plain", "gzip", "zstd"):
                if quick and tok not in TOKENS_KNOWN + [None] and rng.random() < 0.5:
                    continue
                body = small if bk == "plain" else encode(bk, small)
                add(f"token/{bk}", 5000, body, tok, zd=zd)
    # strip(): every latin-1 code point around a known token
    for c in range(256):
        add("token/strip", 5000, encode("gzip", small), chr(c) + "gzip" + chr(c))
    # B. sizes straddling the cap, before and after decoding
    for enc in ("none", "identity", "gzip", "zstd", "zstd-nosize"):
        for payload, pname in ((small, "small"), (mid, "mid"), (zeros, "zeros")):
            body = encode(enc, payload)
            W, D = len(body), len(payload)
            caps = {W - 1, W, W + 1, D - 1, D, D + 1}
            if pname != "small":
                caps |= {chunk - 1, chunk, chunk + 1, 2 * chunk, 2 * chunk + 1}
            for cap in sorted(caps):
                if cap >= 0:
                    add(f"straddle/{enc}/{pname}", cap, body, hdr_of(enc))
    # C. zstd frames whose declared size lies / is absent
    for payload, pname in ((small, "small"), (mid, "mid")):
        honest = drv.zstd_honest(payload)
        D = len(payload)
        for cap in (D - 1, D, D + 1, 5000, 3 * D):
            for declared in (0, 1, D - 1, D + 1, cap - 1, cap, cap + 1, 2**32 - 1, 2**40, 2**64 - 2):
                if declared < 0 or (quick and pname == "mid" and rng.random() < 0.6):
                    continue
                add("zstd-lying", cap, drv.zstd_reframe(honest, declared), "zstd")
            add("zstd-lying4", cap, drv.zstd_reframe(honest, min(cap + 1, 2**32 - 1), 4), "zstd")
            add("zstd-absent", cap, drv.zstd_reframe(honest, None), "zstd")
            add("zstd-honest8", cap, drv.zstd_reframe(honest, D), "zstd")
    # D. bombs: 1 MiB of zeros
    for enc in ("gzip", "zstd", "zstd-nosize"):
        body = encode(enc, bomb)
        D = len(bomb)
        for cap in (0, 1, 5000, chunk, chunk + 1, D - 1, D, D + 1, None):
            if cap is None or cap >= len(body):
                add(f"bomb/{enc}", cap, body, hdr_of(enc))
        add(f"bomb/{enc}", len(body), body, hdr_of(enc))
    # E. undecodable bodies
    multi = req_of(300000)
    for enc in ("gzip", "zstd", "zstd-nosize"):
        for payload, pname in ((small, "small"), (multi, "multi")):
            body = encode(enc, payload)
            cuts = [1, 4, 8, 9, 12, 20, 40, len(body) // 3, len(body) // 2, len(body) - 11, len(body) - 3]
            for cut in cuts:
                if 0 < cut < len(body):
                    add(f"truncated/{enc}/{pname}", 1 << 20, body[: len(body) - cut], hdr_of(enc))
            add(f"truncated/{enc}/{pname}", None, body[: len(body) - 12], hdr_of(enc))
            for _ in range(3 if quick else 12):
                pos = rng.randrange(len(body))
                flipped = body[:pos] + bytes([body[pos] ^ (1 << rng.randrange(8))]) + body[pos + 1 :]
                add(f"bitflip/{enc}/{pname}", 1 << 20, flipped, hdr_of(enc))
            add(f"trailing/{enc}", 1 << 20, body + b"junk", hdr_of(enc))
            add(f"double/{enc}", 1 << 20, body + body, hdr_of(enc))
        add(f"garbage/{enc}", 5000, b"garbage", hdr_of(enc))
        add(f"garbage/{enc}", 5000, b"", hdr_of(enc))
        add(f"garbage/{enc}", None, b"", hdr_of(enc))
        add(f"garbage/{enc}", 5000, rng.randbytes(200), hdr_of(enc))
    zck = __import__("zstandard").ZstdCompressor(write_checksum=True).compress(small)
    add("bitflip/zstd-checksum", 5000, zck[:-1] + bytes([zck[-1] ^ 1]), "zstd")
    add("zstd-checksum-ok", 5000, zck, "zstd")
    # F. framing: Content-Length absent / lying; chunked requests as waitress presents them
    for enc in ("none", "identity", "gzip", "zstd"):
        body = encode(enc, small)
        for cl in (None, 0, 1, 100, len(body) - 1, len(body) + 1, len(body) + 100, 5000, 5001, 10**9):
            add(f"framing/{enc}", 5000, body, hdr_of(enc), cl=cl)
        add(f"framing/{enc}", None, body, hdr_of(enc), cl=None)
        for szs in ([1], [7, 100], [65536], [3, 1000, 5]):
            add(f"chunked/{enc}", 5000, body, hdr_of(enc), via="waitress", sizes=szs)
            add(f"chunked/{enc}", len(body) - 1, body, hdr_of(enc), via="waitress", sizes=szs)
            add(f"chunked/{enc}", len(body), body, hdr_of(enc), via="waitress", sizes=szs)
    add("chunked/oversize", 5000, mid, None, via="waitress", sizes=[65536])
    add("chunked/bomb", 5000, encode("gzip", bomb), " GZip", via="waitress", sizes=[512])
    add("chunked/token", 5000, small, "Identity ", via="waitress", sizes=[100])
    add("chunked/token", 5000, small, "br", via="waitress", sizes=[100])
    # G. no cap configured
    for enc in ("none", "identity", "gzip", "zstd", "zstd-nosize"):
        for payload in (small, zeros):
            add(f"nocap/{enc}", None, encode(enc, payload), hdr_of(enc))
            add(f"nocap/{enc}", None, encode(enc, payload), hdr_of(enc), zd=True)
    # H. seeded random mixes
    for _ in range(150 if quick else 2500):
        n = rng.choice([0, 1, 50, 300, 5000, 66000, 140000])
        kind = rng.choice(["rand", "zeros", "text"])
        payload = req_of(n, kind)
        enc = rng.choice(["none", "identity", "gzip", "zstd", "zstd-nosize"])
        body = encode(enc, payload)
        anchor = rng.choice([len(body), len(payload), chunk, 5000])
        cap = rng.choice([None, max(0, anchor + rng.choice([-2, -1, 0, 1, 2, 1000, -1000])), anchor * 3 + 7])
        ce = hdr_of(enc)
        r = rng.random()
        if r < 0.15 and ce is not None:
            ce = rng.choice([ce.upper(), " " + ce, ce + "\t", ce.title()])
        elif r < 0.22:
            ce = rng.choice(TOKENS_UNKNOWN + TOKENS_KNOWN)
        if rng.random() < 0.12 and len(body) > 20:
            body = body[: len(body) - rng.randrange(1, min(len(body), 64))]
        if rng.random() < 0.08 and enc == "zstd":
            body = drv.zstd_reframe(body, rng.choice([None, len(payload) + rng.choice([-1, 1, 100]), (cap or 0) + 1]) if True else None)
            if isinstance(body, bytes) and rng.random() < 0.5:
                pass
        add("random", cap, body, ce, zd=rng.random() < 0.2, cl=rng.choice(["actual"] * 8 + [None, len(body) + 1]))

    # I. routes: RPC methods whose NAME starts with the name of the (cap-exempt) health endpoint, with and without a URL
    #    prefix; at-cap and over-cap bodies per coding.  Only {prefix}/health itself (and below) is exempt.
    for pfx in ("", "/vgi"):
        for meth, route in (("f", "/f"), ("healthz", "/healthz"), ("health_check", "/health_check"), ("healthcheck", "/healthcheck/init")):
            payload = request_bytes(meth, srv0._methods[meth].params_schema, {"data": (b"route " * 60)[:300]})
            for enc_r in ("none", "identity", "gzip", "zstd"):
                body = {"none": payload, "identity": payload, "gzip": drv.gzip_body(payload, 6), "zstd": drv.zstd_honest(payload, 3)}[enc_r]
                W, D = len(body), len(payload)
                for cap in sorted({W - 1, W} | ({D - 1, D} if enc_r in ("gzip", "zstd") else set())):
                    add(f"route{route}", cap, body, hdr_of(enc_r), prefix=pfx, route=route)
        hp = request_bytes("health", srv0._methods["health"].params_schema, {"data": b"h" * 300})
        add("route/health(exempt)", len(hp) - 1, hp, None, prefix=pfx, route="/health")
        add("route/health(exempt)", len(hp), hp, "identity", prefix=pfx, route="/health")

    ctx.rule = (
        "cases = (max_request_bytes | none) x VGI_HTTP_DISABLE_ZSTD x Content-Length {actual, lying, absent, chunked via waitress} x "
        "Content-Encoding value x body; bodies: requests of 0..1 MiB (random / zeros / text) plain or gzip(level 0-9) / zstd with "
        "honest, absent and rewritten (lying) content-size headers, truncated, bit-flipped, with trailing data; caps at wire-1/0/+1, "
        "decoded-1/0/+1, chunk-1/0/+1, 2*chunk(+1); every token incl. case/whitespace variants, lists, unknown, each latin-1 "
        "code point around a token. distinct by (cap, zstd switch, CONTENT_LENGTH, header, body digest); non-trivial = a "
        "Content-Encoding header or a cap is involved"
    )

    # ------------------------------------------------------------------ run + oracle
    import hashlib

    model_bytes: list[tuple[str, str]] = []
    model_len: list[tuple[str, str]] = []
    meta_bytes: list[dict[str, Any]] = []
    meta_len: list[dict[str, Any]] = []
    max_tail = 0
    flags = f"({cbool(flag_id)}, {cbool(flag_gb)}, {cbool(flag_gz)})"

    def viol(key: str, what: str, case: dict[str, Any], extra: dict[str, Any]) -> None:
        body = case["body"]
        ctx.violation(
            key, what,
            {
                "max_request_bytes": case["cap"], "zstd_disabled": case["zd"], "url_prefix": case["prefix"], "path": case["prefix"] + case["route"],
                "content_encoding": case["ce"], "content_length": case["cl"],
                "via": case["via"], "label": case["label"], "body_len": len(body),
                "body_hex": body.hex() if len(body) <= 2048 else body[:256].hex() + "...", "body_sha1": hashlib.sha1(body).hexdigest(), **extra,
            },
        )

    with drv.instrumented():
        for case in cases:
            cap, zd, body = case["cap"], case["zd"], case["body"]
            app = app_for(cap, zd, case["prefix"])
            path = case["prefix"] + case["route"]
            exempt = path == case["prefix"] + "/health" or path.startswith(case["prefix"] + "/health/")
            if case["via"] == "waitress":
                env = drv.waitress_environ(drv.chunked_raw(body, case["ce"], case["sizes"], path=path))
                if env is None:
                    continue
            else:
                env = drv.environ(body, case["ce"], case["cl"], path=path)
            stream = env["wsgi.input"].read()
            env["wsgi.input"].seek(0)
            cl_env = int(env["CONTENT_LENGTH"]) if env.get("CONTENT_LENGTH") else None
            ce_env = env.get("HTTP_CONTENT_ENCODING")
            obs = drv.call_wsgi(app, env)
            tr = obs.trace
            max_tail = max(max_tail, tr.max_tail)
            ctx.count("impl_runs")
            ctx.tally("family", case["label"].split("/")[0])
            ctx.tally("framing", "chunked(waitress)" if case["via"] == "waitress" else ("no-content-length" if cl_env is None else ("actual" if cl_env == len(stream) else "lying")))
            ctx.case([cap, zd, cl_env, ce_env, hashlib.sha1(stream).hexdigest(), path], nontrivial=ce_env is not None or cap is not None)
            ctx.tally("route", path)
            if exempt:
                # the health endpoint itself is outside the statement (no RPC body; the cap middleware skips it by design)
                ctx.tally("class", "exempt-health-endpoint")
                if obs.delivered is not None or obs.method_ran:
                    viol("health-endpoint-dispatches-rpc", "POST to the cap-exempt health endpoint reached the RPC layer", case, {"status": obs.status})
                continue

            # ---------------- oracle on the implementation (independent of the model)
            wire = stream[: cl_env or 0]
            over_wire = cap is not None and (cl_env or 0) > cap
            kind, coding = _classify_token(ce_env)
            refused = obs.delivered is None
            ctx.tally("outcome", f"refuse-{obs.status}" if refused else "deliver")
            if tr.spin:
                ctx.tally("outcome", "spin")
                viol(
                    "gzip-trailing-data-spins-forever",
                    "the gzip decode loop never terminates: after the end-of-stream marker do.decompress(unconsumed_tail, n) returns b'' "
                    "and keeps the trailing input in unconsumed_tail (aborted by the harness after 20 idle iterations)",
                    case, {"idle_iterations": tr.idle, "codec_calls_tail": tr.log[-4:]},
                )
                continue
            extra = {"status": obs.status, "delivered_len": None if refused else len(obs.delivered), "rpc_error_header": obs.rpc_error, "codec_calls": tr.log[:12]}
            if refused and obs.status not in (400, 413, 415):
                viol(f"status-outside-contract-{obs.status}", f"middleware refusal with HTTP {obs.status}", case, extra)
            if cap is not None and tr.mat > cap + chunk + 1:
                viol("materialised-over-bound", f"{tr.mat} decoded bytes materialised with cap {cap}", case, extra)
            if cap is None and refused and obs.status == 413:
                viol("413-without-cap", "413 although no max_request_bytes is configured", case, extra)
            if kind == "unspecified":
                pass
            elif kind == "none" or (kind == "known" and coding == "identity"):
                ctx.tally("class", "identity" if kind == "known" else "no-coding")
                if over_wire:
                    if not (refused and obs.status == 413):
                        viol("wire-over-cap-not-413", "body larger than the cap on the wire was not refused with 413", case, extra)
                elif refused:
                    if kind == "known" and obs.status == 415:
                        viol("identity-coding-refused-415", "Content-Encoding: identity (no transform) is refused with 415 instead of reaching the RPC layer", case, extra)
                    else:
                        viol(f"plain-body-refused-{obs.status}", "an in-cap body without a coding was refused", case, extra)
                elif obs.delivered != wire:
                    viol("delivered-bytes-differ", "RPC layer did not get the wire body byte-for-byte", case, extra)
            elif kind == "unknown" or (coding == "zstd" and zd):
                ctx.tally("class", "unknown" if kind == "unknown" else "disabled")
                if not (refused and (obs.status == 415 or (over_wire and obs.status == 413))):
                    viol("unknown-or-disabled-coding-not-415", "unknown / disabled coding was not refused with 415", case, extra)
            else:
                rk, out, declared, trailing = drv.ref_decode(coding, wire)
                if rk == "ok" and trailing:
                    ctx.tally("class", "trailing-data(unspecified)")
                elif over_wire:
                    ctx.tally("class", "coded-wire-over")
                    if not (refused and (obs.status == 413 or (rk != "ok" and obs.status == 400))):
                        viol("wire-over-cap-not-413", "coded body larger than the cap on the wire was not refused with 413", case, extra)
                elif rk == "ok":
                    if cap is not None and len(out) > cap:
                        ctx.tally("class", "decoded-over-cap")
                        if not (refused and obs.status == 413):
                            viol("decoded-over-cap-not-413", f"body decoding to {len(out)} > cap {cap} bytes was not refused with 413", case, extra)
                    else:
                        ctx.tally("class", "decodable-in-cap")
                        if refused:
                            viol(f"decodable-body-refused-{obs.status}", "a decodable in-cap body was refused", case, extra)
                        elif obs.delivered != out:
                            viol("delivered-bytes-differ", "RPC layer did not get the client's uncompressed request byte-for-byte", case, extra)
                else:
                    ctx.tally("class", f"undecodable-{rk}")
                    evidence = cap is not None and (len(out) > cap or (declared or 0) > cap)
                    okst = obs.status == 400 or (evidence and refused and obs.status == 413)
                    if not refused and obs.status == 400:
                        ctx.count("undecodable_prefix_delivered_but_answered_400")
                    # a truncated stream whose decoded (non-empty) prefix is handed to the RPC layer is the same defect whether
                    # the RPC layer then happens to answer 200+error marker or 400 for the unparseable prefix
                    prefix_delivered = rk == "truncated" and not refused and len(obs.delivered) > 0
                    if not okst or prefix_delivered:
                        which = coding if not (coding == "zstd" and declared is None) else "zstd-stream"
                        viol(
                            f"{rk}-{which}-not-refused",
                            f"{rk} {coding} body was not refused with 400: HTTP {obs.status}"
                            + ("" if refused else f", a {len(obs.delivered)}-byte prefix was handed to the RPC layer (reference decoder yields {len(out)} bytes before the input ends)"),
                            case, extra,
                        )

            # ---------------- the same case for the model
            big = len(stream) > 1500 or (obs.delivered is not None and len(obs.delivered) > 1500) or any(s is not None and len(s[0]) > 1500 for s in tr.steps) or any(isinstance(x, tuple) and x[0] == "ok" and isinstance(x[1], bytes) and len(x[1]) > 1500 for x in (tr.one, tr.fl, tr.ra, tr.ra_fl))
            B = (lambda b: cN(len(b))) if big else cbytes

            def ob(x: Any) -> str:
                return copt(B(x[1])) if isinstance(x, tuple) and x[0] == "ok" else "None"

            hdr = "None"
            if isinstance(tr.hdr, tuple) and tr.hdr[0] == "ok":
                hdr = copt(copt(None if tr.hdr[1] is None else cN(tr.hdr[1])))
            steps = "[" + "; ".join("None" if s is None else f"Some ({B(s[0])}, {cbool(s[1])}, {cbool(s[2])})" for s in tr.steps) + "]"
            ce_term = copt(None if ce_env is None else "[" + ";".join(str(ord(ch)) for ch in ce_env) + "]")
            inp = (
                f"(({copt(None if cap is None else cN(cap))}, true, {cbool(zd)}, {cN(chunk)}, {flags}), "
                f"({copt(None if cl_env is None else cN(cl_env))}, {B(stream)}, {ce_term}), "
                f"(({hdr}, {ob(tr.one)}), ({steps}, {ob(tr.fl)}, {cbool(tr.eof)}), ({ob(tr.ra)}, {ob(tr.ra_fl)}, {cbool(tr.eof)})))"
            )
            st = obs.status if refused else 0
            out_t = f"(({cN(st)}, {copt(None if refused else B(obs.delivered))}), ([" + "; ".join(f"({a}, {b})" for a, b in tr.log) + f"], {cN(tr.mat)}))"
            (model_len if big else model_bytes).append((inp, out_t))
            (meta_len if big else meta_bytes).append({"case": case, "status": obs.status, "refused": refused, "log": tr.log[:10], "mat": tr.mat})

    ctx.sample({"cap": 5000, "Content-Encoding": "gzip", "body": "gzip(1 MiB of zeros), 1 253 bytes on the wire", "expected": "413, <= 5001 decoded bytes materialised"})
    ctx.sample({"cap": 720, "Content-Encoding": "zstd", "body": "frame declaring 721 bytes, holding 720", "expected": "413 before any decoding"})
    ctx.sample({"cap": 5000, "Content-Encoding": " Identity", "body": "plain request", "expected": "reaches the RPC layer unchanged"})
    ctx.count("max_gzip_flush_tail_seen", max_tail)
    ctx.obligation("env:gzip-flush-tail-bounded", "environment", max_tail <= chunk, f"do.flush() returned {max_tail} bytes, more than one chunk")

    header = "From Coq Require Import List NArith Bool.\nFrom VGI Require Import M_ReqCaps Corr.\nImport ListNotations.\nOpen Scope N_scope."
    for name, run_fn, eqb, mcases, metas, ty in (
        ("run_case", "run_case", "out_eqb bytes_eqb", model_bytes, meta_bytes, "list N"),
        ("run_case_len", "run_case_len", "out_eqb N.eqb", model_len, meta_len, "N"),
    ):
        ok, bad, clog = ctx.coq_mismatches(header, run_fn, eqb, mcases, f"case_in ({ty})", f"case_out ({ty})", shard=150)
        ctx.count(f"model_cases_{name}", len(mcases))
        ctx.obligation(f"correspondence:M_ReqCaps.{name}", "correspondence", ok and not bad, clog if not ok else f"{len(bad)} of {len(mcases)} cases disagree")
        for i in bad[:4]:
            m = metas[i]
            shown = ctx.coq_show(header, f"{run_fn} {mcases[i][0]}") if len(mcases[i][0]) < 20000 else "(large case)"
            viol("model-impl-disagree", "implementation and model decide differently", m["case"], {"impl_status": m["status"], "impl_refused": m["refused"], "impl_calls": m["log"], "impl_materialised": m["mat"], "model": shown[-600:]})

    ctx.assumptions += [
        "decoder behaviour is a function of the request's own body (the model's zdec / gdec): exercised by the interleaving leg "
        "(16 two-request schedules parked at bounded-read boundaries, one thread inside a codec library at a time); true parallel "
        "execution inside libzstd / zlib with the GIL released is not explored",
        "zstandard / zlib are not modelled: theorems quantify over arbitrary decoder behaviours; hypotheses used by the bound theorems "
        "(chunk <= requested size, one-shot output length = declared size, flush tail <= bound) are exercised on the real libraries by the correspondence run only",
        "Falcon BoundedStream semantics (content_length or 0) and waitress de-chunking (CONTENT_LENGTH = real length) are taken from the installed versions",
        "WSGI header values are latin-1 strings; str.strip()/str.lower() modelled on code points 0..255 and checked around a token for all 256",
        "materialised decoded bytes = bytes returned by decoder objects (+ declared size for the one-shot zstd API); process RSS is not measured",
        "the cap-exempt health endpoint ({prefix}/health and below) carries no RPC body and is not modelled; that nothing else is exempt is "
        "exercised on routes whose method name starts with 'health' (healthz, health_check, healthcheck/init) under prefixes '' and '/vgi'",
    ]
