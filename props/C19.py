"""C19 Response content-encoding negotiation is correct.

proof        : coq/prop/P_C19.v over model/M_Negotiate.v -- for ALL header strings (lists of code points), all
               server codec configurations and every response kind: the chosen coding is the first entry of the
               client's preference order (X-VGI-Accept-Encoding entries, then Accept-Encoding entries) that the
               server can produce, none when that entry is `identity` or nothing is producible; the announcing
               header is one through which the client offered the coding; the decoded body is the plain body
               (codec round trip enters as Section hypotheses).
regenerated  : Encoding enum values/order, available_encodings(), the request/response header names, the
               ("zstd","gzip") pre-compression guard and the whole loop of _pick_response_encoding
               (iterable, guards, returned pairs) -> gen/G_Negotiate.v ; tie/T_Negotiate.v proves them equal to the
               modelled terms and restates the theorem over the generated pick.
correspondence: (1) real parse_encoding_list vs model on exhaustive token lists + Unicode/white-space corpus;
               (2) the real _CompressionMiddleware in a minimal Falcon app for all 8 encode_levels key sets x all
               256 pairs of parsed lists (rendered with case / q-parameter / unknown-token decoration) + raw random
               pairs (length <= 4, duplicates) x {arrow body, empty body, non-arrow body};
               (3) the real make_wsgi_app for the three factory-reachable encode sets x unary, stream init, exchange
               and producer continuation (pre-compressed path; token-bearing, finishing and raising turns):
               announced header, coding of the body bytes, and decoded body = body of the uncompressed request.

Readings adopted (the statement leaves room):
 * "client's preference order" is the textual order of the header; `;q=` parameters are dropped, as the code
   does (a `q=0` entry still counts as offered).  `*` is an unknown token.
 * an entry names a coding after dropping parameters, trimming white space and ASCII case folding.
 * DESIGN Appendix E: "announced on the header matching how it was negotiated" = the announcing header is one
   through which the client offered that coding (X-VGI-Content-Encoding only when offered solely in the VGI header).
 * responses that are not Arrow bodies or are empty carry no coding; the statement's quantifier is over unary and
   producer (Arrow, non-empty) responses, for the others only "decoded body identical" and header/body agreement
   are demanded.
"""
from __future__ import annotations

import io
import itertools
import os
import zlib
from typing import Any

from harness import c19_service as svc

META = {
    "id": "C19",
    "technique": "Coq proof by induction over header token lists + regenerated pick loop / enum / header names + differential correspondence against the real middleware and app",
    "level_text": "Coq theorems for all header strings, all encode sets and all response kinds: chosen coding = first producible "
    "entry in client order (VGI header first), none iff that entry is identity or nothing overlaps, announcing header is one "
    "through which the coding was offered, never two headers, decoded body = plain body. The pick loop in the theorems is "
    "regenerated from _pick_response_encoding on every run (tie by reflexivity); parse_encoding_list, process_response and the "
    "producer pre-compressed path are hand-modelled and tied by running the real code against the model.",
    "level_note": "Trusted: Coq kernel (vm_compute), t_c19_pick translator, harness. Assumed: zstd/gzip round trip "
    "(Section hypotheses, C18), str.strip/lower tables (checked against the runtime on every run), zstandard importable.",
    "design_ref": "§5 C19",
}

NAMES = {1: "zstd", 2: "gzip", 3: "identity"}
CODES = {v: k for k, v in NAMES.items()}
WORD_ALPHABET = set("zstdgipenty")


# ---------------------------------------------------------------------------------------------------------
# specification oracle (independent of the model): first producible entry in client order
# ---------------------------------------------------------------------------------------------------------
def _ascii_lower(s: str) -> str:
    return "".join(chr(ord(c) + 32) if "A" <= c <= "Z" else c for c in s)


def spec_names(h: str | None) -> list[str]:
    return [_ascii_lower(item.partition(";")[0].strip()) for item in (h or "").split(",")]


def spec_choice(levels: set[str], std: str | None, cus: str | None) -> str | None:
    order = spec_names(cus) + spec_names(std)
    first = next((n for n in order if n == "identity" or n in levels), None)
    return None if first in (None, "identity") else first


def body_coding(b: bytes) -> int:
    if b[:4] == b"\x28\xb5\x2f\xfd":
        return 1
    if b[:2] == b"\x1f\x8b":
        return 2
    return 0


def decode(coding: str, b: bytes) -> bytes:
    if coding == "zstd":
        import zstandard

        with zstandard.ZstdDecompressor().stream_reader(io.BytesIO(b), read_across_frames=False) as r:
            return r.read()
    if coding == "gzip":
        d = zlib.decompressobj(31)
        out = d.decompress(b) + d.flush()
        if not d.eof or d.unused_data:
            raise ValueError("gzip body is not exactly one member")
        return out
    raise ValueError(f"cannot decode {coding!r}")


# ---------------------------------------------------------------------------------------------------------
# generators
# ---------------------------------------------------------------------------------------------------------
CORE = ["zstd", "gzip", "identity", "br", "GZIP", " zstd;q=0.1", "identity ; q=0", "", "*"]
WIDE = CORE + ["ZSTD", "Gzip", "IDENTITY", " gzip ", "gzip;q=0.5", "zstd ; q=0", "x-gzip", "gzip;", ";gzip", "deflate",
               "zstd;q=1.0;x=y", "\tzstd", "gzip\t", "zstd gzip", "identity;", "q=1", "Identity;Q=0.001", "zstdd", "gzi"]
UNICODE = [
    "\xa0gzip\xa0", " zstd", "gzip　", "\x1cgzip\x1f", "\x85identity\x85", "g\xa0zip", "zstd​", "﻿gzip",
    "KZSTD", "GZİP", "gzıp", "zſtd", "ｇzip", "gzip ;q=1", "gzip; ", "ZSTD ", "IDENTİTY",
    "identity\x0b", "\x0cgzip", "gzip\x00", "\x00", "gzip\x1b", " zstd ", " gzip ", "zstd᠎", "ßgzip",
    "gziṗ", "i̇dentity", "\U0001d7cezstd", "zstd\x1e;q", "\x1d;gzip",
]


def dedup_lists() -> list[tuple[int, ...]]:
    out: list[tuple[int, ...]] = []
    for n in range(4):
        out += list(itertools.permutations((1, 2, 3), n))
    return out


def decorate(rng: Any, codes: tuple[int, ...], latin1_only: bool = True) -> str | None:
    """Render a parsed list as a header string: case variants, q-parameters, unknown tokens, duplicates, blanks."""
    if not codes:
        return rng.choice([None, "", " ", ",", "br, *", "x;q=1", " , ,"])
    items: list[str] = []
    seen: list[int] = []
    for c in codes:
        if rng.random() < 0.3:
            items.append(rng.choice(["br", "*", "", "deflate", "x-gzip", "zstdd", ";" + NAMES[c]]))
        w = NAMES[c]
        w = rng.choice([w, w.upper(), w.capitalize(), w[0].upper() + w[1:]])
        w = rng.choice(["", " ", "\t", "  "]) + w + rng.choice(["", " ", ";q=0.5", " ; q=0", ";q=1;x=y", "\t", ";"])
        items.append(w)
        seen.append(c)
        if rng.random() < 0.3:
            items.append(NAMES[rng.choice(seen)].upper() + rng.choice(["", ";q=0.9"]))  # duplicate of an earlier entry
    return rng.choice([",", ", ", " , "]).join(items)


def raw_list(rng: Any, alphabet: list[str], maxlen: int = 4) -> str | None:
    n = rng.randrange(-1, maxlen + 1)
    if n < 0:
        return None
    return rng.choice([",", ", "]).join(rng.choice(alphabet) for _ in range(n))


# ---------------------------------------------------------------------------------------------------------
# minimal Falcon app around the real middleware
# ---------------------------------------------------------------------------------------------------------
PLAIN = None  # set in run(): a real IPC stream


class _ArrowResource:
    def on_post(self, req: Any, resp: Any) -> None:
        resp.content_type = svc.ARROW_CT
        resp.stream = io.BytesIO(PLAIN)


class _EmptyResource:
    def on_post(self, req: Any, resp: Any) -> None:
        resp.content_type = svc.ARROW_CT
        resp.stream = io.BytesIO(b"")


class _TextResource:
    def on_post(self, req: Any, resp: Any) -> None:
        resp.content_type = "text/plain"
        resp.stream = io.BytesIO(TEXT)


class _DataResource:
    """Arrow content type but the body is set as resp.data (no stream object): the middleware leaves it alone."""

    def on_post(self, req: Any, resp: Any) -> None:
        resp.content_type = svc.ARROW_CT
        resp.data = PLAIN


TEXT = b"plain text body " * 20
# kind -> (arrow content type, producer turn owning the body, non-empty, resp.stream is an IOBase)
MW_KINDS = {"arrow": (True, False, True, True), "empty": (True, False, False, True), "text": (False, False, True, True), "data": (True, False, True, False)}


def _plain_body() -> bytes:
    import pyarrow as pa

    sink = io.BytesIO()
    with pa.ipc.new_stream(sink, svc.SCH) as w:
        w.write_batch(pa.RecordBatch.from_pydict({"v": list(range(300))}, schema=svc.SCH))
    return sink.getvalue()


def hdrs(std: str | None, cus: str | None) -> dict[str, str]:
    h = {"Content-Type": svc.ARROW_CT}
    if std is not None:
        h["Accept-Encoding"] = std
    if cus is not None:
        h["X-VGI-Accept-Encoding"] = cus
    return h


def middleware_client(cfg: list[int]) -> Any:
    """The real _CompressionMiddleware (encode_levels keys = cfg) in a minimal Falcon app."""
    global PLAIN
    import falcon
    import falcon.testing

    from vgi_rpc._codec import Encoding
    from vgi_rpc.http.server._middleware import _CompressionMiddleware

    if PLAIN is None:
        PLAIN = _plain_body()
    enc_of = {1: Encoding.ZSTD, 2: Encoding.GZIP, 3: Encoding.IDENTITY}
    app = falcon.App(middleware=[_CompressionMiddleware({enc_of[c]: (3 if c == 1 else 6) for c in cfg})])
    app.add_route("/arrow", _ArrowResource())
    app.add_route("/empty", _EmptyResource())
    app.add_route("/text", _TextResource())
    app.add_route("/data", _DataResource())
    return falcon.testing.TestClient(app)


def mw_reference(kind: str) -> bytes:
    return {"arrow": PLAIN, "empty": b"", "text": TEXT, "data": PLAIN}[kind]  # type: ignore[dict-item]


def factory_env(cfg: list[int]) -> tuple[Any, dict[str, tuple[str, bytes]], dict[str, bytes], list[str]]:
    """The real app of make_wsgi_app for encode set cfg in ([], [2], [1, 2]); request bodies per kind, the reference
    (uncompressed) response per kind, harness problems."""
    import falcon.testing

    from harness.rawrpc import read_streams, request_bytes
    from vgi_rpc.http import make_wsgi_app
    from vgi_rpc.metadata import CALL_STATE_KEY, STATE_KEY

    old = os.environ.get("VGI_HTTP_DISABLE_ZSTD")
    try:
        if cfg == [2]:
            os.environ["VGI_HTTP_DISABLE_ZSTD"] = "1"
        else:
            os.environ.pop("VGI_HTTP_DISABLE_ZSTD", None)
        srv = svc.make_server()
        app = make_wsgi_app(srv, prefix="", token_key=b"k" * 32, compression_level=(3 if cfg else None),
                            enable_landing_page=False, enable_not_found_page=False, enable_describe_page=False)
    finally:
        if old is None:
            os.environ.pop("VGI_HTTP_DISABLE_ZSTD", None)
        else:
            os.environ["VGI_HTTP_DISABLE_ZSTD"] = old
    client = falcon.testing.TestClient(app)
    problems: list[str] = []
    f_schema = srv._methods["f"].params_schema
    p_schema = srv._methods["prod"].params_schema
    adv = client.simulate_post("/f", body=request_bytes("f", f_schema, {"a": 10}), headers=hdrs(None, None)).headers.get("vgi-supported-encodings")
    if sorted(x.strip() for x in (adv or "").split(",") if x.strip()) != sorted(NAMES[c] for c in cfg):
        problems.append(f"factory advertises {adv!r}, expected {[NAMES[c] for c in cfg]}")
    bodies = {
        "unary": ("/f", request_bytes("f", f_schema, {"a": 700})),
        "prod-init": ("/prod/init", request_bytes("prod", p_schema, {"n": 3, "boom": -1})),
        "ex-init": ("/ex/init", request_bytes("ex", srv._methods["ex"].params_schema, {"k": 2})),
    }

    def tokens_of(path: str, body: bytes) -> dict[bytes, bytes]:
        md = read_streams(client.simulate_post(path, body=body, headers=hdrs(None, None)).content)[-1][-1][1]
        return {k: md[k] for k in (STATE_KEY, CALL_STATE_KEY) if k in md}

    bodies["prod-cont-token"] = ("/prod/exchange", svc.token_request(tokens_of(*bodies["prod-init"])))
    bodies["prod-cont-finish"] = ("/prod/exchange", svc.token_request(tokens_of("/prod/init", request_bytes("prod", p_schema, {"n": 2, "boom": -1}))))
    bodies["prod-cont-raise"] = ("/prod/exchange", svc.token_request(tokens_of("/prod/init", request_bytes("prod", p_schema, {"n": 3, "boom": 1}))))
    bodies["ex-exchange"] = ("/ex/exchange", svc.token_request(tokens_of(*bodies["ex-init"]), svc.SCH, {"v": list(range(200))}))
    refs = {}
    for kind, (path, body) in bodies.items():
        r0 = client.simulate_post(path, body=body, headers=hdrs(None, None))
        refs[kind] = r0.content
        if r0.status_code != 200 or body_coding(r0.content) != 0:
            problems.append(f"reference request for {kind} answered {r0.status_code}")
    # the continuation kinds really are what they claim: a data batch + continuation token / a data batch and the end
    shape = {k: [[row for row, _, _ in st] for st in read_streams(refs[k])] for k in ("prod-cont-token", "prod-cont-finish")}
    if shape != {"prod-cont-token": [[100, 0]], "prod-cont-finish": [[100]]}:
        problems.append(f"producer continuation turns have shape {shape}")
    return client, bodies, refs, problems


STRUCTURAL = ("prod-init", "ex-init", "prod-cont-token", "prod-cont-raise", "ex-exchange")  # carry fresh tokens / request ids


def _shard(n: int) -> int:
    """case files: 400..600 cases each, at most ~12 files per call so that they run in one parallel round"""
    return max(400, min(600, -(-n // 12)))


def translate(ctx: Any) -> None:
    from translate import t_c19_pick

    ctx.gen("G_Negotiate", lambda: t_c19_pick.generate(ctx.repo))


def _observe(r: Any) -> tuple[int, int, int, list[str]]:
    """(header kind, announced code, body coding by magic, problems)"""
    ce = r.headers.get("content-encoding")
    xe = r.headers.get("x-vgi-content-encoding")
    problems = []
    if ce is not None and xe is not None:
        problems.append("both-headers")
    hk, name = (1, ce) if ce is not None else ((2, xe) if xe is not None else (0, None))
    he = 0
    if name is not None:
        he = CODES.get(name, 99)
    return hk, he, body_coding(r.content), problems


def run(ctx: Any) -> None:
    global PLAIN
    from vlib.coqterm import cN, cbool, clist, copt, cstr

    translate(ctx)
    ctx.prove(
        ["prop/P_C19.vo", "tie/T_Negotiate.vo"],
        {
            "P_C19": [
                "C19_first_producible_in_client_order_vgi_first", "C19_identity_first_or_no_overlap_none",
                "C19_choice_is_find", "C19_vgi_header_precedence", "C19_header_matches_negotiation", "C19_response_coding_applied",
                "C19_decoded_body_same", "C19_parse_is_entries",
            ],
            "T_Negotiate": ["pick_tie", "enum_tie", "runtime_tie", "levels_tie", "header_names_tie", "precompress_tie",
                            "C19_source_first_producible", "C19_source_none"],
        },
    )

    from vgi_rpc._codec import Encoding, available_encodings, parse_encoding_list
    from vgi_rpc.metadata import CALL_STATE_KEY, STATE_KEY

    quick = ctx.tier == "quick"
    OPAQUE = (STATE_KEY, CALL_STATE_KEY, b"vgi_rpc.request_id")
    rng = ctx.rng
    HDR = "From Coq Require Import List NArith Bool.\nFrom VGI Require Import M_Negotiate Corr.\nImport ListNotations.\nOpen Scope N_scope."

    # ---- environment facts the string model relies on ---------------------------------------------------
    ok_env, out = ctx.coq_eval(HDR, "Eval vm_compute in (snd (N.iter 12400 (fun p => (fst p + 1, if is_space (fst p) then fst p :: snd p else snd p)) (0, []))).")
    import re as _re

    m = _re.search(r"=\s*\[(.*?)\]", out, _re.S)
    # beyond 12288 the model has no white space (L_Negotiate.is_space_bound)
    model_spaces = {int(x) for x in _re.findall(r"\d+", m.group(1))} if (ok_env and m) else set()
    runtime_spaces: set[int] = set()
    stripped: set[int] = set()
    bad_lower: list[int] = []
    # str.lower(): ASCII is the A-Z fold; a non-ASCII code point either stays itself (not a word character, white space
    # iff the table says so) or lowers to a block without ';' / ',' / white space that contains a non-word character,
    # so a token holding it can never become one of the coding names -- exactly how the model treats it (kept as is).
    for c in range(0x110000):
        ch = chr(c)
        if ch.isspace():
            runtime_spaces.add(c)
        if ("a" + ch).strip() == "a":
            stripped.add(c)
        low = ch.lower()
        if low != ch or c < 128:
            if c < 128:
                if low != (chr(c + 32) if 65 <= c <= 90 else ch):
                    bad_lower.append(c)
            elif ";" in low or "," in low or any(x.isspace() for x in low) or all(x in WORD_ALPHABET for x in low):
                bad_lower.append(c)
    ctx.obligation("env:str.strip-whitespace-table", "environment", model_spaces == runtime_spaces == stripped,
                   f"model {sorted(model_spaces ^ runtime_spaces)[:10]} strip {sorted(stripped ^ runtime_spaces)[:10]}")
    ctx.obligation("env:str.lower-ascii-only-matters", "environment", not bad_lower, f"code points {bad_lower[:10]}")
    ctx.log("environment facts checked")
    ctx.obligation("env:zstd-available", "environment", tuple(available_encodings()) == (Encoding.ZSTD, Encoding.GZIP), str(available_encodings()))

    # ---- (1) parse_encoding_list ------------------------------------------------------------------------
    strings: list[str] = []
    for n in range(0, 4 if quick else 5):
        for combo in itertools.product(CORE, repeat=n):
            strings.append(",".join(combo))
    for _ in range(300 if quick else 6000):
        s = raw_list(rng, WIDE + UNICODE, 4)
        strings.append(s or "")
    strings += UNICODE + WIDE
    for _ in range(150 if quick else 3000):  # character-level mutations
        s = list(rng.choice(["zstd, gzip", "gzip;q=0.5, identity", "identity,zstd", "ZSTD ,GZIP; q=1", "zstd;q=0,gzip"]))
        for _k in range(rng.randrange(1, 3)):
            pos = rng.randrange(len(s) + 1)
            ch = rng.choice(" ,;\t\xa0zZgGiIq=01* \x1cKİ\x00\n")
            k = rng.randrange(3)
            if k == 0:
                s.insert(pos, ch)
            elif k == 1 and s:
                del s[min(pos, len(s) - 1)]
            elif s:
                s[min(pos, len(s) - 1)] = ch
        strings.append("".join(s))
    strings = list(dict.fromkeys(strings))
    parse_cases = []
    for s in strings:
        got = [CODES[e.value] for e in parse_encoding_list(s)]
        # oracle: parse = known names of the entries, first occurrences
        exp: list[int] = []
        for nme in spec_names(s):
            c = CODES.get(nme)
            if c is not None and c not in exp:
                exp.append(c)
        # the oracle uses ASCII folding; Python lower() of non-ASCII cannot produce a word (env obligation above)
        if got != exp:
            ctx.violation("parse-not-entry-names", "parse_encoding_list differs from the entries of the header", {"header": s, "parsed": got, "entries": exp})
        parse_cases.append((cstr(s), clist(cN(c) for c in got)))
        ctx.count("impl_runs")
    ctx.log(f"parse: {len(parse_cases)} strings run on the implementation")
    ok, bad, clog = ctx.coq_mismatches(HDR, "run_parse", "list_eqb N.eqb", parse_cases, "list N", "list N", shard=_shard(len(parse_cases)))
    ctx.count("model_cases", len(parse_cases))
    ctx.obligation("correspondence:M_Negotiate.run_parse", "correspondence", ok and not bad, clog if not ok else f"{len(bad)} of {len(parse_cases)} strings disagree")
    for i in bad[:3]:
        ctx.violation("model-impl-disagree-parse", "parse_encoding_list and the model parse differently",
                      {"header": strings[i], "impl": [e.value for e in parse_encoding_list(strings[i])], "model": ctx.coq_show(HDR, f"run_parse {parse_cases[i][0]}")})

    # ---- (2)+(3) responses --------------------------------------------------------------------------------
    model_cases: list[tuple[str, str]] = []
    replays: list[dict[str, Any]] = []
    ctx.rule = ("cases = encode set x (Accept-Encoding, X-VGI-Accept-Encoding) x response kind; header pairs = all 16x16 pairs of "
                "duplicate-free codings lists rendered with random case/q/unknown/duplicate decoration + raw random lists (len <= 4); "
                "distinct by (app, cfg, headers, kind); non-trivial = at least one header names a coding")

    def check_case(app_name: str, cfg_codes: list[int], levels: set[str], std: str | None, cus: str | None, kind: str,
                   r: Any, reference: bytes | None, flags: tuple[bool, bool, bool, bool], structural: bool = False) -> None:
        hk, he, bc, problems = _observe(r)
        repl = {"app": app_name, "encode_set": sorted(levels), "cfg": cfg_codes, "Accept-Encoding": std, "X-VGI-Accept-Encoding": cus,
                "kind": kind, "status": r.status_code, "headers": {k: v for k, v in r.headers.items() if "ncoding" in k.lower()}}
        ctx.count("impl_runs")
        ctx.tally("kind", kind)
        ctx.tally("encode_set", ",".join(sorted(levels)) or "-")
        ctx.case([app_name, cfg_codes, std, cus, kind], nontrivial=bool(spec_names(std) + spec_names(cus)) and any(n in CODES for n in spec_names(std) + spec_names(cus)))
        for pb in problems:
            ctx.violation(pb, "both Content-Encoding and X-VGI-Content-Encoding are set", repl)
        if he == 99:
            ctx.violation("announced-unknown-coding", "announced coding is not a known coding", repl)
        # header and body bytes agree
        if (he if hk else 0) != bc:
            ctx.violation("header-body-coding-mismatch", f"announced code {he} but body bytes look like coding {bc}", repl)
        # decoded body identical
        if reference is not None:
            try:
                dec = decode(NAMES[he], r.content) if hk and he in (1, 2) else r.content
                same = (svc.canon_streams(dec, OPAQUE) == svc.canon_streams(reference, OPAQUE)) if structural else dec == reference
            except Exception as e:  # noqa: BLE001
                same = False
                repl = {**repl, "decode_error": f"{type(e).__name__}: {e}"}
            if not same:
                ctx.violation("decoded-body-differs", "the decoded body is not the body of the uncompressed response", repl)
        arrow, owns, nonempty, iobase = flags
        if arrow and nonempty and iobase:
            want = spec_choice(levels, std, cus)
            ctx.tally("spec_choice", want or "none")
            got = NAMES.get(he) if hk else None
            if got != want:
                key = "coding-despite-identity-or-no-overlap" if want is None else ("no-coding-although-producible" if got is None else "coding-not-first-producible")
                ctx.violation(key, f"response coding {got!r}, first producible entry in client order {want!r}", repl)
            elif got is not None:
                if hk == 2 and got not in spec_names(cus):
                    ctx.violation("announced-on-vgi-header-not-offered-there", "X-VGI-Content-Encoding used but the coding was not offered in X-VGI-Accept-Encoding", repl)
                if hk == 1 and got not in spec_names(std):
                    ctx.violation("announced-on-standard-header-not-offered-there", "Content-Encoding used but the coding was not offered in Accept-Encoding", repl)
        inp = f"({clist(cN(c) for c in cfg_codes)}, {copt(None if std is None else cstr(std))}, {copt(None if cus is None else cstr(cus))}, ({cbool(arrow)}, {cbool(owns)}, {cbool(nonempty)}, {cbool(iobase)}))"
        model_cases.append((inp, f"({cN(hk)}, {cN(he)}, {cN(bc)})"))
        replays.append(repl)

    PLAIN = _plain_body()
    lists = dedup_lists()
    pairs = [(s, c) for s in lists for c in lists]
    latin_wide = [t for t in WIDE] + ["\xa0gzip\xa0", "g\xa0zip", "\x85identity", "gzip\xa0;q=1", "\xdfzstd"]

    # (2) minimal app, every encode_levels key set (identity as a key is dropped by the runtime filter)
    cfgs = [list(c) for n in range(4) for c in itertools.combinations((1, 2, 3), n)]
    for cfg in cfgs:
        client = middleware_client(cfg)
        levels = {NAMES[c] for c in cfg if c in (1, 2)}
        for sl, cl in pairs:
            std, cus = decorate(rng, sl), decorate(rng, cl)
            r = client.simulate_post("/arrow", headers=hdrs(std, cus))
            check_case("middleware", cfg, levels, std, cus, "arrow", r, PLAIN, MW_KINDS["arrow"])
        for _ in range(150 if quick else 1500):
            std, cus = raw_list(rng, latin_wide), raw_list(rng, latin_wide)
            kind = rng.choice(["arrow", "arrow", "arrow", "empty", "text", "data"])
            r = client.simulate_post("/" + kind, headers=hdrs(std, cus))
            check_case("middleware", cfg, levels, std, cus, kind, r, mw_reference(kind), MW_KINDS[kind])
    if not quick:
        # exhaustive raw lists of length <= 2 over a 9-token alphabet for both headers
        small = ["zstd", "gzip", "identity", "br", "GZIP;q=0", " Identity ", "", "*", "zstd;q=0.5"]
        raws = [None] + [",".join(c) for n in range(1, 3) for c in itertools.product(small, repeat=n)]
        for cfg in ([1, 2], [2]):
            client = middleware_client(cfg)
            for std in raws:
                for cus in raws:
                    r = client.simulate_post("/arrow", headers=hdrs(std, cus))
                    check_case("middleware", cfg, {NAMES[c] for c in cfg}, std, cus, "arrow", r, PLAIN, MW_KINDS["arrow"])

    ctx.log(f"middleware app: {len(model_cases)} cases")
    # (3) the real app built by the factory: encode sets {}, {gzip}, {zstd, gzip}
    for cfg in ([], [2], [1, 2]):
        client, bodies, refs, problems = factory_env(cfg)
        levels = {NAMES[c] for c in cfg}
        ctx.obligation(f"harness:factory-app-{'+'.join(sorted(levels)) or 'none'}", "harness", not problems, "; ".join(problems))
        for kind, (path, body) in bodies.items():
            owns = kind.startswith("prod-cont")
            full = kind in ("prod-cont-token", "prod-cont-finish") or not quick
            these = pairs if full else rng.sample(pairs, 64)
            for sl, cl in these:
                std, cus = decorate(rng, sl), decorate(rng, cl)
                r = client.simulate_post(path, body=body, headers=hdrs(std, cus))
                check_case("factory", cfg, levels, std, cus, kind, r, refs[kind], (True, owns, True, True), kind in STRUCTURAL)
            for _ in range(30 if quick else 400):
                std, cus = raw_list(rng, latin_wide), raw_list(rng, latin_wide)
                r = client.simulate_post(path, body=body, headers=hdrs(std, cus))
                check_case("factory", cfg, levels, std, cus, kind, r, refs[kind], (True, owns, True, True), kind in STRUCTURAL)
        # observable of the pre-compressed path: a zstd frame written by Arrow's stream codec declares no content size
        if 1 in cfg:
            import zstandard

            path, body = bodies["prod-cont-finish"]
            r = client.simulate_post(path, body=body, headers=hdrs(None, "zstd"))
            if body_coding(r.content) == 1:
                size = zstandard.get_frame_parameters(r.content).content_size
                ctx.tally("producer-zstd-frame", "streaming (pre-compressed)" if size in (-1, 2**64 - 1) else "sized (middleware)")

    ctx.log(f"factory app done: {len(model_cases)} cases in total")
    ctx.sample({"encode_set": ["gzip", "zstd"], "Accept-Encoding": "deflate, gzip, br, zstd", "X-VGI-Accept-Encoding": "zstd, gzip", "expected": "Content-Encoding: zstd"})
    ctx.sample({"encode_set": ["gzip"], "Accept-Encoding": "identity, gzip", "X-VGI-Accept-Encoding": "zstd", "expected": "no coding"})
    ctx.sample({"encode_set": ["gzip", "zstd"], "Accept-Encoding": None, "X-VGI-Accept-Encoding": "GZIP;q=0", "expected": "X-VGI-Content-Encoding: gzip"})

    ok, bad, clog = ctx.coq_mismatches(HDR, "run_case", "fun a b => N.eqb (fst (fst a)) (fst (fst b)) && N.eqb (snd (fst a)) (snd (fst b)) && N.eqb (snd a) (snd b)",
                                       model_cases, "list N * option (list N) * option (list N) * (bool * bool * bool * bool)", "N * N * N", shard=_shard(len(model_cases)))
    ctx.count("model_cases", len(model_cases))
    ctx.obligation("correspondence:M_Negotiate.run_case", "correspondence", ok and not bad, clog if not ok else f"{len(bad)} of {len(model_cases)} cases disagree")
    for i in bad[:5]:
        ctx.violation("model-impl-disagree", "implementation and model respond differently",
                      {**replays[i], "impl(hk,he,bc)": model_cases[i][1], "model": ctx.coq_show(HDR, f"run_case {model_cases[i][0]}")})
    ctx.exhaustive = False
    ctx.assumptions += [
        "zstd / gzip decompress(compress(b)) = b for the middleware's compressors and for pyarrow.CompressedOutputStream (Section hypotheses of C19_decoded_body_same; exercised on every case by decoding the real bodies)",
        "zstandard is importable (available_encodings() = (zstd, gzip)); checked",
        "str.strip()/str.isspace() table and 'no non-ASCII code point lowers into an ASCII word character' checked against the runtime on every run",
        "header values reach the middleware as req.get_header gives them (WSGI latin-1); absent and empty header are the same (`or \"\"`)",
        "q-values are not preferences: textual order decides and q=0 entries still count as offered (reading adopted from the code)",
    ]


def replay(ctx: Any, rec: Any) -> int:
    """Re-run one recorded case (the loaded replay file) against the tree under test; the violation is raised again
    through ctx.violation iff the real code still misbehaves on it."""
    from vgi_rpc._codec import parse_encoding_list
    from vgi_rpc.metadata import CALL_STATE_KEY, STATE_KEY

    if not isinstance(rec, dict):
        import json

        rec = json.loads(open(rec).read())
    rp, key = rec.get("replay", {}), rec.get("key") or "replayed-case"
    if "kind" not in rp and "header" not in rp:
        print("no single failing input recorded (broken obligation only): re-running the whole check")
        run(ctx)
        return 0
    if "header" in rp and "app" not in rp:
        got = [e.value for e in parse_encoding_list(rp["header"])]
        exp: list[str] = []
        for n in spec_names(rp["header"]):
            if n in CODES and n not in exp:
                exp.append(n)
        print(f"parse_encoding_list({rp['header']!r}) = {got}; entries say {exp}")
        if got != exp:
            ctx.violation(key, "parse_encoding_list differs from the entries of the header (replayed)", rp)
        return int(got != exp)
    cfg, std, cus, kind = rp["cfg"], rp.get("Accept-Encoding"), rp.get("X-VGI-Accept-Encoding"), rp["kind"]
    levels = {NAMES[c] for c in cfg if c in (1, 2)}
    if rp["app"] == "middleware":
        client = middleware_client(cfg)
        r = client.simulate_post("/" + kind, headers=hdrs(std, cus))
        ref, flags, structural = mw_reference(kind), MW_KINDS[kind], False
    else:
        client, bodies, refs, problems = factory_env(cfg)
        r = client.simulate_post(bodies[kind][0], body=bodies[kind][1], headers=hdrs(std, cus))
        ref, flags, structural = refs[kind], (True, kind.startswith("prod-cont"), True, True), kind in STRUCTURAL
    hk, he, bc, problems2 = _observe(r)
    want = spec_choice(levels, std, cus)
    got = NAMES.get(he) if hk else None
    opaque = (STATE_KEY, CALL_STATE_KEY, b"vgi_rpc.request_id")
    try:
        dec = decode(NAMES[he], r.content) if hk and he in (1, 2) else r.content
        same = (svc.canon_streams(dec, opaque) == svc.canon_streams(ref, opaque)) if structural else dec == ref
    except Exception as e:  # noqa: BLE001
        same = False
        print(f"decode failed: {type(e).__name__}: {e}")
    hdr_ok = got is None or (hk == 2 and got in spec_names(cus)) or (hk == 1 and got in spec_names(std))
    applies = flags[0] and flags[2] and flags[3]
    print(f"key={key} encode_set={sorted(levels)} Accept-Encoding={std!r} X-VGI-Accept-Encoding={cus!r} kind={kind}")
    print(f"  announced: {['none', 'Content-Encoding', 'X-VGI-Content-Encoding'][hk]} {got!r}; body bytes coding {bc}; first producible entry {want!r}; "
          f"decoded body identical: {same}; header offered there: {hdr_ok}")
    bad = bool(problems2) or not same or (he if hk else 0) != bc or (applies and (got != want or not hdr_ok))
    print("  -> " + ("REPRODUCED" if bad else "not reproduced on this tree"))
    if bad:
        ctx.violation(key, rec.get("what", "replayed case misbehaves"), rp)
    return int(bad)
