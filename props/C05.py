"""C05 Malformed requests never silently kill or hang a connection.

proof        : coq/prop/P_C05.v over model/M_ReadReq.v -- the exception flow of _read_request -> serve_one -> serve.
               The model is PARAMETERISED by the handler table; the theorems hold for every table that passes the
               boolean coverage check `covers` (finite: every site x every exception class of the model's class tree).
regenerated  : translate/t_c05_excflow.py -> gen/G_ReadReq.v on every run: for every raising site of the request path
               the full stack of enclosing try/except (and contextlib.suppress) handlers through
               _maybe_attach_shm / _decode_request / _read_request / serve_one / serve, plus the metadata key constants.
               tie/T_ReadReq.v proves `covers gen_stacks = true` and restates the theorems over the generated table;
               it also cross-checks the serve / serve_one rows against wire-core's gen/G_WireHandlers.v.
correspondence: the model instantiated with the REGENERATED table (so it models whatever the tree under test does,
               repaired or not) against the real RpcServer.serve / serve_one over an in-memory pipe on
               descriptor-built requests (metadata keys x values, column types, rows 0..3, real / missing / foreign
               shared-memory segments, pointer batches, external pointers) and on truncated / corrupted byte strings.
               Library behaviour at a site (pyarrow reading the bytes, .as_py(), ShmSegment.attach,
               resolve_shm_batch, shm.free, resolve_external_location, parameter validation) is obtained by calling
               that library function directly; the model composes these site outcomes with the handler table.
oracle       : on every well-framed request the real server must write a stream and answer the follow-up probe call.

Readings adopted (the statement leaves room):
 * "well-framed request stream" = pyarrow opens the stream, reads a first batch that passes the server's IPC
   validation, and drains to EOS without error, AND the reader stops exactly at the end of the bytes the sender
   delimited as this request (a corrupted message-length field that pyarrow happens to tolerate makes the reader run
   into the next request: such a byte string is not a valid IPC stream of its own and desynchronises the connection;
   it is judged by the second sentence of the statement and is not compared with the one-request model).  A schema-only stream (zero batches), batches failing full validation
   and everything pyarrow rejects are "not a valid Arrow IPC stream".
 * "without leaving the peer waiting for a reply": after such bytes the serve loop has ended (serve returned or
   raised -- every production caller of serve() then closes the transport or the process exits, so the peer reads
   EOF), never "serve_one returned without writing anything while the loop keeps running"; and when pyarrow reports
   ArrowInvalid an error stream is written first (that is what the code promises).  Corrupted bytes for which
   pyarrow raises OSError / the validator raises IPCError end the loop WITHOUT an error stream: reported as an
   observation, not alarmed on.
 * The method body, the response writing and (for stream methods) the input stream are C04/C01's subject: here the
   implementation is well behaved and `Response` means "dispatched".
"""
from __future__ import annotations

import io
import signal
import struct
from dataclasses import dataclass
from enum import Enum
from typing import Any, Protocol

import pyarrow as pa
from pyarrow import ipc

from vgi_rpc.rpc import AnnotatedBatch, CallContext, OutputCollector, RpcServer, Stream, StreamState
from vgi_rpc.utils import ArrowSerializableDataclass

META = {
    "id": "C05",
    "technique": "Coq proof of exception-flow coverage over a regenerated handler table + differential correspondence of the table-driven model",
    "level_text": "Coq theorems for all request descriptors (arbitrary metadata maps, columns, rows, any exception class below "
    "Exception at every library site): with a handler table that passes `covers`, every well-framed request is answered "
    "with a response or an error stream and the loop continues (also over whole request sequences); the loop ends only on "
    "bytes pyarrow rejects, never silently continues, and ArrowInvalid is answered first. `covers` is proved for the table "
    "regenerated from the source on every run.",
    "level_note": "Trusted: Coq kernel (vm_compute), t_c05_excflow (AST -> handler stacks), the finite exception-class tree "
    "(checked against the runtime MRO), the harness. Modelled, validated by correspondence only: the order of the steps, "
    "the non-exception replies (unknown method, __transport_options__, dispatch). Not covered: faults while WRITING a "
    "reply, BaseException-only classes, HTTP.",
    "design_ref": "§5 C05",
}

ALL_EXC = [
    "BaseException", "Exception", "KeyboardInterrupt", "ArithmeticError", "OverflowError", "AssertionError", "AttributeError",
    "MethodNotImplementedError", "BufferError", "EOFError", "LookupError", "KeyError", "IndexError", "OSError", "FileNotFoundError",
    "PermissionError", "ConnectionError", "BrokenPipeError", "ConnectionResetError", "ConnectionAbortedError", "RuntimeError",
    "NotImplementedError", "StopIteration", "TypeError", "ValueError", "UnicodeError", "UnicodeDecodeError", "struct.error",
    "MemoryError", "ArrowException", "ArrowInvalid", "ArrowNotImplementedError", "ArrowTypeError", "ArrowKeyError",
    "ArrowIndexError", "IPCError", "RpcError", "VersionError", "ProtocolVersionError",
]


def _real_classes() -> dict[str, type]:
    import builtins

    from vgi_rpc.rpc import MethodNotImplementedError, ProtocolVersionError, RpcError, VersionError
    from vgi_rpc.utils import IPCError

    special: dict[str, type] = {
        "struct.error": struct.error, "MethodNotImplementedError": MethodNotImplementedError, "IPCError": IPCError,
        "RpcError": RpcError, "VersionError": VersionError, "ProtocolVersionError": ProtocolVersionError,
    }
    out = {}
    for n in ALL_EXC:
        out[n] = special.get(n) or getattr(pa, n, None) or getattr(builtins, n)
    return out


# --------------------------------------------------------------------------------------------------------------------
# the service under test (module level: type hints are resolved)
# --------------------------------------------------------------------------------------------------------------------
@dataclass
class C05State(StreamState):
    n: int = 0

    def process(self, input: AnnotatedBatch, out: OutputCollector, ctx: CallContext) -> None:
        out.finish()


@dataclass(frozen=True)
class C05Point(ArrowSerializableDataclass):
    x: int
    y: str


class C05Color(Enum):
    RED = "red"
    BLUE = "blue"


class C05Proto(Protocol):
    def f(self, a: int) -> int: ...
    def g(self, a: int) -> Stream[C05State]: ...
    def h(self, p: C05Point) -> int: ...
    def ho(self, p: C05Point | None) -> int: ...
    def hl(self, ps: list[C05Point]) -> int: ...
    def k(self, c: C05Color) -> int: ...


class C05ProtoV(Protocol):
    protocol_version = "1.2.0"

    def f(self, a: int) -> int: ...
    def g(self, a: int) -> Stream[C05State]: ...
    def h(self, p: C05Point) -> int: ...
    def ho(self, p: C05Point | None) -> int: ...
    def hl(self, ps: list[C05Point]) -> int: ...
    def k(self, c: C05Color) -> int: ...


class C05Impl:
    def f(self, a: int) -> int:
        return a + 1

    def g(self, a: int) -> Stream[C05State]:
        return Stream(output_schema=pa.schema([]), state=C05State())

    def h(self, p: C05Point) -> int:
        return p.x

    def ho(self, p: C05Point | None) -> int:
        return 0 if p is None else p.x

    def hl(self, ps: list[C05Point]) -> int:
        return len(ps)

    def k(self, c: C05Color) -> int:
        return 1


PROBE_A = 41


class _Hang(Exception):
    pass


def _alarm(_s: int, _f: Any) -> None:
    raise _Hang()


def translate(ctx: Any) -> None:
    from translate import t_c05_excflow

    ctx.gen("G_ReadReq", lambda: t_c05_excflow.module(ctx.repo))
    # wire-core's table (cross-checked in tie/T_ReadReq.v); regenerate it here too so the tie never reads a stale file
    from translate import t_excflow

    ctx.gen("G_WireHandlers", lambda: t_excflow.handlers_module(ctx.repo))


HEADER = (
    "From Coq Require Import List String NArith Bool.\nFrom VGI Require Import M_ReadReq G_ReadReq Corr.\nImport ListNotations.\nOpen Scope N_scope.\n"
    "Definition KK : keys := {| K_METHOD := gen_K_RPC_METHOD_KEY; K_VERSION := gen_K_REQUEST_VERSION_KEY; V_VERSION := gen_K_REQUEST_VERSION;"
    " K_TP := gen_K_TRACEPARENT_KEY; K_TS := gen_K_TRACESTATE_KEY; K_LOCATION := gen_K_LOCATION_KEY; K_LOG_LEVEL := gen_K_LOG_LEVEL_KEY;"
    " K_SHM_OFFSET := gen_K_SHM_OFFSET_KEY; K_SHM_LENGTH := gen_K_SHM_LENGTH_KEY; K_SEG_NAME := gen_K_SHM_SEGMENT_NAME_KEY;"
    " K_SEG_SIZE := gen_K_SHM_SEGMENT_SIZE_KEY; N_TRANSPORT_OPTIONS := gen_K_TRANSPORT_OPTIONS_METHOD_NAME |}.\n"
    "Definition out3 (x : N * N * N * option (list N)) : N * N * N := fst x.\n"
    "Definition eq3 (a b : N * N * N) : bool := pair_eqb (pair_eqb N.eqb N.eqb) N.eqb a b."
)


def run(ctx: Any) -> None:  # noqa: C901, PLR0912, PLR0915 - one long driver, kept linear on purpose
    import sys

    from vlib.coqterm import cN, cbool, cbytes, clist, copt, cstr

    if "/verif/harness/stubs" not in sys.path:
        sys.path.append("/verif/harness/stubs")  # tenacity stand-in (external pointer resolution imports it)

    translate(ctx)
    # source-independent part first (theorems for every covering table, record of the old behaviour) ...
    ctx.prove(
        ["prop/P_C05.vo", "refuted/R_C05.vo"],
        {"P_C05": ["C05_always_answers", "C05_keeps_serving", "C05_only_bad_ipc_ends", "C05_never_silent"]},
    )
    # ... then the tie to the tree under test: the regenerated table covers, theorems restated over it
    ctx.prove(
        ["tie/T_ReadReq.vo"],
        {"T_ReadReq": ["keys_tie", "gen_covers", "C05_source_always_answers", "C05_source_keeps_serving", "C05_source_only_bad_ipc_ends", "wire_core_rows_agree"]},
    )

    from harness.rawrpc import error_of, read_streams, request_bytes, tick_stream_bytes
    from vgi_rpc.external import ExternalLocationConfig, resolve_external_location
    from vgi_rpc.metadata import PROTOCOL_VERSION_KEY
    from vgi_rpc.rpc import PipeTransport, ShmPipeTransport
    from vgi_rpc.rpc._wire import _deserialize_params, _validate_call_signature, _validate_params
    from vgi_rpc.shm import ShmSegment, resolve_shm_batch
    from vgi_rpc.utils import ValidatedReader

    real = _real_classes()
    validation_order = _validation_order(ctx.repo)

    def code_of_exc(e: BaseException | type | None) -> int:
        """0 = none; else 1 + index of the nearest model class in the MRO."""
        if e is None:
            return 0
        cls = e if isinstance(e, type) else type(e)
        for c in cls.__mro__:
            for i, n in enumerate(ALL_EXC):
                if real[n] is c:
                    return i + 1
        return 1  # BaseException

    def code_of_name(name: str) -> int:
        n = "struct.error" if name == "error" else name
        return ALL_EXC.index(n) + 1 if n in ALL_EXC else 99

    # ---- environment fact: the model's class tree is the runtime's -------------------------------------------------
    ok, out = ctx.coq_eval(
        "From Coq Require Import List String NArith.\nFrom VGI Require Import M_ReadReq.\nImport ListNotations.",
        "Eval vm_compute in (map (fun e => (exc_name e, map exc_name (anc 6 e))) all_exc).",
    )
    import re

    tree_ok = ok
    detail = "" if ok else out[-400:]
    if ok:
        rows = re.findall(r'\("([^"]+)"(?:%string)?,\s*\[([^\]]*)\]\)', re.sub(r"\s+", " ", out))
        names = [r[0] for r in rows]
        if names != ALL_EXC:
            tree_ok, detail = False, f"class list differs: {names[:5]}..."
        for nm, ancs in rows:
            model_anc = set(re.findall(r'"([^"]+)"', ancs))
            real_anc = {n for n in ALL_EXC if real[n] in real[nm].__mro__}
            if model_anc != real_anc:
                tree_ok, detail = False, f"{nm}: model ancestors {sorted(model_anc)} runtime {sorted(real_anc)}"
    ctx.obligation("env:exception-class-tree", "environment", tree_ok, detail)

    # ---- servers ---------------------------------------------------------------------------------------------------
    ext_cfg = ExternalLocationConfig(max_retries=0, retry_delay_seconds=0.0)
    servers = {
        "plain": RpcServer(C05Proto, C05Impl(), enable_describe=True),
        "versioned": RpcServer(C05ProtoV, C05Impl(), enable_describe=True),
        "ext": RpcServer(C05Proto, C05Impl(), enable_describe=True, external_location=ext_cfg),
    }
    f_schema = servers["plain"]._methods["f"].params_schema
    probe = request_bytes("f", f_schema, {"a": PROBE_A}, {b"vgi_rpc.protocol_version": b"1.2.0"})
    seg = ShmSegment.create(65536 * 3)       # a real vgi segment the "client" owns
    seg2 = ShmSegment.create(65536 * 2)      # a second one (cache replacement)
    from multiprocessing.shared_memory import SharedMemory

    foreign = SharedMemory(create=True, size=4096)      # exists, but is not a vgi segment (bad magic)
    tiny = SharedMemory(create=True, size=8)            # exists, smaller than the header
    snap = bytes(seg.buf)

    def restore() -> None:
        seg.buf[: len(snap)] = snap

    def cleanup() -> None:
        for s in (seg, seg2):
            try:
                s.close()
                s.unlink()
            except Exception:  # noqa: BLE001
                pass
        for s in (foreign, tiny):
            try:
                s.close()
                s.unlink()
            except Exception:  # noqa: BLE001
                pass

    def seg_md(s: Any, size: int | None = None) -> dict[bytes, bytes]:
        return {b"vgi_rpc.shm_segment_name": s.name.encode(), b"vgi_rpc.shm_segment_size": str(size if size is not None else s.size).encode()}

    # ---- run the real server -----------------------------------------------------------------------------------------
    def drive(srv: RpcServer, data: bytes, *, loop: bool, static: bool, prelude: tuple[bytes, int], with_probe: bool) -> tuple[int, int, int, str]:
        """(kind, written code, escaped code, note) of the request in ``data`` (see M_ReadReq.run_case)."""
        # serve() sets the transport kind; for a direct serve_one call it keeps whatever the previous serve() left,
        # which is never HTTP here.
        stream_in = prelude[0] + data
        rd, wr = io.BytesIO(stream_in), io.BytesIO()
        pipe = PipeTransport(rd, wr)
        t: Any = ShmPipeTransport(pipe, seg) if static else pipe
        exc: BaseException | None = None
        signal.signal(signal.SIGALRM, _alarm)
        signal.setitimer(signal.ITIMER_REAL, 20.0)
        try:
            if loop:
                srv.serve(t)
            else:
                for _ in range(prelude[1]):
                    srv.serve_one(t)  # earlier calls on the same connection
                try:
                    srv.serve_one(t)
                except BaseException as e:  # noqa: BLE001
                    if isinstance(e, _Hang):
                        raise
                    exc = e
                else:
                    # the loop a caller would run: keep going so that the probe shows the connection is usable
                    try:
                        while True:
                            srv.serve_one(t)
                    except BaseException as e2:  # noqa: BLE001 - end of input
                        if isinstance(e2, _Hang):
                            raise
        except _Hang:
            return 8, 0, 0, "hang"
        except BaseException as e:  # noqa: BLE001
            exc = e
        finally:
            signal.setitimer(signal.ITIMER_REAL, 0)
        streams = read_streams(wr.getvalue())
        streams = streams[prelude[1]:]  # every priming request is answered with exactly one stream

        def is_probe(st: list[Any]) -> bool:
            return any(b is not None and b.num_rows == 1 and b.schema.names == ["result"] and b.column(0)[0].as_py() == PROBE_A + 1 for _, _, b in st)

        probe_at = next((i for i, st in enumerate(streams) if is_probe(st)), None)
        first = streams[0] if streams else None
        first_err = error_of(first) if first is not None and not (probe_at == 0) else None
        if probe_at is not None:
            if probe_at == 0:
                return 2, 0, 0, "no reply before the probe's"
            if first_err is not None:
                return 1, code_of_name(first_err[0]), 0, first_err[1][:80]
            return 0, 0, 0, ""
        if not with_probe and len(streams) >= 2:
            # no probe was sent: a second stream (the reply to end-of-input) shows that the loop went on after the first
            fe = error_of(streams[0])
            return (1, code_of_name(fe[0]), 0, fe[1][:80]) if fe is not None else (0, 0, 0, "")
        # the loop ended before the probe
        if first is not None and error_of(first) is None:
            return 9, 0, code_of_exc(exc), "response written, then the loop ended"
        w = code_of_name(error_of(first)[0]) if first is not None else 0  # type: ignore[index]
        return 3, w, code_of_exc(exc), (error_of(first)[1][:80] if first is not None else "")  # type: ignore[index]

    # ---- site oracles: what the library does with these bytes ------------------------------------------------------------
    def try_code(fn: Any) -> tuple[int, Any]:
        try:
            return 0, fn()
        except Exception as e:  # noqa: BLE001
            if __import__("os").environ.get("C05_DEBUG"):
                __import__("traceback").print_exc()
            return code_of_exc(e), None

    def aspy_codes(batch: pa.RecordBatch) -> list[int]:
        if batch.num_rows != 1:
            return [0] * len(batch.schema)
        return [try_code(lambda i=i: batch.column(i)[0].as_py())[0] for i in range(len(batch.schema))]

    def describe(srv: RpcServer, srv_key: str, data: bytes, have_seg: Any) -> dict[str, Any] | None:
        """All fields of M_ReadReq.req for the request bytes (None if a field cannot be expressed)."""
        d: dict[str, Any] = {"pre": (0, 0, 0), "md": [], "cols": [], "rows": 0, "ext": (0, ([], 0)), "shm_meta_ok": True, "attach": 0,
                             "shmres": (0, ([], 0)), "release": 0, "ver": 0, "val": 0}
        src = io.BytesIO(data)
        c, rdr = try_code(lambda: ValidatedReader(ipc.open_stream(src), srv._ipc_validation))
        if c:
            d["pre"] = (c, 0, 0)
            return d
        c, got = try_code(rdr.read_next_batch_with_custom_metadata)
        if c:
            d["pre"] = (0, c, 0)
            return d
        batch, cm = got

        def drain() -> None:
            while True:
                try:
                    rdr.read_next_batch()
                except StopIteration:
                    return

        c, _ = try_code(drain)
        if c:
            d["pre"] = (0, 0, c)
            return d
        d["end"] = src.tell()  # where the reader stopped: the request's end iff the message length fields are intact
        md = dict(cm.items()) if cm is not None else {}
        d["md"] = list(cm.items()) if cm is not None else []
        if len(d["md"]) != len(md):
            return None  # duplicate keys: KeyValueMetadata.get order is outside the model
        d["cols"] = aspy_codes(batch)
        d["rows"] = batch.num_rows
        final = batch
        if srv_key == "ext" and batch.num_rows == 0 and b"vgi_rpc.location" in md:
            c, res = try_code(lambda: resolve_external_location(batch, cm, ext_cfg))
            if c:
                d["ext"] = (c, ([], 0))
            else:
                final = res[0]
                d["ext"] = (0, (aspy_codes(final), final.num_rows))
        nm, sz = md.get(b"vgi_rpc.shm_segment_name"), md.get(b"vgi_rpc.shm_segment_size")
        attached = None
        if nm is not None and sz is not None:
            c, v = try_code(lambda: (nm.decode(), int(sz)))
            d["shm_meta_ok"] = c == 0
            if c == 0:
                c2, attached = try_code(lambda: ShmSegment.attach(v[0], v[1], track=False))
                d["attach"] = c2
        use = have_seg or attached
        if use is not None and final.num_rows == 0 and b"vgi_rpc.shm_offset" in md:
            keep = bytes(use.buf[:65536])
            c, res = try_code(lambda: resolve_shm_batch(final, cm, use))
            if c:
                d["shmres"] = (c, ([], 0))
            elif res[2] is not None:
                final = res[0]
                d["shmres"] = (0, (aspy_codes(final), final.num_rows))
                d["release"] = try_code(res[2])[0]
            use.buf[:65536] = keep
        if attached is not None:
            try:
                attached.close()
            except Exception:  # noqa: BLE001
                pass
        mb = md.get(b"vgi_rpc.method")
        name = None
        if mb is not None:
            try:
                name = mb.decode()
            except UnicodeDecodeError:
                name = None
        if srv_key == "versioned":
            d["ver"] = try_code(lambda: srv._check_protocol_version(md.get(PROTOCOL_VERSION_KEY)))[0]
        info = srv._methods.get(name) if name is not None else None
        if info is not None and (final.num_rows == 1 or len(final.schema) == 0) and not any(aspy_codes(final)):
            kwargs = {f.name: final.column(i)[0].as_py() for i, f in enumerate(final.schema)}

            def validate() -> None:
                from vgi_rpc.rpc._common import _current_request_param_schema

                _current_request_param_schema.set(final.schema)  # what _read_request leaves behind for the check
                steps = {
                    "_deserialize_params": lambda: _deserialize_params(kwargs, info.param_types, srv._ipc_validation),
                    "_validate_call_signature": lambda: _validate_call_signature(info.name, kwargs, info.param_types, info.param_defaults, info.params_schema),
                    "_validate_params": lambda: _validate_params(info.name, kwargs, info.param_types),
                }
                for step in validation_order:
                    steps[step]()

            d["val"] = try_code(validate)[0]
        return d

    # ---- request generators -----------------------------------------------------------------------------------------------
    rng = ctx.rng
    MDV = {b"vgi_rpc.method": b"f", b"vgi_rpc.request_version": b"1"}

    def build(arrays: list[pa.Array], names: list[str], md: dict[bytes, bytes] | None, nullable: bool = False) -> bytes:
        schema = pa.schema([pa.field(n, a.type, nullable=nullable) for n, a in zip(names, arrays)])
        b = pa.RecordBatch.from_arrays(arrays, schema=schema)
        sink = io.BytesIO()
        with ipc.new_stream(sink, schema) as w:
            w.write_batch(b, custom_metadata=pa.KeyValueMetadata(md) if md else None)
        return sink.getvalue()

    def int_col(rows: int, v: int = 1) -> pa.Array:
        return pa.array([v] * rows, type=pa.int64())

    COLS: list[tuple[str, Any]] = [
        ("int64", lambda n: pa.array([1] * n, pa.int64())),
        ("int64-null", lambda n: pa.array([None] * n, pa.int64())),
        ("string", lambda n: pa.array(["x"] * n)),
        ("binary-nonutf8", lambda n: pa.array([b"\xff"] * n)),
        ("float64", lambda n: pa.array([1.5] * n)),
        ("bool", lambda n: pa.array([True] * n)),
        ("list", lambda n: pa.array([[1, 2]] * n)),
        ("struct", lambda n: pa.array([{"x": 1}] * n)),
        ("dict", lambda n: pa.array(["x"] * n).dictionary_encode()),
        ("null", lambda n: pa.nulls(n)),
        ("ts-s-huge", lambda n: pa.array([2**62] * n, pa.timestamp("s"))),
        ("ts-ns-huge", lambda n: pa.array([2**62] * n, pa.timestamp("ns"))),
        ("ts-bogus-tz", lambda n: pa.array([1] * n, pa.timestamp("s", tz="Foo/Bar"))),
        ("date32-huge", lambda n: pa.array([2**31 - 1] * n, pa.date32())),
        ("duration-huge", lambda n: pa.array([2**62] * n, pa.duration("s"))),
        ("decimal", lambda n: pa.array([None] * n, pa.decimal128(38, 2))),
        ("uint64-max", lambda n: pa.array([2**64 - 1] * n, pa.uint64())),
        ("time32", lambda n: pa.array([1] * n, pa.time32("s"))),
    ]
    KEYS = [b"vgi_rpc.method", b"vgi_rpc.request_version", b"traceparent", b"tracestate", b"vgi_rpc.location", b"vgi_rpc.log_level",
            b"vgi_rpc.shm_offset", b"vgi_rpc.shm_length", b"vgi_rpc.shm_segment_name", b"vgi_rpc.shm_segment_size", b"vgi_rpc.protocol_version",
            b"vgi_rpc.cancel", b"vgi_rpc.stream_state#b64", b"vgi_rpc.shm_source", b"vgi_rpc.location.sha256", b"", b"\xff\xfe", b"x-custom"]
    VALS = [b"", b"\xff\xfe", b"x", b"1", b"-1", b"0", b"f", b"g", b"zzz", b"__describe__", b"__transport_options__", b"1.2.0", b"1.3.0", b"00-ab-cd-01",
            b"https://example.invalid/x", b"http://example.invalid/x", b"no_such_seg", b"a\x00b", b"99999999999999999999", b" 12 ", b"1_0", b"4096",
            seg.name.encode(), seg2.name.encode(), foreign.name.encode(), tiny.name.encode(), str(seg.size).encode()]

    cases: list[dict[str, Any]] = []

    def add(label: str, data: bytes, *, srv: str = "plain", loop: bool = True, static: bool = False, cached: bool = False, is_g: bool = False, family: str = "framed", with_probe: bool = True,
            primed: tuple[str, ...] = ()) -> None:
        """primed = what happened earlier on the same connection: "ok" a successful call, "fail" a call answered with an
        error stream, "seg" a successful call that advertised the real segment (the connection cache holds it afterwards)."""
        if cached and "seg" not in primed:
            primed = (*primed, "seg")
        full = data + (tick_stream_bytes(1) if is_g else b"") + (probe if with_probe else b"")
        cases.append({"label": label, "data": data, "full": full, "srv": srv, "loop": loop, "static": static, "cached": "seg" in primed, "primed": primed, "family": family, "with_probe": with_probe})

    # (a) targeted scenarios: one per arm of the model
    add("good f", build([int_col(1)], ["a"], MDV))
    add("good g", build([int_col(1)], ["a"], {**MDV, b"vgi_rpc.method": b"g"}), is_g=True)
    add("describe", build([], [], {**MDV, b"vgi_rpc.method": b"__describe__"}))
    add("transport options", build([], [], {**MDV, b"vgi_rpc.method": b"__transport_options__"}))
    add("unknown method", build([int_col(1)], ["a"], {**MDV, b"vgi_rpc.method": b"zzz"}))
    add("no metadata", build([int_col(1)], ["a"], None))
    add("no method", build([int_col(1)], ["a"], {b"vgi_rpc.request_version": b"1"}))
    add("no version", build([int_col(1)], ["a"], {b"vgi_rpc.method": b"f"}))
    add("bad version", build([int_col(1)], ["a"], {**MDV, b"vgi_rpc.request_version": b"2"}))
    add("method not utf8", build([int_col(1)], ["a"], {**MDV, b"vgi_rpc.method": b"\xff"}))
    add("traceparent not utf8", build([int_col(1)], ["a"], {**MDV, b"traceparent": b"\xff\xfe"}))
    add("tracestate not utf8", build([int_col(1)], ["a"], {**MDV, b"traceparent": b"00-ab", b"tracestate": b"\xff"}))
    add("tracestate alone not utf8", build([int_col(1)], ["a"], {**MDV, b"tracestate": b"\xff"}))
    for rows in (0, 2, 3):
        add(f"rows {rows}", build([int_col(rows)], ["a"], MDV))
    add("wrong column", build([pa.array(["x"])], ["b"], MDV))
    add("segment does not exist", build([int_col(1)], ["a"], {**MDV, b"vgi_rpc.shm_segment_name": b"no_such_seg", b"vgi_rpc.shm_segment_size": b"4096"}))
    add("segment does not exist (direct serve_one)", build([int_col(1)], ["a"], {**MDV, b"vgi_rpc.shm_segment_name": b"no_such_seg", b"vgi_rpc.shm_segment_size": b"4096"}), loop=False)
    add("segment foreign", build([int_col(1)], ["a"], {**MDV, b"vgi_rpc.shm_segment_name": foreign.name.encode(), b"vgi_rpc.shm_segment_size": b"4096"}))
    add("segment tiny", build([int_col(1)], ["a"], {**MDV, b"vgi_rpc.shm_segment_name": tiny.name.encode(), b"vgi_rpc.shm_segment_size": b"8"}))
    add("segment name NUL", build([int_col(1)], ["a"], {**MDV, b"vgi_rpc.shm_segment_name": b"a\x00b", b"vgi_rpc.shm_segment_size": b"8"}))
    add("segment size not int", build([int_col(1)], ["a"], {**MDV, b"vgi_rpc.shm_segment_name": b"no_such_seg", b"vgi_rpc.shm_segment_size": b"x"}))
    add("segment size negative", build([int_col(1)], ["a"], {**MDV, **seg_md(seg, -1)}))
    add("segment real", build([int_col(1)], ["a"], {**MDV, **seg_md(seg)}))
    add("segment real (direct)", build([int_col(1)], ["a"], {**MDV, **seg_md(seg)}), loop=False)
    add("pointer, no segment named", build([int_col(0)], ["a"], {**MDV, b"vgi_rpc.shm_offset": b"0", b"vgi_rpc.shm_length": b"8"}))
    add("pointer, missing segment", build([int_col(0)], ["a"], {**MDV, b"vgi_rpc.shm_offset": b"0", b"vgi_rpc.shm_length": b"8", b"vgi_rpc.shm_segment_name": b"no_such_seg", b"vgi_rpc.shm_segment_size": b"4096"}))
    add("pointer, missing segment (direct)", build([int_col(0)], ["a"], {**MDV, b"vgi_rpc.shm_offset": b"0", b"vgi_rpc.shm_length": b"8", b"vgi_rpc.shm_segment_name": b"no_such_seg", b"vgi_rpc.shm_segment_size": b"4096"}), loop=False)
    add("pointer, foreign segment", build([int_col(0)], ["a"], {**MDV, b"vgi_rpc.shm_offset": b"0", b"vgi_rpc.shm_length": b"8", b"vgi_rpc.shm_segment_name": foreign.name.encode(), b"vgi_rpc.shm_segment_size": b"4096"}))
    # a valid region in the real segment holding the f(a=7) request batch
    good_batch = pa.RecordBatch.from_arrays([pa.array([7], pa.int64())], schema=f_schema)
    off, ln = seg.allocate_and_write(good_batch)
    snap = bytes(seg.buf)
    ptr = {b"vgi_rpc.shm_offset": str(off).encode(), b"vgi_rpc.shm_length": str(ln).encode()}
    for label, extra, kw in [
        ("own segment, valid region", {**ptr, **seg_md(seg)}, {}),
        ("own segment, valid region (direct)", {**ptr, **seg_md(seg)}, {"loop": False}),
        ("cached segment, valid region", ptr, {"cached": True}),
        ("static segment, valid region", ptr, {"static": True}),
        ("cached segment, offset not int", {**ptr, b"vgi_rpc.shm_offset": b"abc"}, {"cached": True}),
        ("cached segment, length missing", {b"vgi_rpc.shm_offset": str(off).encode()}, {"cached": True}),
        ("cached segment, garbage region", {b"vgi_rpc.shm_offset": str(off + 3).encode(), b"vgi_rpc.shm_length": b"64"}, {"cached": True}),
        ("cached segment, region beyond segment", {b"vgi_rpc.shm_offset": b"99999999", b"vgi_rpc.shm_length": b"64"}, {"cached": True}),
        ("cached segment, negative offset", {b"vgi_rpc.shm_offset": b"-5", b"vgi_rpc.shm_length": b"64"}, {"cached": True}),
        ("static segment, garbage region", {b"vgi_rpc.shm_offset": b"70000", b"vgi_rpc.shm_length": b"64"}, {"static": True}),
        ("own segment, garbage region", {b"vgi_rpc.shm_offset": b"70000", b"vgi_rpc.shm_length": b"64", **seg_md(seg)}, {}),
        ("cached segment, pointer is a log batch", {**ptr, b"vgi_rpc.log_level": b"INFO"}, {"cached": True}),
        ("cached segment, other segment named", {**ptr, **seg_md(seg2)}, {"cached": True}),
        ("cached segment, missing segment named", {**MDV, b"vgi_rpc.shm_segment_name": b"no_such_seg", b"vgi_rpc.shm_segment_size": b"4096"}, {"cached": True, "rows": 1}),
    ]:
        rows = kw.pop("rows", 0)
        add(label, build([int_col(rows)], ["a"], {**MDV, **extra}), **kw)
    # a region holding a valid IPC stream that the allocator does not know: resolves, then release raises
    sink = io.BytesIO()
    with ipc.new_stream(sink, f_schema) as w:
        w.write_batch(good_batch)
    raw = sink.getvalue()
    unalloc = 65536 + 40000
    seg.buf[unalloc : unalloc + len(raw)] = raw
    snap = bytes(seg.buf)
    add("cached segment, region not allocated", build([int_col(0)], ["a"], {**MDV, b"vgi_rpc.shm_offset": str(unalloc).encode(), b"vgi_rpc.shm_length": str(len(raw)).encode()}), cached=True)
    # external pointers
    for label, url in [("https url, unreachable", b"https://example.invalid/x"), ("http url", b"http://example.invalid/x"), ("url not utf8", b"\xff\xfe"), ("empty url", b"")]:
        add("ext pointer: " + label, build([int_col(0)], ["a"], {**MDV, b"vgi_rpc.location": url}), srv="ext")
        add("ext pointer on a server without external config: " + label, build([int_col(0)], ["a"], {**MDV, b"vgi_rpc.location": url}))
    add("ext pointer with rows", build([int_col(1)], ["a"], {**MDV, b"vgi_rpc.location": b"http://x"}), srv="ext")
    add("ext pointer that is a log batch", build([int_col(0)], ["a"], {**MDV, b"vgi_rpc.location": b"http://x", b"vgi_rpc.log_level": b"INFO"}), srv="ext")
    # protocol version gate
    for v in (None, b"1.2.0", b"1.2.9", b"1.3.0", b"\xff", b"1.2"):
        md = dict(MDV) if v is None else {**MDV, b"vgi_rpc.protocol_version": v}
        add(f"versioned {v!r}", build([int_col(1)], ["a"], md), srv="versioned")
    add("versioned describe", build([], [], {**MDV, b"vgi_rpc.method": b"__describe__"}), srv="versioned")
    # column types x rows
    for tname, mk in COLS:
        for rows in ((1,) if ctx.tier == "quick" and tname not in ("int64", "ts-s-huge") else (0, 1, 2, 3)):
            try:
                add(f"col {tname} rows {rows}", build([mk(rows)], ["a"], MDV, nullable=True))
            except Exception:  # noqa: BLE001 - pyarrow cannot build that array
                pass
    add("two columns, second as_py fails", build([int_col(1), pa.array([2**62], pa.timestamp("s"))], ["a", "b"], MDV))
    add("duplicate column names", build([int_col(1), int_col(1)], ["a", "a"], MDV))
    add("empty column name", build([int_col(1)], [""], MDV))
    add("zero columns for f", build([], [], MDV))

    # (a') metadata mutations: every custom-metadata key the server reads x malformed values, on an otherwise valid call
    # (and, for the shm keys, on a pointer batch), on a fresh connection and on connections primed by earlier calls
    PV0 = {b"vgi_rpc.protocol_version": b"1.2.0"}
    MUT_KEYS = [b"vgi_rpc.method", b"vgi_rpc.request_version", b"traceparent", b"tracestate", b"vgi_rpc.shm_segment_name", b"vgi_rpc.shm_segment_size",
                b"vgi_rpc.shm_offset", b"vgi_rpc.shm_length", b"vgi_rpc.location", b"vgi_rpc.log_level", b"vgi_rpc.protocol_version", b"vgi_rpc.location.sha256"]
    MUT_VALS: list[tuple[str, bytes]] = [
        ("non-utf8", b"\xff\xfe"), ("empty", b""), ("huge text", b"x" * 5000), ("huge number", b"9" * 40), ("negative", b"-1"), ("non-numeric", b"12abc"),
        ("NUL", b"a\x00b"), ("whitespace number", b" 12 "), ("real segment name", seg.name.encode()), ("other real segment", seg2.name.encode()),
    ]
    PRIMINGS: list[tuple[str, ...]] = [(), ("seg",), ("ok",), ("fail",), ("seg", "fail"), ("fail", "seg")]
    for key in MUT_KEYS:
        for vname, val in MUT_VALS:
            base_md = {**MDV, **PV0, b"traceparent": b"00-ab", key: val} if key == b"tracestate" else {**MDV, **PV0, key: val}
            shapes = [("call", 1)] + ([("pointer", 0)] if b"shm" in key else [])
            for shape, rows in shapes:
                extra = {b"vgi_rpc.shm_offset": str(off).encode(), b"vgi_rpc.shm_length": str(ln).encode()} if shape == "pointer" else {}
                md_m = {**extra, **base_md}
                if key in (b"vgi_rpc.shm_segment_name",):
                    md_m.setdefault(b"vgi_rpc.shm_segment_size", str(seg.size).encode())
                if key in (b"vgi_rpc.shm_segment_size",):
                    md_m.setdefault(b"vgi_rpc.shm_segment_name", seg.name.encode())
                data_m = build([int_col(rows)], ["a"], md_m)
                for pr in PRIMINGS:
                    if ctx.tier == "quick" and pr not in ((), ("seg",)) and rng.random() < 0.8:
                        continue
                    add(f"metadata {key.decode()}={vname} on a {shape}, after {'+'.join(pr) or 'nothing'}", data_m, primed=pr, family="metadata")
                if ctx.tier != "quick" or rng.random() < 0.15:
                    add(f"metadata {key.decode()}={vname} on a {shape}, direct serve_one", data_m, loop=False, family="metadata")
                    add(f"metadata {key.decode()}={vname} on a {shape}, versioned server after seg", data_m, srv="versioned", primed=("seg",), family="metadata")

    # (a'') parameters whose conversion runs on caller bytes: the nested IPC stream of a dataclass parameter (plain,
    # optional, list element) and an enum member name
    pt = C05Point(x=5, y="q")
    good_cell = pt.serialize_to_bytes()
    inner_rdr = ipc.open_stream(good_cell)
    inner_schema = inner_rdr.schema
    inner_batch, inner_md = inner_rdr.read_next_batch_with_custom_metadata()

    def inner(batches: list[pa.RecordBatch], schema: pa.Schema | None = None, eos: bool = True) -> bytes:
        sch = schema or inner_schema
        sink = io.BytesIO()
        w = ipc.new_stream(sink, sch)
        for b in batches:
            w.write_batch(b, custom_metadata=inner_md)
        if eos:
            w.close()
            return sink.getvalue()
        out = sink.getvalue()
        w.close()
        return out

    other_schema = pa.schema([("z", pa.float64())])
    other_batch = pa.RecordBatch.from_arrays([pa.array([1.5])], schema=other_schema)
    b_schema, b_batch, b_full = len(inner([], eos=False)), len(inner([inner_batch], eos=False)), len(good_cell)
    CELLS: list[tuple[str, bytes]] = [
        ("valid", good_cell),
        ("zero-batch stream (schema + EOS)", inner([])),
        ("two-batch stream", inner([inner_batch, inner_batch])),
        ("schema only, no EOS", inner([], eos=False)),
        ("schema + batch, no EOS", inner([inner_batch], eos=False)),
        ("empty bytes", b""),
        ("stream of a different schema", inner([other_batch], schema=other_schema)),
        ("zero-batch stream of a different schema", inner([], schema=other_schema)),
        ("zero-row batch", inner([inner_batch.slice(0, 0)])),
        ("two-row batch", inner([pa.concat_batches([inner_batch, inner_batch])]) if hasattr(pa, "concat_batches") else inner([inner_batch])),
        ("trailing garbage", good_cell + b"garbage!"),
        ("garbage", b"garbagegarbagegarbage"),
        ("EOS marker only", b"\xff\xff\xff\xff\x00\x00\x00\x00"),
    ] + [(f"truncated at {k}", good_cell[:k]) for k in sorted({4, 8, b_schema - 8, b_schema, b_schema + 8, b_batch - 8, b_batch, b_full - 4}) if 0 < k < b_full]
    for cname, cell in CELLS:
        for meth, col, arr in [("h", "p", pa.array([cell], pa.binary())), ("ho", "p", pa.array([cell], pa.binary())), ("hl", "ps", pa.array([[good_cell, cell]], pa.list_(pa.binary())))]:
            if meth != "h" and ctx.tier == "quick" and cname not in ("valid", "zero-batch stream (schema + EOS)", "empty bytes", "garbage"):
                continue
            psch = servers["plain"]._methods[meth].params_schema
            try:
                data_c = build([arr.cast(psch.field(0).type)], [col], {**MDV, **PV0, b"vgi_rpc.method": meth.encode()}, nullable=psch.field(0).nullable)
            except Exception:  # noqa: BLE001
                continue
            add(f"{meth}: nested cell = {cname}", data_c, family="nested")
            if meth == "h":
                add(f"{meth}: nested cell = {cname}, after seg+fail", data_c, family="nested", primed=("seg", "fail"))
                if cname.startswith("zero-batch") or ctx.tier != "quick":
                    add(f"{meth}: nested cell = {cname}, direct serve_one", data_c, family="nested", loop=False)
                    add(f"{meth}: nested cell = {cname}, versioned server", data_c, family="nested", srv="versioned")
    add("ho: null cell", build([pa.array([None], pa.binary())], ["p"], {**MDV, **PV0, b"vgi_rpc.method": b"ho"}, nullable=True), family="nested")
    add("h: null cell", build([pa.array([None], pa.binary())], ["p"], {**MDV, **PV0, b"vgi_rpc.method": b"h"}, nullable=True), family="nested")
    add("h: string instead of bytes", build([pa.array(["x"])], ["p"], {**MDV, **PV0, b"vgi_rpc.method": b"h"}), family="nested")
    ksch = servers["plain"]._methods["k"].params_schema
    for ename, val in [("known member", "RED"), ("unknown member", "PURPLE"), ("empty", ""), ("value not name", "red"), ("null", None)]:
        try:
            arr_k = pa.array([val], pa.string()).cast(ksch.field(0).type) if not pa.types.is_dictionary(ksch.field(0).type) else pa.array([val], pa.string()).dictionary_encode().cast(ksch.field(0).type)
            add(f"k: enum {ename}", build([arr_k], ["c"], {**MDV, **PV0, b"vgi_rpc.method": b"k"}, nullable=True), family="nested")
        except Exception:  # noqa: BLE001
            pass

    # (b) random descriptors: metadata keys x values, 0..4 columns, rows 0..3, server and mode
    n_random = 140 if ctx.tier == "quick" else 1500
    for i in range(n_random):
        md: dict[bytes, bytes] = {}
        if rng.random() < 0.85:
            md[b"vgi_rpc.method"] = rng.choice([b"f", b"f", b"f", b"g", b"zzz", b"__describe__", b"__transport_options__", b"\xff", b""])
        if rng.random() < 0.9:
            md[b"vgi_rpc.request_version"] = rng.choice([b"1", b"1", b"1", b"1", b"2", b""])
        for _ in range(rng.choice([0, 1, 1, 2, 3])):
            md[rng.choice(KEYS[2:])] = rng.choice(VALS)
        rows = rng.choice([1, 1, 1, 0, 0, 2, 3])
        ncols = rng.choice([1, 1, 1, 0, 2, 3, 4])
        arrays, names = [], []
        for j in range(ncols):
            tname, mk = COLS[0] if rng.random() < 0.6 else rng.choice(COLS)
            try:
                arrays.append(mk(rows))
            except Exception:  # noqa: BLE001
                arrays.append(int_col(rows))
            names.append("a" if j == 0 and rng.random() < 0.8 else rng.choice(["a", "b", "ctx", "self", ""]))
        srv = rng.choice(["plain", "plain", "versioned", "ext"])
        if srv == "versioned" and rng.random() < 0.6:
            md.setdefault(b"vgi_rpc.protocol_version", b"1.2.3")
        mode = rng.choice(["loop", "loop", "direct", "cached", "static"])
        try:
            data = build(arrays, names, md or None, nullable=rng.random() < 0.5)
        except Exception:  # noqa: BLE001
            continue
        add(f"random {i}", data, srv=srv, loop=mode != "direct", static=mode == "static", cached=mode == "cached", is_g=md.get(b"vgi_rpc.method") == b"g", family="random")

    # (c) byte strings that are not (necessarily) valid Arrow IPC: truncations and corruptions of a good request
    base = build([int_col(1)], ["a"], {**MDV, b"traceparent": b"00-ab"})
    cuts = sorted(set([1, 4, 7, 8, 9, 16, len(base) // 3, len(base) // 2, len(base) - 9, len(base) - 8, len(base) - 4, len(base) - 1] + [rng.randrange(1, len(base)) for _ in range(8 if ctx.tier == "quick" else 80)]))
    for k in cuts:
        add(f"cut at {k}, next request follows", base[:k], family="bytes")
        add(f"truncated at {k}, then end of input", base[:k], family="bytes", with_probe=False)
    add("garbage", b"garbagegarbagegarbage", family="bytes")
    add("schema only (zero batches)", build([int_col(1)], ["a"], MDV)[: 0] + _schema_only(f_schema), family="bytes")
    for i in range(60 if ctx.tier == "quick" else 600):
        b = bytearray(base)
        for _ in range(rng.choice([1, 1, 2, 4])):
            b[rng.randrange(len(b))] = rng.randrange(256)
        add(f"corrupted {i}", bytes(b), family="bytes", loop=rng.random() < 0.8)

    # ---- run everything ---------------------------------------------------------------------------------------------------
    ctx.rule = ("cases = request bytes (built from a descriptor: metadata map over the framework keys + arbitrary keys with arbitrary "
                "byte values, 0..4 columns of 18 type/value classes, rows 0..3; or a truncated / corrupted byte string) x server "
                "{plain, versioned, external-config} x mode {serve loop, direct serve_one, ShmPipeTransport} x what happened earlier on the "
                "same connection {nothing, a successful call, a failed call, a call that advertised a real shm segment, combinations}; the metadata "
                "family is the grid (every metadata key the server reads) x (non-UTF-8, empty, huge, negative, non-numeric, NUL, ...) x primings; distinct by (bytes, server, mode); non-trivial = the request is not the plain good call")
    PV = {b"vgi_rpc.protocol_version": b"1.2.0"}
    PRIME = {
        "ok": build([int_col(1)], ["a"], {**MDV, **PV}),
        "fail": build([int_col(1)], ["a"], {**MDV, **PV, b"vgi_rpc.method": b"no_such_method"}),
        "seg": build([int_col(1)], ["a"], {**MDV, **PV, **seg_md(seg)}),
    }
    model_cases: list[tuple[str, str]] = []
    meta: list[dict[str, Any]] = []
    observed_classes: dict[str, int] = {}
    try:
        for cs in cases:
            srv = servers[cs["srv"]]
            restore()
            obs = drive(srv, cs["full"], loop=cs["loop"], static=cs["static"], prelude=(b"".join(PRIME[k] for k in cs["primed"]), len(cs["primed"])), with_probe=cs["with_probe"])
            restore()
            have = seg if (cs["static"] or (cs["cached"] and cs["loop"])) else None
            d = describe(srv, cs["srv"], cs["full"], have)
            restore()
            ctx.count("impl_runs")
            ctx.tally("family", cs["family"])
            ctx.tally("server", cs["srv"])
            ctx.tally("mode", "static" if cs["static"] else "cached" if cs["cached"] else "loop" if cs["loop"] else "direct")
            ctx.tally("primed", "+".join(cs["primed"]) or "fresh connection")
            ctx.tally("outcome", {0: "response", 1: "error stream", 2: "silent", 3: "ended", 8: "hang", 9: "weird"}[obs[0]])
            ctx.case([cs["full"].hex(), cs["srv"], cs["loop"], cs["static"], list(cs["primed"])], nontrivial=cs["label"] != "good f")
            replay = {"label": cs["label"], "request_hex": cs["data"].hex(), "followed_by_probe_call": cs["with_probe"], "server": cs["srv"], "mode": {"loop": cs["loop"], "static_shm": cs["static"], "cached_segment": cs["cached"]}, "earlier_on_this_connection": [{"kind": k, "request_hex": PRIME[k].hex()} for k in cs["primed"]],
                      "observed": {"kind": obs[0], "written": ALL_EXC[obs[1] - 1] if 0 < obs[1] <= len(ALL_EXC) else obs[1], "escaped": ALL_EXC[obs[2] - 1] if obs[2] else None, "note": obs[3]}}
            if d is None:
                continue
            if d["pre"] == (0, 0, 0) and d["end"] != len(cs["data"]):
                # pyarrow accepted the stream but did not stop at the end of the sender's request: a message LENGTH
                # field was corrupted, the reader ran into (or stopped short of) the next request.  The bytes the sender
                # delimited are not a valid Arrow IPC stream and the connection is desynchronised from here on, so this is
                # the statement's second sentence (the connection may end, the peer must not be left waiting), and the
                # one-request model, which places the next request at the sender's boundary, does not apply.
                ctx.count("framing_shifted_by_corruption")
                ctx.tally("framing", "length field corrupted: reader stopped at %+d" % (d["end"] - len(cs["data"])))
                if obs[0] in (2, 8):
                    ctx.violation("invalid-ipc-left-unanswered-loop-running", "a stream with a corrupted message length: serve_one returned without a reply / hung", replay)
                continue
            well_framed = d["pre"] == (0, 0, 0)
            # ---- the property's own predicate on what the real server did (independent of the model) ----
            if obs[0] == 8:
                ctx.violation("serve-hangs", "the server did not come back within 20 s", replay)
            elif well_framed and obs[0] not in (0, 1):
                site = _site_guess(d, cs)
                ctx.violation(f"well-framed-request-ends-connection:{site}", "a well-framed request got no reply / ended the serve loop", replay)
                observed_classes[site] = observed_classes.get(site, 0) + 1
            elif not well_framed:
                if obs[0] in (2, 9):
                    ctx.violation("invalid-ipc-left-unanswered-loop-running", "bytes that are not valid Arrow IPC: serve_one returned without a reply", replay)
                pre_exc = next(c for c in d["pre"] if c)
                if obs[0] == 3 and real[ALL_EXC[pre_exc - 1]] is pa.ArrowInvalid and obs[1] == 0:
                    ctx.violation("arrowinvalid-ends-without-error-stream", "ArrowInvalid while reading the request ended the loop without an error stream", replay)
                if obs[0] == 3 and obs[1] == 0:
                    ctx.count("invalid_ipc_ended_without_error_stream")
            meta.append({"case": cs, "obs": obs, "replay": replay})
            cached_name = seg.name.encode() if (cs["cached"] and cs["loop"]) else None
            # in direct mode the prelude's segment was attached and detached per call: nothing is cached
            cfg = f"({cbool(cs['srv'] == 'ext')}, {cbool(cs['static'])}, {cbool(cs['srv'] == 'versioned')}, {cbool(cs['loop'])}, {clist(cstr(m) for m in srv._methods)})"
            res = lambda r: f"({cN(r[0])}, ({clist(cN(x) for x in r[1][0])}, {cN(r[1][1])}))"  # noqa: E731
            rq = (f"(({cN(d['pre'][0])}, {cN(d['pre'][1])}, {cN(d['pre'][2])}), {clist('(' + cbytes(k) + ', ' + cbytes(v) + ')' for k, v in d['md'])}, "
                  f"({clist(cN(x) for x in d['cols'])}, {cN(d['rows'])}), {res(d['ext'])}, ({cbool(d['shm_meta_ok'])}, {cN(d['attach'])}), {res(d['shmres'])}, "
                  f"({cN(d['release'])}, {cN(d['ver'])}, {cN(d['val'])}))")
            inp = f"({cfg}, {copt(None if cached_name is None else cbytes(cached_name))}, {rq})"
            model_cases.append((inp, f"({cN(obs[0])}, {cN(obs[1])}, {cN(obs[2])})"))
    finally:
        cleanup()
    for c in cases[:3] + [c for c in cases if c["label"] in ("segment does not exist", "traceparent not utf8")]:
        ctx.sample({"label": c["label"], "server": c["srv"], "bytes": len(c["data"])})

    ok, bad, clog = ctx.coq_mismatches(HEADER, "(fun x => out3 (run_case gen_stacks KK x))", "eq3", model_cases, "case_in", "N * N * N")
    ctx.count("model_cases", len(model_cases))
    ctx.obligation("correspondence:M_ReadReq.run_case(gen_stacks)", "correspondence", ok and not bad, clog if not ok else f"{len(bad)} of {len(model_cases)} cases disagree")
    for i in bad[:5]:
        shown = ctx.coq_show(HEADER, f"out3 (run_case gen_stacks KK {model_cases[i][0]})")
        ctx.violation("model-impl-disagree", "the table-driven model and the implementation disagree", {**meta[i]["replay"], "model": shown[-200:], "model_input": model_cases[i][0][-900:]})
    ctx.assumptions += [
        "site outcomes (pyarrow reading the bytes, as_py, ShmSegment.attach, resolve_shm_batch, shm.free, resolve_external_location, "
        "_check_protocol_version, parameter validation) are taken from calling that function directly on the same data",
        "KeyValueMetadata.get with duplicate keys is outside the model (generators build metadata from dicts)",
        "external pointer resolution that actually fetches is not exercised (no network): only URL decoding / validation / unreachable host",
        "the in-memory pipe transport stands for pipe / unix / tcp / subprocess (serve_one is shared); harness/stubs/tenacity.py stands in for tenacity",
        "'ends without leaving the peer waiting' is read as: the serve loop terminated (callers close the transport), and ArrowInvalid is answered first",
    ]


def _validation_order(repo: Any) -> list[str]:
    """The order in which serve_one runs its three request-validation steps (read from the tree under test)."""
    import ast

    names = ("_deserialize_params", "_validate_call_signature", "_validate_params")
    tree = ast.parse((repo / "vgi_rpc" / "rpc" / "_server.py").read_text())
    for node in ast.walk(tree):
        if isinstance(node, ast.Try):
            got = [b.value.func.id for b in node.body if isinstance(b, ast.Expr) and isinstance(b.value, ast.Call) and isinstance(b.value.func, ast.Name) and b.value.func.id in names]
            if sorted(got) == sorted(names):
                return got
    return list(names)


def _schema_only(schema: pa.Schema) -> bytes:
    sink = io.BytesIO()
    with ipc.new_stream(sink, schema):
        pass
    return sink.getvalue()


def _site_guess(d: dict[str, Any], cs: dict[str, Any]) -> str:
    """A specific, stable key for the class of a violation: which caller-controlled field made the server raise."""
    md = dict(d["md"])
    for k in (b"traceparent", b"tracestate"):
        v = md.get(k)
        if v is not None:
            try:
                v.decode()
            except UnicodeDecodeError:
                return "trace-header-not-utf8"
    if d["ext"][0]:
        return "external-pointer-unresolvable"
    pointer = d["rows"] == 0 and b"vgi_rpc.shm_offset" in md
    if pointer and d["attach"] and not (cs["static"] or cs["cached"]):
        return "shm-segment-cannot-be-attached"
    if d["shmres"][0] or d["release"]:
        return "shm-pointer-unresolvable"
    if any(d["cols"]):
        return "column-value-as_py-raises"
    if d["attach"]:
        return "shm-segment-cannot-be-attached"
    if not d["shm_meta_ok"]:
        return "shm-segment-metadata-malformed"
    if d["val"]:
        return "parameter-value-conversion-raises-" + ALL_EXC[d["val"] - 1]
    return "other"
