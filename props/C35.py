"""C35 Sensitive claim values never reach access logs.

proof         : coq/prop/P_C35.v over model/M_Redact.v (regex semantics from lib/Regex.v): for every JSON-like claim
                tree, every object entry with a sensitive key at ANY depth of the logged claims holds the placeholder;
                every node of the logged tree is the redaction of the input node at the same path or the placeholder
                (nothing below a sensitive key survives anywhere); keys are preserved at every depth; values reached
                through non-sensitive keys and free of sensitive keys are unchanged; a raising redactor (any installed
                redactor) never gets claims into a record; exact description of the keys the regex finds.
regenerated   : _DEFAULT_CLAIM_REDACT_RE, REDACTED, the shape of redact_claims/_redact_nested, the except clause of
                apply_claim_redaction, the guard structure of the claims branch of _emit_access_log
                (translate/t_c35_redact.py -> gen/G_Redact.v); tie/T_Redact.v proves them equal to the modelled terms
                and restates the main theorem over the regenerated terms.
correspondence: the real _emit_access_log (direct call, serialized by VgiJsonFormatter and VgiAccessLogFormatter, and
                through the real Falcon app with an authenticate callback) against M_Redact.run_case on generated claim
                trees (depth <= 4) x redactor kinds {default, no_redaction, raises Exception, raises BaseException,
                returns {}, returns a fixed dict}.

Readings adopted
  * "contains the value of a claim": structurally -- in the record's ``claims`` object every entry (any depth) whose key
    is sensitive holds "[redacted]" -- and literally: unique marker strings planted below sensitive keys do not occur
    anywhere in the serialized record line.
  * sensitive key = a listed word as a substring in any ASCII case; the bare word ``name`` only as the whole key (the
    source anchors it: ``^name$``; "username"/"hostname" are not name fields).  Keys that only the regex's Unicode case
    folding or the ``$``-before-newline rule make sensitive (K = U+212A, "name\\n") and near misses ("username",
    "names") are generated too, but only compared with the model, never judged by the oracle.
  * "a failing custom redactor drops claims entirely": no ``claims`` field in the record (for a BaseException that is
    not an Exception the call leaves _emit_access_log and no record is written at all).
  * JSON numbers are generated as integers (floats pass through the same branch as any other scalar).
"""
from __future__ import annotations

import json
import logging
from typing import Any, Protocol

META = {
    "id": "C35",
    "technique": "Coq proof (nested JSON-like trees, regex derivative semantics) + regenerated regex/constants/shapes tie + differential correspondence",
    "level_text": "Coq theorems over all JSON-like claim trees of any depth and width and all keys: in the modelled access-log "
    "branch with the default redactor every sensitive-key entry at any depth holds the placeholder, every logged node is "
    "the redaction of the same-path input node or the placeholder, keys are preserved, clean values unchanged; for ANY "
    "redactor a raise never yields a record with claims. The regex, the placeholder, the recursion shape of redact_claims, "
    "the except class and the emit guard are regenerated from source on every run and proved equal to the model; the model "
    "is tied to the real _emit_access_log + formatter (+ HTTP path) by running both on the same generated cases.",
    "level_note": "Trusted: Coq kernel (vm_compute), t_regex / t_c35_redact translators (AST shape matchers), sre parser and the "
    "runtime's IGNORECASE table, harness. Modelled not verified: dict iteration order = insertion order, isinstance "
    "dispatch on Mapping / list / tuple, json.dumps round trip; RecursionError on very deep trees (an Exception: claims "
    "dropped) is outside the model.",
    "design_ref": "§5 C35",
}

SUB_WORDS = [
    "password", "token", "secret", "key", "authorization", "email", "phone", "address", "birthdate", "gender",
    "given_name", "family_name", "middle_name", "nickname", "preferred_username", "picture", "profile", "website",
]
NEUTRAL = ["sub", "iss", "aud", "scope", "roles", "exp", "iat", "ctx", "groups", "tenant", "org", "amr", "azp", "jti", "x", "data", "0"]
AFFIX = ["", "", "x_", "_id", "user_", "my", "2", "-", ".", " ", "Z", "é", "_", "\n"]
# judged by nobody, compared with the model only
EDGE = ["username", "names", "name\n", "name\n\n", " name", "nam", "\u212aey", "\u017fecret", "ema\u0131l", "ema\u0130l", "to\u212aEN", "", "ke", "pass word", "Name_", "hostname"]
PLACEHOLDER = "[redacted]"


class C35Base(BaseException):
    """A BaseException that is not an Exception (what a redactor calling sys.exit / hitting KeyboardInterrupt raises)."""


class C35Svc(Protocol):
    def f(self, a: int) -> int: ...


class _Impl:
    def f(self, a: int) -> int:
        return a + 1


class _Gen:
    """Claim trees; remembers for every key whether the statement calls it sensitive (True / False / None = not judged)."""

    def __init__(self, rng: Any):
        self.rng = rng
        self.flag: dict[str, bool | None] = {k: None for k in EDGE}
        for k in NEUTRAL:
            self.flag[k] = False
        self.n = 0

    def case_mix(self, w: str) -> str:
        m = self.rng.randrange(4)
        if m == 0:
            return w
        if m == 1:
            return w.upper()
        if m == 2:
            return w.capitalize()
        return "".join(c.upper() if self.rng.random() < 0.5 else c for c in w)

    def key(self, want: str) -> str:
        r = self.rng
        if want == "sens":
            if r.random() < 0.12:
                k = self.case_mix("name")
            else:
                k = r.choice(AFFIX) + self.case_mix(r.choice(SUB_WORDS)) + r.choice(AFFIX)
            self.flag[k] = True
            return k
        if want == "edge":
            return r.choice(EDGE)
        k = r.choice(NEUTRAL)
        if r.random() < 0.3:
            k = k + str(r.randrange(3))
            self.flag[k] = False
        return k

    def marker(self, secret: bool, judged: bool) -> str:
        self.n += 1
        if not judged:
            return f"edg{self.n}q"
        return f"SECRET{self.n}q" if secret else f"pub{self.n}q"

    def scalar(self, secret: bool, judged: bool) -> Any:
        r = self.rng.randrange(10)
        if r == 0:
            return None
        if r == 1:
            return self.rng.random() < 0.5
        if r == 2:
            return self.rng.choice([0, 1, -1, 7, 2**40, -(2**70), 1700000000])
        if r == 3:
            return self.marker(secret, judged) + self.rng.choice(["", " é", " \U0001f600", '"', "\\", "[redacted]"])
        return self.marker(secret, judged)

    def value(self, depth: int, secret: bool, judged: bool) -> Any:
        r = self.rng.random()
        if depth <= 0 or r < 0.3:
            return self.scalar(secret, judged)
        if r < 0.6:
            return [self.value(depth - 1, secret, judged) for _ in range(self.rng.randrange(0, 4))]
        return self.obj(depth - 1, secret, judged)

    def obj(self, depth: int, secret: bool, judged: bool, min_keys: int = 0) -> dict[str, Any]:
        out: dict[str, Any] = {}
        for _ in range(self.rng.randrange(min_keys, 5)):
            w = self.rng.random()
            want = "sens" if w < 0.35 else ("edge" if w < 0.45 else "neutral")
            k = self.key(want)
            if k in out:
                continue
            f = self.flag[k]
            out[k] = self.value(depth, secret or f is True, judged and f is not None)
        return out


def to_coq(v: Any) -> str:
    from vlib.coqterm import cstr

    if v is None:
        return "JNull"
    if isinstance(v, bool):
        return "(JBool true)" if v else "(JBool false)"
    if isinstance(v, int):
        return f"(JNum ({v})%Z)"
    if isinstance(v, str):
        return f"(JStr {cstr(v)})"
    if isinstance(v, list):
        return "(JList [" + "; ".join(to_coq(x) for x in v) + "])"
    if isinstance(v, dict):
        return "(JObj " + entries_coq(v) + ")"
    raise TypeError(type(v))


def entries_coq(d: dict[str, Any]) -> str:
    from vlib.coqterm import cstr

    return "[" + "; ".join(f"({cstr(k)}, {to_coq(x)})" for k, x in d.items()) + "]"


def depth_of(v: Any) -> int:
    if isinstance(v, dict):
        return 1 + max([depth_of(x) for x in v.values()] or [0])
    if isinstance(v, list):
        return 1 + max([depth_of(x) for x in v] or [0])
    return 0


def translate(ctx: Any) -> None:
    """Regenerated leg: logging_utils.py / _server.py -> coq/gen/G_Redact.v"""
    from translate import t_c35_redact

    ctx.gen("G_Redact", lambda: t_c35_redact.generate(ctx.repo))


HEADER = "From Coq Require Import List NArith ZArith Bool.\nFrom VGI Require Import M_Redact.\nImport ListNotations.\nOpen Scope N_scope."


def run(ctx: Any) -> None:
    from vlib.coqterm import cN

    translate(ctx)
    # two builds: the theorems about the model stay checked when the tie to the source breaks
    ctx.prove(
        ["prop/P_C35.vo", "refuted/R_C35.vo"],
        {
            "P_C35": [
                "C35_listed_words_sensitive_as_substrings", "C35_name_key_sensitive", "C35_sensitive_iff",
                "C35_no_sensitive_value_at_any_depth", "C35_output_provenance", "C35_keys_preserved_top",
                "C35_keys_preserved_at_any_depth", "C35_non_sensitive_unchanged", "C35_clean_claims_verbatim",
                "C35_failing_redactor_drops", "C35_default_emits_redacted",
            ],
        },
    )
    ctx.prove(
        ["tie/T_Redact.vo"],
        {
            "T_Redact": [
                "redact_re_tie", "REDACTED_tie", "redact_claims_tie", "apply_handler_tie", "emit_claims_tie",
                "C35_source_no_sensitive_value_at_any_depth", "C35_source_failing_redactor_drops",
            ],
        },
    )

    ctx.log("proofs checked")
    # ---- the real implementation ------------------------------------------------
    import falcon.testing
    import vgi_rpc.logging_utils as lu
    from harness.rawrpc import request_bytes
    from vgi_rpc.http import make_wsgi_app
    from vgi_rpc.rpc import AuthContext, RpcServer
    from vgi_rpc.rpc._server import _emit_access_log

    lines: list[tuple[str, str]] = []
    fmt_plain, fmt_cap = lu.VgiJsonFormatter(), lu.VgiAccessLogFormatter()

    class Capture(logging.Handler):
        def emit(self, record: logging.LogRecord) -> None:
            lines.append((fmt_plain.format(record), fmt_cap.format(record)))

    access = logging.getLogger("vgi_rpc.access")
    lib = logging.getLogger("vgi_rpc")
    cap, quiet = Capture(), logging.NullHandler()
    saved = (access.level, access.propagate, lib.propagate, list(access.handlers))
    for h in saved[3]:
        access.removeHandler(h)
    access.addHandler(cap)
    access.setLevel(logging.INFO)
    access.propagate = False
    lib.addHandler(quiet)
    lib.propagate = False

    fixed = {"k": 1}

    def raise_exc(_c: Any) -> dict[str, object]:
        raise RuntimeError("redactor broke")

    def raise_base(_c: Any) -> dict[str, object]:
        raise C35Base("redactor left")

    redactors = {
        0: lu.redact_claims, 1: lu.no_redaction, 2: raise_exc, 3: raise_base,
        4: lambda _c: {}, 5: lambda _c: dict(fixed),
    }

    def observe_direct(kind: int, claims: dict[str, Any]) -> tuple[int, Any, str]:
        """(code, claims object of the record, serialized line): 0 no record, 1 record without claims, 2 with."""
        del lines[:]
        lu.set_claim_redactor(redactors[kind])
        try:
            try:
                _emit_access_log("P", "m", "unary", "sid", AuthContext("jwt", True, "prn", claims), {}, 1.0, "ok")
            except C35Base:
                pass
        finally:
            lu.set_claim_redactor(lu.redact_claims)
        return classify()

    def classify() -> tuple[int, Any, str]:
        if not lines:
            return 0, None, ""
        if len(lines) != 1:
            return -1, None, repr(lines)[:300]
        plain, capped = lines[0]
        rec, rec2 = json.loads(plain), json.loads(capped)
        if rec.get("claims") != rec2.get("claims") or ("claims" in rec) != ("claims" in rec2):
            return -2, rec.get("claims"), plain
        if "claims" not in rec:
            return 1, None, plain
        return 2, rec["claims"], plain

    srv = RpcServer(C35Svc, _Impl())
    current: dict[str, Any] = {}
    app = make_wsgi_app(
        srv, prefix="", token_key=b"k" * 32, enable_landing_page=False, enable_not_found_page=False,
        enable_describe_page=False, authenticate=lambda _req: AuthContext("jwt", True, "prn", current["claims"]),
    )
    client = falcon.testing.TestClient(app)
    body = request_bytes("f", srv._methods["f"].params_schema, {"a": 1})

    def observe_http(claims: dict[str, Any]) -> tuple[int, Any, str]:
        del lines[:]
        current["claims"] = claims
        r = client.simulate_post("/f", body=body, headers={"Content-Type": "application/vnd.apache.arrow.stream"})
        if r.status_code != 200:
            return -3, None, f"HTTP {r.status_code}"
        return classify()

    # ---- cases ----------------------------------------------------------------------
    gen = _Gen(ctx.rng)
    for k in ("email", "token", "ctx", "roles"):
        gen.flag[k] = k in ("email", "token")
    trees: list[dict[str, Any]] = [
        {"ctx": {"email": "SECRET-a@b"}},
        {"roles": [{"token": "SECRET-t"}]},
        {},
        {"sub": "u1", "email": "SECRET-e"},
        {"ctx": {"roles": [[{"x": {"token": "SECRET-deep"}}]]}},
        {"email": {"sub": "SECRET-below", "ctx": ["SECRET-l"]}},
    ]
    n_rand = 150 if ctx.tier == "quick" else 2500
    for i in range(n_rand):
        depth = 1 + i % 4
        trees.append(gen.obj(depth - 1, False, True, min_keys=1 if i % 9 else 0))
    ctx.rule = (
        "cases = claim tree x redactor kind x path {direct _emit_access_log, HTTP app}; trees: fixed witnesses + seeded "
        "random JSON-like objects of depth 1..4, keys = listed word (random ASCII case, optional affixes) | bare name | "
        "neutral | edge (compared with the model only); distinct by (kind, tree); non-trivial = the tree has a sensitive "
        "key below the top level or the redactor is not the default"
    )

    def has_nested_sensitive(v: Any, depth: int = 0) -> bool:
        if isinstance(v, dict):
            return any((depth > 0 and gen.flag.get(k) is True) or has_nested_sensitive(x, depth + 1) for k, x in v.items())
        if isinstance(v, list):
            return any(has_nested_sensitive(x, depth + 1) for x in v)
        return False

    def oracle(claims: Any, out: Any, line: str, via: str) -> None:
        """The property's own predicate on what the real code logged (default redactor)."""
        repl = {"claims": claims, "record_claims": out, "via": via}

        def leak_key(depth: int) -> str:
            return "top-level-claim-value-logged" if depth == 0 else "nested-claim-value-logged"

        def secrets(v: Any, acc: list[str]) -> None:
            if isinstance(v, str):
                if v.startswith("SECRET"):
                    acc.append(v)
            elif isinstance(v, list):
                for x in v:
                    secrets(x, acc)
            elif isinstance(v, dict):
                for x in v.values():
                    secrets(x, acc)

        def walk(i: Any, o: Any, depth: int, path: list[Any]) -> None:
            if isinstance(i, dict):
                if not isinstance(o, dict) or list(o) != list(i):
                    ctx.violation("claim-keys-not-preserved", f"object at {path} does not keep its keys", {**repl, "path": path})
                    return
                for k, x in i.items():
                    f = gen.flag.get(k)
                    if f is True:
                        if o[k] != PLACEHOLDER:
                            ctx.violation(leak_key(depth), f"value of sensitive claim {k!r} at depth {depth} (path {path}) is logged", {**repl, "path": path + [k]})
                        acc: list[str] = []
                        secrets(x, acc)
                        for s in acc:
                            if json.dumps(s)[1:-1] in line or s in line:
                                ctx.violation(leak_key(depth), f"text planted below sensitive claim {k!r} (depth {depth}) occurs in the serialized record", {**repl, "path": path + [k], "text": s})
                                break
                    elif f is False:
                        walk(x, o[k], depth + 1, path + [k])
            elif isinstance(i, list):
                if not isinstance(o, list) or len(o) != len(i):
                    ctx.violation("claim-list-shape-changed", f"list at {path} changed shape", {**repl, "path": path})
                    return
                for n, (x, y) in enumerate(zip(i, o)):
                    walk(x, y, depth + 1, path + [n])
            elif i != o or type(i) is not type(o):
                ctx.violation("non-sensitive-claim-value-changed", f"value at {path} changed", {**repl, "path": path})

        walk(claims, out, 0, [])

    observed: list[tuple[int, dict[str, Any], int, Any]] = []
    try:
        for idx, t in enumerate(trees):
            kinds = [0]
            if idx < 6 or idx % 8 == 0:
                kinds = [0, 1, 2, 3, 4, 5]
            for kind in kinds:
                code, out, line = observe_direct(kind, t)
                ctx.count("impl_runs")
                ctx.tally("redactor_kind", kind)
                ctx.tally("depth", depth_of(t))
                nested = has_nested_sensitive(t)
                ctx.tally("nested_sensitive", nested)
                ctx.case([kind, t], nontrivial=nested or kind != 0)
                repl = {"claims": t, "redactor_kind": kind, "record_claims": out, "via": "direct"}
                if code < 0:
                    ctx.violation("access-log-record-shape", f"unexpected record(s): code {code}", {**repl, "detail": line[:300]})
                if kind in (2, 3) and code == 2 and out:
                    ctx.violation("failing-redactor-claims-logged", "the redactor raised and the record still carries claims", repl)
                if kind in (2, 3) and code != 2 and line and any(s in line for s in ("SECRET", "pub")) and t:
                    ctx.violation("failing-redactor-claims-logged", "the redactor raised and claim text is in the record", {**repl, "line": line[:400]})
                if kind == 0 and t:
                    if code != 2:
                        ctx.violation("default-redactor-dropped-claims", f"default redactor: no claims in the record (code {code})", repl)
                    else:
                        oracle(t, out, line, "direct")
                observed.append((kind, t, code, out))
            if idx < 6 or idx % (10 if ctx.tier == "quick" else 25) == 0:
                code, out, line = observe_http(t)
                ctx.count("impl_runs")
                ctx.tally("redactor_kind", "0/http")
                ctx.case(["http", t], nontrivial=has_nested_sensitive(t))
                if code < 0:
                    ctx.violation("access-log-record-shape", f"HTTP path: unexpected record(s): code {code}", {"claims": t, "detail": line[:300]})
                elif t:
                    if code != 2:
                        ctx.violation("default-redactor-dropped-claims", f"HTTP path: no claims in the record (code {code})", {"claims": t})
                    else:
                        oracle(t, out, line, "http")
                observed.append((0, t, code, out))
    finally:
        lu.set_claim_redactor(lu.redact_claims)
        access.removeHandler(cap)
        for h in saved[3]:
            access.addHandler(h)
        access.setLevel(saved[0])
        access.propagate = saved[1]
        lib.removeHandler(quiet)
        lib.propagate = saved[2]
    ctx.sample({"claims": trees[0], "redactor": "default", "expected_record_claims": {"ctx": {"email": PLACEHOLDER}}})
    ctx.sample({"claims": trees[1], "redactor": "raises RuntimeError", "expected": "record without claims"})
    for t in trees[6:9]:
        ctx.sample({"claims": t})

    ctx.log(f"implementation observed on {len(observed)} cases")
    # ---- model side -------------------------------------------------------------------
    cases = []
    for kind, t, code, out in observed:
        o = f"({cN(code)}, {to_coq(out) if code == 2 else 'JNull'})" if code >= 0 else "(99, JNull)"
        cases.append((f"({cN(kind)}, {entries_coq(t)})", o))
    ok, bad, clog = ctx.coq_mismatches(HEADER, "run_case", "out_eqb", cases, "N * claims", "N * jv", shard=40)
    ctx.count("model_cases", len(cases))
    ctx.obligation("correspondence:M_Redact.run_case", "correspondence", ok and not bad, clog if not ok else f"{len(bad)} of {len(cases)} cases disagree")
    for i in bad[:3]:
        kind, t, code, out = observed[i]
        shown = ctx.coq_show(HEADER, f"run_case {cases[i][0]}")
        ctx.violation(
            "model-impl-disagree" if not has_nested_sensitive(t) else "nested-claim-value-logged",
            "implementation and model log different claims",
            {"claims": t, "redactor_kind": kind, "impl": [code, out], "model": shown[-600:]},
        )
    ctx.assumptions += [
        "claims are JSON-like (dict with str keys / list / str / int / bool / None); tuples and other Mapping types follow the same branches",
        "dict iteration and json.dumps preserve insertion order; the record's claims are read back with json.loads",
        "RecursionError on trees deeper than the interpreter's limit is an Exception: claims are dropped (outside the model)",
        "the runtime's IGNORECASE equivalents of each pattern letter are those t_regex computes from this interpreter's re module",
    ]
