"""C06 Methods run only with contract-conforming arguments.

proof         : coq/prop/P_C06.v over coq/model/M_Validate.v (lemmas in proof/L_Validate.v): for ALL declared
                signatures, request schemas, row values and method behaviours
regenerated   : translate/t_c06_src.py -> gen/G_Validate.v: order of the three validation steps at the three dispatch
                sites, the checks of _validate_call_signature, the branches of _deserialize_value, the HTTP class
                tuples / statuses, _set_http_status; tie/T_Validate.v proves gen_cfg = std_cfg and restates the
                theorems over the regenerated configuration
shm-routed    : socket requests whose batch is parked in a shared-memory segment behind a 0-row pointer batch
                (ShmPipeTransport): pointer with the declared schema in front of a perturbed resolved batch, and the
                reverse; conformance is judged on the resolved batch (the one the arguments are decoded from)
correspondence: generated services (unary + producer-stream methods, 0..5 parameters over 11 parameter kinds,
                optional / defaulted) x perturbed requests, run against the real RpcServer over an in-memory pipe
                (serve_one) and the real Falcon app (POST /m and /m/init), with an invocation log; the outcome
                (invoked, status, marker, error class, which check fired) is compared with the Coq model
oracle        : the statement's own predicate evaluated on every case, independently of the model

Readings adopted where the statement leaves room
  * "match ... exactly" is pyarrow's own notion: field count, order, names, `DataType ==`, top-level nullability;
    schema / field metadata are not part of the contract (the code says so and the statement does not list them).
  * The HTTP answer of a request whose *URL* names no method is 404 (unknown method), not 400; the statement's
    "method/URL mismatch" is a URL naming one method with request metadata naming another, which must be 400.
  * A request whose columns conform but that carries a value which cannot be converted to the declared Python
    type (unknown enum member, undecodable dataclass bytes) must not reach the method; the statement fixes its
    status only for the enum member (a request error -> 400).  Other conversion failures are checked for
    non-invocation only.
  * "never reported as a request error": HTTP -- never 400, and the answer is 200 + X-VGI-RPC-Error carrying the
    method's own exception class and text; socket -- the error batch carries the method's own class and text.
  * A method with no parameters accepts any row count (there are no columns to hold a row).
"""
from __future__ import annotations

import hashlib
import io
import re
from typing import Any

META = {
    "id": "C06",
    "technique": "Coq proof over an executable model of request validation and dispatch + regenerated configuration tie + differential correspondence on both dispatch paths",
    "level_text": "Coq theorems for all declared signatures, all request schemas / rows / metadata and all method behaviours: the "
    "method is invoked iff the request's columns equal the declared schema (count, order, names, types, nullability), every "
    "non-optional parameter is non-null and every value converts; every other request is answered before invocation (socket: "
    "error stream; HTTP: 400 whenever the columns / nullness / framing do not conform); a method's own exception is 200 + "
    "marker with its own class (socket: error batch with its class), and a 400 is only ever produced before invocation. The "
    "configuration the theorems are about is regenerated from the source on every run; the hand-written step functions are "
    "tied by running the real server on both paths against the model.",
    "level_note": "Trusted: Coq kernel (vm_compute), translate/t_c06_src.py, the harness. Primitive: pyarrow DataType equality "
    "(types are tags), outcome of each value conversion (measured on the real value). Not modelled: IPC framing errors (C05), "
    "external-location / shm request batches, the protocol-version gate (C09), ctx injection, response caps.",
    "design_ref": "§5 C06",
}

ARROW_CT = {"Content-Type": "application/vnd.apache.arrow.stream"}


def translate(ctx: Any) -> None:
    from translate import t_c06_src

    ctx.gen("G_Validate", lambda: t_c06_src.coq_module(ctx.repo))


# ---------------------------------------------------------------------------------------------------------------
# request descriptors
# ---------------------------------------------------------------------------------------------------------------
def _copy(d: dict[str, Any]) -> dict[str, Any]:
    n = dict(d)
    n["cols"] = [list(c) for c in d["cols"]]
    return n


def _request_bytes(d: dict[str, Any]) -> bytes:
    import pyarrow as pa
    from pyarrow import ipc

    from vgi_rpc.metadata import REQUEST_VERSION, REQUEST_VERSION_KEY, RPC_METHOD_KEY

    fields = [pa.field(n, t, nullable=nl) for n, t, nl, _ in d["cols"]]
    schema = pa.schema(fields)
    arrays = [pa.array([v] * d["rows"], type=t) for _, t, _, v in d["cols"]]
    if arrays:
        batch = pa.RecordBatch.from_arrays(arrays, schema=schema)
    else:
        batch = pa.RecordBatch.from_struct_array(pa.array([{}] * d["rows"], type=pa.struct([])))
    md: dict[bytes, bytes] = {}
    mk = d["method_key"]
    if mk[0] == "name":
        md[RPC_METHOD_KEY] = mk[1].encode()
    elif mk[0] == "badutf8":
        md[RPC_METHOD_KEY] = b"\xff\xfe"
    if d["version"] == "ok":
        md[REQUEST_VERSION_KEY] = REQUEST_VERSION
    elif d["version"] == "wrong":
        md[REQUEST_VERSION_KEY] = b"0"
    sink = io.BytesIO()
    with ipc.new_stream(sink, schema) as w:
        w.write_batch(batch, custom_metadata=pa.KeyValueMetadata(md) if md else None)
    return sink.getvalue()


def _shm_request_bytes(d: dict[str, Any], shm: Any) -> tuple[bytes, int]:
    """A request routed through the shared-memory side channel: the batch of ``d["cols"]`` is parked in ``shm`` as a
    self-describing IPC stream, the inline batch is a 0-row pointer with schema ``d["inline"]``.  -> (bytes, offset)"""
    import pyarrow as pa
    from pyarrow import ipc

    from vgi_rpc.metadata import REQUEST_VERSION, REQUEST_VERSION_KEY, RPC_METHOD_KEY, merge_metadata
    from vgi_rpc.shm import make_shm_pointer_batch

    schema = pa.schema([pa.field(n, t, nullable=nl) for n, t, nl, _ in d["cols"]])
    arrays = [pa.array([v] * d["rows"], type=t) for _, t, _, v in d["cols"]]
    if arrays:
        inner = pa.RecordBatch.from_arrays(arrays, schema=schema)
    else:
        inner = pa.RecordBatch.from_struct_array(pa.array([{}] * d["rows"], type=pa.struct([])))
    placed = shm.allocate_and_write(inner)
    if placed is None:
        raise ValueError("request batch does not fit the shared-memory segment")
    offset, length = placed
    ptr_batch, ptr_cm = make_shm_pointer_batch(pa.schema([pa.field(n, t, nullable=nl) for n, t, nl in d["inline"]]), offset, length)
    md: dict[bytes, bytes] = {}
    mk = d["method_key"]
    if mk[0] == "name":
        md[RPC_METHOD_KEY] = mk[1].encode()
    elif mk[0] == "badutf8":
        md[RPC_METHOD_KEY] = b"\xff\xfe"
    if d["version"] == "ok":
        md[REQUEST_VERSION_KEY] = REQUEST_VERSION
    elif d["version"] == "wrong":
        md[REQUEST_VERSION_KEY] = b"0"
    sink = io.BytesIO()
    with ipc.new_stream(sink, ptr_batch.schema) as w:
        w.write_batch(ptr_batch, custom_metadata=merge_metadata(pa.KeyValueMetadata(md), ptr_cm))
    return sink.getvalue(), offset


def _show(d: dict[str, Any]) -> dict[str, Any]:
    return {
        "method_key": list(d["method_key"]), "version": d["version"], "rows": d["rows"], "url": d["url"], "endpoint": d["endpoint"],
        "shm_pointer_schema": None if d.get("inline") is None else [{"name": n, "type": str(t), "nullable": nl} for n, t, nl in d["inline"]],
        "columns": [{"name": n, "type": str(t), "nullable": nl, "value": repr(v) if len(repr(v)) <= 60 else repr(v)[:40] + "...#" + hashlib.sha1(repr(v).encode()).hexdigest()[:10]} for n, t, nl, v in d["cols"]],
    }


# ---------------------------------------------------------------------------------------------------------------
# perturbations: each is (label, fn) with fn: descriptor -> descriptor | None (None = not applicable)
# ---------------------------------------------------------------------------------------------------------------
def _perturbations(params: list[tuple[str, str, bool, bool]], other_methods: list[tuple[str, bool]], is_stream: bool) -> list[tuple[str, Any]]:
    import pyarrow as pa

    from harness import c06_service as S

    out: list[tuple[str, Any]] = []
    n = len(params)

    def add(label: str, fn: Any) -> None:
        out.append((label, fn))

    def at(i: int, f: Any) -> Any:
        def g(d: dict[str, Any]) -> dict[str, Any] | None:
            if i >= len(d["cols"]):
                return None
            d = _copy(d)
            return f(d, i)
        return g

    def setf(k: int, v: Any) -> Any:
        def f(d: dict[str, Any], i: int) -> dict[str, Any]:
            d["cols"][i][k] = v
            return d
        return f

    for i, (pname, kind, optional, has_default) in enumerate(params):
        add(f"rename[{i}]->fresh", at(i, setf(0, "zz")))
        add(f"rename[{i}]->ctx", at(i, setf(0, "ctx")))
        if n > 1:
            add(f"rename[{i}]->other", at(i, setf(0, params[(i + 1) % n][0])))
        add(f"drop[{i}]{'(defaulted)' if has_default else ''}", at(i, lambda d, i: (d["cols"].pop(i), d)[1]))
        add(f"nullflip[{i}]", at(i, lambda d, i: (d["cols"][i].__setitem__(2, not d["cols"][i][2]), d)[1]))
        add(f"null[{i}]", at(i, setf(3, None)))
        for alt_t, alt_v in S.KINDS[kind][4]:
            def retype(d: dict[str, Any], i: int, alt_t: Any = alt_t, alt_v: Any = alt_v) -> dict[str, Any]:
                d["cols"][i][1] = alt_t
                if d["cols"][i][3] is not None:
                    d["cols"][i][3] = alt_v
                return d
            add(f"retype[{i}]->{alt_t}", at(i, retype))
        if kind == "enum":
            add(f"enum-unknown[{i}]", at(i, setf(3, "BLUE")))
            add(f"enum-lowercase[{i}]", at(i, setf(3, "red")))
        if kind == "dc":
            for bn, blob in S.DC_BAD.items():
                add(f"dc-{bn}[{i}]", at(i, setf(3, blob)))
        for j in range(i + 1, n):
            if j == i + 1 or (i == 0 and j == n - 1):
                def swap(d: dict[str, Any], i: int, j: int = j) -> dict[str, Any] | None:
                    if j >= len(d["cols"]):
                        return None
                    d["cols"][i], d["cols"][j] = d["cols"][j], d["cols"][i]
                    return d
                add(f"swap[{i},{j}]", at(i, swap))
    if n:
        # drop ALL columns / all but the first k: for a method whose parameters all have defaults the name-set checks
        # forgive every omission, so only the field-count comparison stands between such a request and the method
        add("drop-all", lambda d: {**_copy(d), "cols": []} if d["cols"] else None)
        add("drop-all,rows=0", lambda d: {**_copy(d), "cols": [], "rows": 0} if d["cols"] else None)
        for k in range(1, n):
            add(f"keep-first-{k}", lambda d, k=k: {**_copy(d), "cols": [list(c) for c in d["cols"][:k]]} if len(d["cols"]) > k else None)
            add(f"keep-last-{k}", lambda d, k=k: {**_copy(d), "cols": [list(c) for c in d["cols"][-k:]]} if len(d["cols"]) > k else None)
    if n > 2:
        add("rotate", lambda d: {**_copy(d), "cols": [list(c) for c in d["cols"][1:] + d["cols"][:1]]})
    for pos in sorted({0, n // 2, n}):
        def ins(d: dict[str, Any], col: list[Any], pos: int = pos) -> dict[str, Any] | None:
            if pos > len(d["cols"]):
                return None
            d = _copy(d)
            d["cols"].insert(pos, col)
            return d
        add(f"add@{pos}:fresh", lambda d, ins=ins: ins(d, ["extra", pa.int64(), False, 7]))
        add(f"add@{pos}:fresh-null", lambda d, ins=ins: ins(d, ["extra", pa.int64(), True, None]))
        add(f"add@{pos}:ctx", lambda d, ins=ins: ins(d, ["ctx", pa.int64(), False, 7]))
        if n:
            add(f"add@{pos}:duplicate", lambda d, ins=ins: ins(d, list(d["cols"][0])) if d["cols"] else None)
            add(f"add@{pos}:duplicate-null", lambda d, ins=ins: ins(d, [d["cols"][-1][0], d["cols"][-1][1], True, None]) if d["cols"] else None)
    for r in (0, 2, 3):
        add(f"rows={r}", lambda d, r=r: {**_copy(d), "rows": r})
    add("method-key-absent", lambda d: {**_copy(d), "method_key": ("absent",)})
    add("method-key-bad-utf8", lambda d: {**_copy(d), "method_key": ("badutf8",)})
    add("method-key-unknown", lambda d: {**_copy(d), "method_key": ("name", "nosuch")})
    add("version-absent", lambda d: {**_copy(d), "version": "absent"})
    add("version-wrong", lambda d: {**_copy(d), "version": "wrong"})
    for om, om_stream in other_methods:
        add(f"method-key={om}", lambda d, om=om: {**_copy(d), "method_key": ("name", om)})
        if om_stream == is_stream:
            add(f"url={om}", lambda d, om=om: {**_copy(d), "url": om})
    add("url-unknown", lambda d: {**_copy(d), "url": "nosuch"})
    add("endpoint-flipped", lambda d: {**_copy(d), "endpoint": "init" if d["endpoint"] == "unary" else "unary"})
    return out


# ---------------------------------------------------------------------------------------------------------------
REASONS = [
    (re.compile(r"got unexpected keyword argument\(s\): (.*)\Z", re.S), lambda m, idx: ([2, len(m.group(1).split(", "))], "")),
    (re.compile(r"missing required argument\(s\): (.*)\Z", re.S), lambda m, idx: ([3, len(m.group(1).split(", "))], "")),
    (re.compile(r"parameter schema expected (\d+) fields, got (\d+)"), lambda m, idx: ([4, int(m.group(1)), int(m.group(2))], "")),
    (re.compile(r"parameter schema field (\d+) expected name"), lambda m, idx: ([5, int(m.group(1))], "")),
    (re.compile(r"parameter '([^']*)' expected Arrow type"), lambda m, idx: ([6, idx(m.group(1))], "")),
    (re.compile(r"parameter '([^']*)' expected nullable="), lambda m, idx: ([7, idx(m.group(1))], "")),
    (re.compile(r"parameter '([^']*)' is not optional but got None"), lambda m, idx: ([8], m.group(1))),
    (re.compile(r"Missing 'vgi_rpc\.method'"), lambda m, idx: ([10], "")),
    (re.compile(r"Missing 'vgi_rpc\.request_version'"), lambda m, idx: ([11], "")),
    (re.compile(r"Unsupported request version"), lambda m, idx: ([12], "")),
    (re.compile(r"Invalid 'vgi_rpc\.method'"), lambda m, idx: ([13], "")),
    (re.compile(r"Expected 1 row in request batch, got (\d+)"), lambda m, idx: ([14, int(m.group(1))], "")),
    (re.compile(r"Unknown method: "), lambda m, idx: ([15], "")),
    (re.compile(r"Method name mismatch: URL path"), lambda m, idx: ([16], "")),
    (re.compile(r"requires /init and /exchange endpoints|is not a stream\Z"), lambda m, idx: ([17], "")),
]


def run(ctx: Any) -> None:
    import sys

    from vlib.coqterm import cN, cbool, clist, copt, cstr

    translate(ctx)
    thms = [
        "C06_socket_invoked_iff_conforming", "C06_http_invoked_iff_conforming", "C06_invoked_with_declared_arguments",
        "C06_socket_rejected_with_error_stream", "C06_http_nonconforming_400", "C06_http_rejected_before_method_runs",
        "C06_method_error_not_request_error_http", "C06_method_error_not_request_error_socket", "C06_400_only_before_invocation",
        "C06_defaults_not_filled_by_server", "C06_shm_routed_judged_on_resolved_batch",
    ]
    ctx.prove(
        ["prop/P_C06.vo", "tie/T_Validate.vo", "refuted/R_C06.vo"],
        {"P_C06": thms, "T_Validate": ["validate_cfg_tie", "C06_source_http_nonconforming_400", "C06_source_socket_invoked_iff_conforming", "C06_source_http_invoked_iff_conforming"]},
    )

    import falcon.testing
    import pyarrow as pa

    from harness import c06_service as S
    from harness.rawrpc import error_of, read_streams, serve_bytes, tick_stream_bytes
    from vgi_rpc.rpc import PipeTransport, ShmPipeTransport
    from vgi_rpc.shm import ShmSegment, _has_dictionary_columns
    from translate.t_c06_src import CLASS_CODES
    from vgi_rpc.http import make_wsgi_app
    from vgi_rpc.rpc import _deserialize_value

    thorough = ctx.tier == "thorough"
    rng = ctx.rng

    # ---- class codes / type tags --------------------------------------------------------------------------------
    codes = dict(CLASS_CODES)

    def code_of(name: str) -> int:
        if name not in codes:
            codes[name] = 20 + len(codes) - len(CLASS_CODES)
        return codes[name]

    def exn_term(e: BaseException | type) -> str:
        cls = e if isinstance(e, type) else type(e)
        mro = [code_of(c.__name__) for c in cls.__mro__ if c not in (object, BaseException)]
        return f"(mk_exn {cN(mro[0])} {clist(cN(c) for c in mro)})"

    type_tags: list[Any] = []

    def tag(t: Any) -> int:
        for i, u in enumerate(type_tags):
            if u == t:
                return i
        type_tags.append(t)
        return len(type_tags) - 1

    # ---- services ---------------------------------------------------------------------------------------------
    kinds = list(S.KINDS)

    def random_params(k: int) -> list[tuple[str, str, bool, bool]]:
        ps = []
        ndef = rng.randrange(0, k + 1) if rng.random() < 0.5 else 0
        for i in range(k):
            kind = rng.choice(kinds)
            has_default = i >= k - ndef
            optional = rng.random() < 0.35 or (has_default and S.DEFAULT_SRC[kind] == "None")
            ps.append(("abcdefgh"[i], kind, optional, has_default))
        return ps

    curated = [
        ("m0", False, [("a", "int", False, False), ("b", "str", False, False), ("c", "float", True, True), ("e", "enum", False, True)]),
        ("m1", False, [("v", "dc", False, False), ("m", "dict", False, False), ("s", "fset", False, False), ("l", "list", False, False), ("w", "i32", False, False)]),
        ("m2", False, []),
        ("m3", True, [("a", "int", False, False), ("e", "enum", True, False), ("v", "dc", True, True)]),
        ("m4", True, []),
        ("m5", True, []),   # twins of m4 / m2: a URL naming the twin with metadata naming the original conforms in everything but the name
        ("m6", False, []),
        # every parameter defaulted (no dictionary-encoded column, so the shm-routed variants apply too)
        ("m7", False, [("a", "int", False, True), ("b", "str", False, True), ("c", "float", True, True)]),
        ("m8", True, [("a", "int", False, True), ("v", "dc", True, True)]),
        ("m9", False, [("e", "enum", False, True)]),
    ]
    services = [curated]
    for _ in range(6 if thorough else 2):
        ms = []
        for j in range(4):
            ms.append((f"m{j}", j >= 2 and rng.random() < 0.7, random_params(rng.choice([1, 2, 3, 3, 4, 5]))))
        services.append(ms)
    # a one-parameter method of every kind, optional and not
    services.append([(f"k{j}", False, [("p", kinds[j], j % 2 == 1, False)]) for j in range(len(kinds))])

    behs = S.behaviours()

    ctx.rule = (
        "cases = service (curated + seeded random signatures over 11 parameter kinds, optional / defaulted, unary + stream) x method x "
        "request obtained from the valid request by 0, 1 or 2 perturbations (rename, swap/rotate, add, drop, retype, nullability flip, null value, "
        "unknown enum member, undecodable dataclass bytes, row count, metadata keys, URL / endpoint) x method behaviour (return or raise one of 10 "
        "exception classes) x path {socket, http}; distinct by the canonical request + behaviour + path; non-trivial = at least one perturbation or "
        "a raising behaviour"
    )

    model_cases: list[tuple[str, str]] = []
    by_name: dict[str, Any] = {}
    table_defs: list[str] = []
    case_info: list[dict[str, Any]] = []
    seen: set[str] = set()

    def check_case(srv: Any, client: Any, table_term: str, decl: dict[str, Any], d: dict[str, Any], beh: str, labels: list[str], sigs: dict[str, Any]) -> None:
        key = repr((id(srv), _show(d), beh))
        if key in seen:
            return
        seen.add(key)
        shm_routed = d.get("inline") is not None
        shm_offset = None
        try:
            if shm_routed:
                SHM.reset()
                data, shm_offset = _shm_request_bytes(d, SHM)
            else:
                data = _request_bytes(d)
        except (pa.ArrowInvalid, pa.ArrowTypeError, pa.ArrowNotImplementedError, ValueError, TypeError, OverflowError):
            ctx.count("unbuildable_requests")
            return
        name = decl["name"]
        cols = d["cols"]
        pyvals = []
        for cname, t, _nl, v in cols:
            pyvals.append(None if v is None else pa.array([v], type=t)[0].as_py())
        labels_s = "+".join(labels) or "valid"
        repl = {"service": sigs, "method": name, "perturbation": labels_s, "request": _show(d), "behaviour": beh}

        def judge(target: str | None) -> dict[str, Any]:
            """The statement's predicate for the method the request addresses, from descriptor + declaration alone."""
            tdecl = by_name.get(target) if target is not None else None
            if tdecl is None:
                return {"known": False, "conf": False, "decodable": True, "enum_only": True, "params": [], "declared": []}
            params = tdecl["params"]
            declared = srv._methods[target].params_schema
            framed = d["method_key"] == ("name", target) and d["version"] == "ok" and (not cols or d["rows"] == 1)
            schema_ok = len(cols) == len(declared) and all(c[0] == f.name and c[1] == f.type and c[2] == f.nullable for c, f in zip(cols, declared))
            nonnull_ok = schema_ok and all(p[2] or c[3] is not None for p, c in zip(params, cols))
            conf = framed and schema_ok and nonnull_ok
            decodable = True
            enum_only = True
            if conf:
                for p, v in zip(params, pyvals):
                    if v is None:
                        continue
                    if p[1] == "enum" and v not in S.Color.__members__:
                        decodable = False
                    if p[1] == "dc":
                        try:
                            S.DC.deserialize_from_bytes(v)
                        except Exception:  # noqa: BLE001 - any failure means "does not decode"
                            decodable = False
                            enum_only = False
            return {"known": True, "conf": conf, "decodable": decodable, "enum_only": enum_only, "params": params, "declared": declared, "stream": tdecl["stream"]}

        def classify(invoked: bool, err: Any, declared: Any, handshake: bool = False) -> tuple[list[int], str]:
            def idx(n: str) -> int:
                names = [f.name for f in declared]
                return names.index(n) if n in names else 99

            if handshake:
                return [18], ""
            if invoked:
                return ([1] if err is not None else [0]), ""
            if err is None:
                return [98], ""
            for rx, f in REASONS:
                m = rx.search(err[1])
                if m:
                    return f(m, idx)
            return [9], ""

        S.BEHAVIOUR[0] = behs[beh]
        for path in (("socket",) if shm_routed else ("socket", "http")):
            del S.LOG[:]
            escaped = None
            status = 0
            marker = False
            if path == "socket":
                if d["url"] != name or d["endpoint"] != ("init" if decl["stream"] else "unary"):
                    continue  # URL perturbations do not exist on the socket path
                wire = data + (tick_stream_bytes(1) if decl["stream"] else b"")
                if shm_routed:
                    wr = io.BytesIO()
                    exc = None
                    try:
                        srv.serve_one(ShmPipeTransport(PipeTransport(io.BytesIO(wire), wr), SHM))
                    except BaseException as e:  # noqa: BLE001 - an escaping exception is an observation
                        exc = e
                    out = wr.getvalue()
                else:
                    out, exc = serve_bytes(srv, wire)
                if exc is not None:
                    escaped = type(exc).__name__
                try:
                    st = read_streams(out)
                except Exception as e:  # noqa: BLE001
                    st = []
                    escaped = "unparseable-reply:" + type(e).__name__
                err = None
                for s in st:
                    err = err or error_of(s)
            else:
                url = "/" + d["url"] + ("/init" if d["endpoint"] == "init" else "")
                r = client.simulate_post(url, body=data, headers=ARROW_CT)
                status = r.status_code
                marker = r.headers.get("X-VGI-RPC-Error") == "true"
                try:
                    st = read_streams(r.content)
                    err = None
                    for s in st:
                        err = err or error_of(s)
                except Exception as e:  # noqa: BLE001
                    err = ("unparseable", type(e).__name__, None)
            invoked = list(S.LOG)
            target = (d["method_key"][1] if d["method_key"][0] == "name" else None) if path == "socket" else d["url"]
            j = judge(target)
            params, declared, decodable, enum_only_failure = j["params"], j["declared"], j["decodable"], j["enum_only"]
            handshake = path == "socket" and target == "__transport_options__" and err is None and not invoked and escaped is None
            ctx.count("impl_runs")
            pathname = "socket-shm" if shm_routed else path
            ctx.tally("path", pathname)
            ctx.case([sigs["id"], name, _show(d), beh, path], nontrivial=bool(labels) or beh != "ok")
            rp = {**repl, "path": pathname, "status": status, "marker": marker, "error": list(err) if err else None, "invoked": [list(map(repr, x)) for x in invoked], "escaped": escaped}
            # ---- property oracle on the implementation -------------------------------------------------------
            url_known = path == "socket" or j["known"]
            conf = j["conf"] and (path == "socket" or d["endpoint"] == ("init" if j["stream"] else "unary"))
            if escaped is not None:
                ctx.violation("exception-escapes-dispatch", f"{pathname}: {escaped} escaped instead of an error reply", rp)
            if len(invoked) > 1:
                ctx.violation("method-invoked-twice", f"{pathname}: one request ran the method {len(invoked)} times", rp)
            if invoked and not conf:
                ctx.violation(
                    "method-invoked-on-nonconforming-shm-routed-request" if shm_routed else "method-invoked-on-nonconforming-request",
                    f"{pathname}: the method ran although the {'batch its arguments were decoded from (resolved from shared memory)' if shm_routed else 'request'} does not conform ({labels_s})", rp)
            if invoked and invoked[0][0] != target:
                ctx.violation("wrong-method-invoked", f"{pathname}: method {invoked[0][0]} ran for a request addressed to {target}", rp)
            if invoked and conf:
                got = invoked[0][1]
                if list(got) != [p[0] for p in params]:
                    ctx.violation("method-invoked-with-wrong-argument-names", f"{pathname}: arguments {list(got)} for parameters {[p[0] for p in params]}", rp)
                else:
                    for p, v in zip(params, pyvals):
                        want = v
                        if v is not None:
                            want = _deserialize_value(v, srv._methods[target].param_types[p[0]])
                        if got[p[0]] != want or type(got[p[0]]) is not type(want):
                            ctx.violation("method-invoked-with-altered-argument", f"{pathname}: parameter {p[0]} received {got[p[0]]!r}, request carried {want!r}", rp)
            if conf and decodable and not invoked:
                ctx.violation("conforming-request-refused", f"{pathname}: a conforming request was not dispatched: {err}", rp)
            if conf and not decodable and invoked:
                ctx.violation("method-invoked-with-unconvertible-value", f"{pathname}: the method ran with a value that has no declared conversion", rp)
            if not invoked and not (conf and decodable):
                if path == "socket":
                    if err is None and not handshake:
                        ctx.violation("socket-rejection-without-error-stream", "socket: request refused but no error batch was written", rp)
                else:
                    want_status = 404 if not url_known else 400
                    strict = not conf or (not decodable and enum_only_failure)
                    if strict and (status != want_status or marker):
                        k = "http-nonconforming-request-masked-by-value-conversion-failure" if (err and err[0] not in ("TypeError", "RpcError", "VersionError")) else "http-nonconforming-request-not-400"
                        ctx.violation(k, f"http: non-conforming request ({labels_s}) answered {status}{' + X-VGI-RPC-Error' if marker else ''} [{err[0] if err else None}] instead of {want_status}", rp)
                    if not strict and status not in (400, 200):
                        ctx.violation("http-unconvertible-value-status", f"http: status {status} for an unconvertible value", rp)
                    if err is None:
                        ctx.violation("http-rejection-without-error-batch", "http: request refused but the body carries no error batch", rp)
            if invoked and beh != "ok":
                exc = behs[beh]()
                text = str(exc)
                if err is None or err[0] != type(exc).__name__ or text not in err[1]:
                    ctx.violation("method-error-not-reported-as-its-own", f"{pathname}: method raised {type(exc).__name__}({text!r}) but the client is told {err}", rp)
                if path == "http" and (status != 200 or not marker):
                    ctx.violation("method-error-reported-as-request-error" if status == 400 else "method-error-wrong-http-shape", f"http: method raised {type(exc).__name__}; answered {status} marker={marker}", rp)
            if invoked and beh == "ok":
                if err is not None or (path == "http" and (status != 200 or marker)):
                    ctx.violation("successful-call-reported-as-error", f"{pathname}: method returned normally; answer {status} marker={marker} error={err}", rp)
            if path == "http" and status == 400 and invoked:
                ctx.violation("http-400-after-invocation", "http: 400 although the method ran", rp)
            # ---- model case ------------------------------------------------------------------------------------
            rc, rname = classify(bool(invoked), err, declared, handshake)
            if escaped is not None:
                rc = [97]
            errcode = 0 if err is None else code_of(err[0]) + 1
            out_term = f"({clist(cN(x) for x in [int(bool(invoked)), status, int(marker), errcode] + rc)}, {cstr(rname)})"
            tr = 0 if path == "socket" else (2 if d["endpoint"] == "init" else 1)
            cells = []
            for (cname, t, nl, v), pv in zip(cols, pyvals):
                fterm = f"{{| f_name := {cstr(cname)}; f_type := {cN(tag(t))}; f_null := {cbool(nl)} |}}"
                if pv is None:
                    cterm = "CNull"
                else:
                    def attempt(f: Any) -> str:
                        try:
                            f()
                        except Exception as e:  # noqa: BLE001 - the class of the failure is the measurement
                            return copt(exn_term(e))
                        return "None"
                    v_enum = attempt(lambda: S.Color[pv]) if isinstance(pv, str) else "None"
                    v_dc = attempt(lambda: _deserialize_value(pv, S.DC)) if isinstance(pv, bytes) else "None"
                    v_dict = attempt(lambda: dict(pv)) if isinstance(pv, list) else "None"
                    v_fset = attempt(lambda: frozenset(pv)) if isinstance(pv, list) else "None"
                    cterm = (f"(CVal {{| v_bytes := {cbool(isinstance(pv, bytes))}; v_str := {cbool(isinstance(pv, str))}; v_list := {cbool(isinstance(pv, list))}; "
                             f"v_enum := {v_enum}; v_dc := {v_dc}; v_dict := {v_dict}; v_fset := {v_fset} |}})")
                cells.append(f"({fterm}, {cterm})")
            inline_term = "None" if not shm_routed else copt(clist(f"{{| f_name := {cstr(n)}; f_type := {cN(tag(t))}; f_null := {cbool(nl)} |}}" for n, t, nl in d["inline"]))
            mk = d["method_key"]
            mterm = "MKAbsent" if mk[0] == "absent" else ("MKBadUtf8" if mk[0] == "badutf8" else f"(MKName {cstr(mk[1])})")
            vterm = {"ok": "VOk", "absent": "VAbsent", "wrong": "VWrong"}[d["version"]]
            q = f"{{| q_method := {mterm}; q_version := {vterm}; q_cols := {clist(cells)}; q_rows := {cN(d['rows'])}; q_inline := {inline_term} |}}"
            bterm = "BOk" if beh == "ok" else f"(BRaise {exn_term(behs[beh]())})"
            model_cases.append((f"({cN(tr)}, {cstr(d['url'])}, {table_term}, {bterm}, {q})", out_term))
            case_info.append(rp)
        S.BEHAVIOUR[0] = None

    kind_term = {"KPlain": "KPlain", "KEnum": "KEnum", "KDataclass": "KDataclass", "KDict": "KDict", "KFrozenset": "KFrozenset"}
    n_single = n_pair = n_shm = 0
    import atexit

    SHM = ShmSegment.create(4 * 1024 * 1024)
    shm_state = {"open": True}

    def shm_cleanup() -> None:
        if shm_state["open"]:
            shm_state["open"] = False
            for f in (SHM.unlink, SHM.close):
                try:
                    f()
                except Exception:  # noqa: BLE001 - best-effort removal of the scratch segment
                    pass

    atexit.register(shm_cleanup)

    def no_dict(fields: list[Any]) -> bool:
        return not any(pa.types.is_dictionary(t) for _, t, *_ in fields)

    for si, methods in enumerate(services):
        srv = S.build_service(methods)
        app = make_wsgi_app(srv, prefix="", token_key=b"k" * 32, enable_landing_page=False, enable_not_found_page=False, enable_describe_page=False)
        client = falcon.testing.TestClient(app)
        sigs = {"id": si, "methods": [{"name": m, "stream": st, "params": [list(p) for p in ps]} for m, st, ps in methods]}
        # the declared side, as the real introspection built it
        infos = []
        for m, st, ps in methods:
            info = srv._methods[m]
            types = clist(f"({cstr(p[0])}, {{| pt_optional := {cbool(p[2])}; pt_kind := {kind_term[S.KINDS[p[1]][2]]} |}})" for p in ps)
            if list(info.param_types) != [p[0] for p in ps]:
                ctx.obligation("harness:param-types-order", "harness", False, f"{m}: {list(info.param_types)}")
            schema = clist(f"{{| f_name := {cstr(f.name)}; f_type := {cN(tag(f.type))}; f_null := {cbool(f.nullable)} |}}" for f in info.params_schema)
            defaults = clist(cstr(k) for k in info.param_defaults)
            infos.append(f"{{| mi_name := {cstr(m)}; mi_types := {types}; mi_defaults := {defaults}; mi_schema := {schema}; mi_stream := {cbool(st)} |}}")
            if sorted(info.param_defaults) != sorted(p[0] for p in ps if p[3]):
                ctx.obligation("harness:defaults", "harness", False, f"{m}: {sorted(info.param_defaults)}")
        table_defs.append(f"Definition tbl{si} : list minfo := {clist(infos)}.")
        table_term = f"tbl{si}"
        by_name.clear()
        by_name.update({m: {"stream": st, "params": ps} for m, st, ps in methods})
        for m, st, ps in methods:
            decl = {"name": m, "stream": st, "params": ps}
            declared = srv._methods[m].params_schema
            valid = {
                "method_key": ("name", m), "version": "ok", "rows": 1, "url": m, "endpoint": "init" if st else "unary",
                "cols": [[f.name, f.type, f.nullable, S.KINDS[p[1]][3]] for f, p in zip(declared, ps)],
            }
            others = sorted(((om, ost) for om, ost, ops in methods if om != m), key=lambda x: (x[1] != st, x[0] not in ('m5', 'm6')))[:2]
            perts = _perturbations(ps, others, st)
            ctx.tally("n_params", len(ps))
            for beh in behs:
                check_case(srv, client, table_term, decl, valid, beh, [], sigs)
            if not ps:
                # no parameters: transport-options handshake name is only meaningful once; do it here
                check_case(srv, client, table_term, decl, {**_copy(valid), "method_key": ("name", "__transport_options__")}, "ok", ["method-key=__transport_options__"], sigs)
            for label, fn in perts:
                d1 = fn(valid)
                if d1 is None:
                    continue
                ctx.tally("perturbation", label.split("[")[0].split("@")[0].split("=")[0].split("->")[0])
                n_single += 1
                check_case(srv, client, table_term, decl, d1, "ok", [label], sigs)
                if rng.random() < (0.25 if thorough else 0.12):
                    check_case(srv, client, table_term, decl, d1, rng.choice([b for b in behs if b != "ok"]), [label], sigs)
            # requests routed through the shared-memory side channel (socket path only): the batch the arguments are
            # decoded from lives in shm, the inline batch is a 0-row pointer with its own schema.  (A) pointer keeps the
            # declared schema while the resolved batch is perturbed, (B) pointer perturbed in front of a valid resolved
            # batch, (C) both perturbed alike.  Dictionary-encoded columns use a different shm framing: left out.
            decl_fields = [(f.name, f.type, f.nullable) for f in declared]
            if not _has_dictionary_columns(declared):
                for beh in ("ok", "TypeError", "C06Boom"):
                    n_shm += 1
                    check_case(srv, client, table_term, decl, {**_copy(valid), "inline": decl_fields}, beh, ["shm-routed"], sigs)
                for label, fn in perts:
                    d1 = fn(valid)
                    if d1 is None or d1["url"] != m or d1["endpoint"] != valid["endpoint"] or not no_dict(d1["cols"]):
                        continue
                    d1_fields = [(c[0], c[1], c[2]) for c in d1["cols"]]
                    variants = [("shm:pointer-declared/resolved-perturbed", {**d1, "inline": decl_fields})]
                    if d1_fields != decl_fields:
                        variants.append(("shm:pointer-perturbed/resolved-valid", {**_copy(valid), "inline": d1_fields}))
                        if rng.random() < (0.5 if thorough else 0.15):
                            variants.append(("shm:pointer-and-resolved-perturbed", {**d1, "inline": d1_fields}))
                    for vl, dv in variants:
                        n_shm += 1
                        check_case(srv, client, table_term, decl, dv, "ok", [vl, label], sigs)
            # pairs
            if thorough and si == 0:
                pairs = [(a, b) for a in range(len(perts)) for b in range(len(perts)) if a != b]
            else:
                k = 150 if thorough else 8
                pairs = [(rng.randrange(len(perts)), rng.randrange(len(perts))) for _ in range(k)]
            # targeted: every value-conversion failure combined with every shape / nullness perturbation of another column
            conv_labels = [i for i, (lb, _) in enumerate(perts) if lb.startswith(("dc-", "enum-unknown"))]
            shape_labels = [i for i, (lb, _) in enumerate(perts) if lb.startswith(("nullflip", "null[", "retype", "rename", "add@0:fresh", "drop", "swap"))]
            targeted = [(a, b) for a in conv_labels for b in shape_labels if a != b]
            if not thorough:
                must = [(a, b) for a, b in targeted if perts[a][0].startswith(("dc-invalid-utf8", "dc-truncated-body"))]
                rest = [x for x in targeted if x not in must]
                rng.shuffle(rest)
                targeted = must + rest[:12]
            for a, b in pairs + targeted:
                d1 = perts[a][1](valid)
                d2 = perts[b][1](d1) if d1 is not None else None
                if d2 is None:
                    continue
                n_pair += 1
                check_case(srv, client, table_term, decl, d2, "ok", [perts[a][0], perts[b][0]], sigs)
    shm_cleanup()
    ctx.count("shm_routed_requests", n_shm)
    ctx.count("single_perturbations", n_single)
    ctx.count("pair_perturbations", n_pair)
    ctx.sample({"service": 0, "method": "m0(a: int, b: str, c: float | None = 0.5, e: Color = GREEN)", "perturbation": "retype[0]->int32", "expected": "refused: TypeError, HTTP 400"})
    ctx.sample({"service": 0, "method": "m1(v: DC, m: dict[str,int], s: frozenset[int], l: list[int], w: int32)", "perturbation": "dc-invalid-utf8[0]+retype[4]->int64", "expected": "refused: HTTP 400 (columns do not conform)"})
    ctx.sample({"service": 0, "method": "m0", "perturbation": "valid", "behaviour": "raise TypeError", "expected": "HTTP 200 + X-VGI-RPC-Error, error class TypeError"})

    # ---- model side ----------------------------------------------------------------------------------------------
    header = "From Coq Require Import List NArith Bool.\nFrom VGI Require Import M_Validate G_Validate Corr.\nImport ListNotations.\nOpen Scope N_scope.\n" + "\n".join(table_defs)
    ok, bad, clog = ctx.coq_mismatches(
        header, "run_case", "pair_eqb bytes_eqb bytes_eqb", model_cases,
        "N * list N * list minfo * behaviour * request", "list N * list N", shard=250,
    )
    ctx.count("model_cases", len(model_cases))
    ctx.obligation("correspondence:M_Validate.run_case", "correspondence", ok and not bad, clog if not ok else f"{len(bad)} of {len(model_cases)} cases disagree")
    for i in bad[:5]:
        shown = ctx.coq_show(header, f"run_case {model_cases[i][0]}")
        ctx.violation("model-impl-disagree", "implementation and model decide differently", {**case_info[i], "impl_encoded": model_cases[i][1], "model": shown[-400:]})
    ctx.assumptions += [
        "pyarrow DataType equality is a primitive: a type is a tag, two request/declared types get one tag iff pyarrow's == holds",
        "the outcome of each value conversion (Enum[name], dataclass blob parsing, dict(), frozenset()) is measured on the real value and enters the model as an attribute of the cell",
        "socket transports share serve_one: the in-memory pipe transport stands for pipe / unix / tcp / subprocess",
        "services declare no protocol_version (the C09 gate is not on the path); no external-location request batches; shared-memory routed requests only over a static ShmPipeTransport segment and without dictionary-encoded columns; well-formed IPC framing (C05 covers the rest)",
        "HTTP: Content-Type is the Arrow stream type, no authentication, no request caps",
    ]
    del sys
