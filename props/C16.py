"""C16 HTTP response size caps are enforced.

proof         : coq/prop/P_C16.v over model/M_RespCaps.v (the three cap sites with abstract sizes: logical buffer bytes,
                uploaded stream bytes, inline / pointer wire bytes per flush), for ALL sizes, caps (None included),
                thresholds and tick sequences.
regenerated   : translate/t_c16_guards.py -> gen/G_RespCaps.v: the bodies of predict_externalize_bytes_for_batch /
                _for_collector, the decision points of maybe_externalize_batch / _collector, _enforce_response_budgets,
                the pre-flight / continuation guards of the three dispatch functions and the order
                pre-flight < flush < post-flush check; tie/T_RespCaps.v proves them equal to the model's definitions and
                restates the property over the generated terms for whichever prediction the source computes.
correspondence: the REAL Falcon app (falcon.testing.TestClient) with a byte-counting in-memory ExternalStorage, for
                unary / exchange / producer scenarios x external shapes x thresholds x wire caps x external caps placed
                at cap-1, cap, cap+1 of the logical size, of the uploaded (framed) size and of the body size; outcome
                class, success body length, bytes received by storage (in order), flushes per producer turn and the
                buffer position after the last flush are compared with M_RespCaps.run_case.  The sizes fed to the model
                are measured on uncapped reference runs (message sizes read back with pyarrow's MessageReader).
oracle        : on every real response, independently of the model: success body <= max_response_bytes (unary, exchange);
                bytes received by storage during one response <= max_externalized_response_bytes; an external-cap
                refusal must not be preceded by the upload it refuses; a producer turn passes the wire cap by at most
                its last flush.

Readings adopted (recorded per HOWTO):
 * DESIGN Appendix E: the caps bind *successful* bodies; the replacement error response is the "RPC error instead"
   and is not measured against the cap.
 * "HTTP body" = the IPC body the dispatch produced (what `max_response_bytes` is documented to measure); the check
   negotiates no response compression.
 * "bytes uploaded" = bytes received by the storage backend with no upload compression configured (the code's own
   measure is the pre-compression size; the two coincide here).
 * "exceeds the wire cap by at most its last batch" (producer): as in C11 -- the bytes of the turn before its last flush
   (one OutputCollector cycle: log batches + data batch) are below the cap; the continuation sentinel and the EOS marker
   that close the body are not counted.  The Coq statement of that bound over the full HTTP producer model is
   C11_overshoot_le_last (coq/prop/P_C11.v, property C11); here it is re-proved for the cap-site model only because the
   external-cap theorem needs the same loop.
 * "unary or exchange response" = the response of a unary call or of an exchange turn; the /init response of a stream
   (header + tokens) is neither and the code does not cap it.
"""
from __future__ import annotations

import itertools
from typing import Any

META = {
    "id": "C16",
    "technique": "Coq proof over an executable model of the three cap sites (abstract sizes) + regenerated guard expressions "
    "and prediction bodies (tie) + differential correspondence against the real Falcon app with a byte-counting storage",
    "level_text": "Coq theorems for all sizes / caps / thresholds / tick sequences: a unary or exchange success body is <= "
    "max_response_bytes and an oversize one is replaced by an error; uploads of a successful unary/exchange response are <= "
    "max_externalized_response_bytes; a producer turn's buffer before its last flush is below the wire cap. The statement's "
    "'overshoot is refused before upload' and 'producer never exceeds the external cap' are proved for the prediction mode "
    "PFramed (pre-flight predicts the uploaded stream length) and REFUTED for PLogical (what the unrepaired source computes: "
    "R_C16), where the proved bound is cap + (uploaded - logical) of the last upload; which mode the source has is "
    "regenerated on every run.",
    "level_note": "partial: sizes are abstract numbers (no model of Arrow IPC framing); the relation between the numbers and "
    "the real bytes is established by correspondence only (reference runs + MessageReader). Trusted: Coq kernel, "
    "t_c16_guards translator, harness/c16_service.py (storage counter, body parser), pyarrow. Upload compression and "
    "response compression are outside the model (the code measures pre-compression sizes). Producer wire overshoot over the "
    "full HTTP model is C11's theorem, cited.",
    "design_ref": "§5 C16",
}

K_PROD = "producer-upload-exceeds-external-cap-within-framing-gap"
K_UE = "unary-exchange-external-overshoot-refused-only-after-upload"

HDR = "From Coq Require Import List NArith Bool.\nFrom VGI Require Import M_RespCaps Corr.\nImport ListNotations.\nOpen Scope N_scope."


def translate(ctx: Any) -> str | None:
    from translate import t_c16_guards

    box: dict[str, Any] = {}

    def produce() -> str:
        text, mode = t_c16_guards.generate(ctx.repo)
        box["mode"] = mode
        return text

    ctx.gen("G_RespCaps", produce)
    return box.get("mode")


# ---------------------------------------------------------------------------------------------------------------
def _sizes(msgs: list[dict[str, Any]], kind: str) -> int:
    return sum(m["size"] for m in msgs if m["kind"] == kind)


def _around(*vals: int) -> list[int]:
    out = []
    for v in vals:
        for d in (-1, 0, 1):
            if v + d >= 0:
                out.append(v + d)
    return out


def run(ctx: Any) -> None:
    from vlib.coqterm import cN, cbool, clist, copt

    mode = translate(ctx)
    ctx.prove(
        ["prop/P_C16.vo", "tie/T_RespCaps.vo", "refuted/R_C16.vo"],
        {
            "P_C16": [
                "C16_unary_exchange_body_le_cap_or_error",
                "C16_oversize_result_becomes_error",
                "C16_external_le_cap_on_success_unary_exchange",
                "C16_external_le_cap_or_refused_before_upload",
                "C16_external_partial_logical_prediction",
                "C16_producer_external_le_cap",
                "C16_producer_external_partial_logical_prediction",
                "C16_producer_overshoot",
            ],
            "T_RespCaps": ["predicted_tie", "fires_tie", "enforce_tie", "guards_tie", "C16_source"],
        },
    )
    framed = mode == "PFramed"
    ctx.notes.append(f"prediction mode regenerated from external.py: {mode}")

    from harness import c16_service as S

    quick = ctx.tier == "quick"
    rng = ctx.rng
    BIG = 10**9
    cases: list[tuple[str, str]] = []
    case_info: list[dict[str, Any]] = []
    ctx.rule = (
        "case = scenario (unary blob/void/boom, exchange turn, producer stream) x external shape {no config, config without "
        "storage, storage} x threshold {0, L, L+1, huge} x wire cap {None, 1, body-1, body, body+1 for the inline and the "
        "pointer body / every buffer position} x external cap {None, 0, L-1, L, L+1, U-1, U, U+1 (cumulative for producers)}; "
        "quick tier samples the product keeping every boundary value; non-trivial = at least one cap is set"
    )

    def cfg_term(w: int | None, e: int | None, on: bool, th: int) -> str:
        return f"({copt(None if w is None else cN(w))}, {copt(None if e is None else cN(e))}, {cbool(on)}, {cN(th)}, {cbool(framed)})"

    def flush_term(f: tuple[bool, bool, int, int, int, int]) -> str:
        return f"({cbool(f[0])}, {cbool(f[1])}, {cN(f[2])}, {cN(f[3])}, {cN(f[4])}, {cN(f[5])})"

    def row_term(code: int, size: int, n: int, ups: list[int]) -> str:
        return f"({cN(code)}, {cN(size)}, {cN(n)}, {clist([cN(u) for u in ups])})"

    def ue_key(repl: dict[str, Any], e: int) -> str:
        # the class documented by R_C16.C16_refused_before_upload_refuted: logical <= cap < uploaded stream
        return K_UE if repl["logical"] <= e < repl["uploaded_stream"] else "unary-exchange-upload-exceeds-external-cap-beyond-framing-gap"

    def prod_key(trepl: dict[str, Any], e: int, ups: int) -> str:
        # the class documented by R_C16.C16_producer_external_*_refuted: the turn passes the cap by at most one framing gap
        gaps = [u - l for u, l in zip(trepl["uploaded_stream"], trepl["logical"])]
        return K_PROD if gaps and ups <= e + max(gaps) else "producer-upload-exceeds-external-cap-beyond-framing-gap"

    def check_caps_ue(kindname: str, r: dict[str, Any], w: int | None, e: int | None, repl: dict[str, Any]) -> None:
        """The property's own predicate on one real unary / exchange response."""
        ups = sum(r["uploads"])
        if r["kind"] == "ok":
            if w is not None and r["body_len"] > w:
                ctx.violation(f"{kindname}-success-body-exceeds-wire-cap", f"success body {r['body_len']} > max_response_bytes {w}", repl)
            if e is not None and ups > e:
                ctx.violation(f"{kindname}-success-upload-exceeds-external-cap", f"uploaded {ups} > max_externalized_response_bytes {e} on a successful response", repl)
        elif r["kind"] == "ext":
            if r["errhdr"] != "true":
                ctx.violation(f"{kindname}-cap-error-not-flagged", "cap refusal without X-VGI-RPC-Error", repl)
            if e is not None and ups > e:
                ctx.violation(ue_key(repl, e), f"external-cap refusal arrived after {ups} bytes (> cap {e}) had been uploaded", {**repl, "uploaded": r["uploads"]})
        elif r["kind"] == "wire":
            if r["errhdr"] != "true":
                ctx.violation(f"{kindname}-cap-error-not-flagged", "cap refusal without X-VGI-RPC-Error", repl)
            if e is not None and ups > e:
                ctx.violation(ue_key(repl, e), f"wire-cap refusal arrived after {ups} bytes (> external cap {e}) had been uploaded", {**repl, "uploaded": r["uploads"]})
        elif r["kind"].startswith("other"):
            ctx.violation(f"{kindname}-unexpected-error", r["kind"], repl)

    # =============================================================================================== unary
    unary_scen: list[tuple[str, int, int]] = [("blob", 5000, 0), ("blob", 5000, 2), ("blob", 700, 1), ("blob", 1, 0), ("blob", 0, 0), ("void", 0, 0), ("void", 0, 2), ("boom", 5, 0)]
    if not quick:
        unary_scen += [("blob", 65536, 1), ("blob", 263, 0), ("blob", 64, 3)]
    for method, n, logs in unary_scen:
        with S.pinned_entropy():
            ra = S.run_unary(S.App("none", 0, None, None), method, n, logs)
        with S.pinned_entropy():
            rb = S.run_unary(S.App("on", 0, None, None), method, n, logs)
        raises = method == "boom"
        if raises:
            L = U = inl = ptr = 0
            base = 0
            rows0 = False
        else:
            rows0 = method == "void"
            import pyarrow as pa

            L = pa.RecordBatch.from_pydict({}, schema=pa.schema([])).get_total_buffer_size() if rows0 else S.unary_result_batch(n).get_total_buffer_size()
            inl = _sizes(ra["msgs"], "data")
            ptr = _sizes(rb["msgs"], "pointer")
            U = sum(rb["uploads"])
            base = ra["body_len"] - inl
            ok_ref = ra["kind"] == "ok" and rb["kind"] == "ok" and (rows0 or (ptr > 0 and U > 0)) and rb["body_len"] - (ptr if not rows0 else _sizes(rb["msgs"], "data")) == base
            ctx.obligation(f"env:reference-run:unary:{method}:{n}:{logs}", "environment", ok_ref, f"reference runs unusable: {ra['kind']} {rb['kind']} ptr={ptr} U={U}")
            if not ok_ref:
                continue
            if rows0:
                ptr, U = 0, 0
        f = (True, rows0, L, U, inl, ptr)
        shapes = [("none", [0]), ("nostorage", [0]), ("on", [0, L, L + 1, BIG])]
        wires = [None, 1] + _around(base + inl, base + ptr)
        exts = [None, 0] + _around(L, U)
        combos = [(sh, th, w, e) for sh, ths in shapes for th in ths for w in dict.fromkeys(wires) for e in dict.fromkeys(exts)]
        if quick:
            must = [c for c in combos if c[0] == "on" and c[1] == 0 and c[2] is None]
            rest = [c for c in combos if c not in must]
            combos = must + rng.sample(rest, min(len(rest), 60 if not raises else 6))
        for sh, th, w, e in combos:
            app = S.App(sh, th, w, e)
            with S.pinned_entropy():
                r = S.run_unary(app, method, n, logs)
            ctx.count("impl_runs")
            ctx.tally("scenario", "unary")
            ctx.tally("outcome", "unary:" + r["kind"].split(":")[0])
            repl = {"path": "unary", "method": method, "n": n, "logs": logs, "external": sh, "threshold": th, "max_response_bytes": w, "max_externalized_response_bytes": e, "logical": L, "uploaded_stream": U}
            ctx.case(["u", method, n, logs, sh, th, w, e], nontrivial=w is not None or e is not None)
            check_caps_ue("unary", r, w, e, repl)
            code = {"ok": 0, "ext": None, "wire": 2, "user": 4}.get(r["kind"], 99)
            if r["kind"] == "ext":
                code = 1 if not r["uploads"] else 3
            body = r["body_len"] if r["kind"] == "ok" else 0
            inp = f"CUE true {cfg_term(w, e, sh == 'on', th)} {cbool(raises)} {cN(base)} {flush_term(f)}"
            cases.append((inp, "[" + row_term(code, body, 0, r["uploads"]) + "]"))
            case_info.append({**repl, "impl": [code, body, r["uploads"]]})
    ctx.sample({"path": "unary", "n": 5000, "external_cap": "logical..uploaded-1", "expected": "PLogical: upload then refusal; PFramed: refusal, nothing uploaded"})

    # =============================================================================================== exchange
    xch_scen: list[tuple[int, int, int]] = [(5000, 1, 0), (5000, 1, 2), (700, 3, 1), (0, 0, 0), (0, 0, 1), (-1, 1, 0)]
    if not quick:
        xch_scen += [(65536, 1, 1), (33, 5, 0), (1, 1, 3)]
    for n, rows, logs in xch_scen:
        raises = n < 0
        with S.pinned_entropy():
            ra = S.run_exchange(S.App("none", 0, None, None), [(n, rows, logs)])[-1]
        with S.pinned_entropy():
            rb = S.run_exchange(S.App("on", 0, None, None), [(n, rows, logs)])[-1]
        if raises:
            L = U = inl = ptr = base = 0
        else:
            L = S.data_batch(n, rows).get_total_buffer_size()
            # a zero-row data batch carrying the refreshed cursor looks like a token sentinel to the body parser
            inl = _sizes(ra["msgs"], "data") + _sizes(ra["msgs"], "token") + _sizes(ra["msgs"], "log")
            ptr = _sizes(rb["msgs"], "pointer")
            U = sum(rb["uploads"])
            base = ra["body_len"] - inl
            ok_ref = ra["kind"] == "ok" and rb["kind"] == "ok" and ptr > 0 and U > 0 and rb["body_len"] - ptr == base
            ctx.obligation(f"env:reference-run:exchange:{n}:{rows}:{logs}", "environment", ok_ref, f"reference runs unusable: {ra['kind']} {rb['kind']} ptr={ptr} U={U}")
            if not ok_ref:
                continue
        f = (True, rows == 0, L, U, inl, ptr)
        shapes = [("none", [0]), ("nostorage", [0]), ("on", [0, L, L + 1, BIG])]
        wires = [None, 1] + _around(base + inl, base + ptr)
        exts = [None, 0] + _around(L, U)
        combos = [(sh, th, w, e) for sh, ths in shapes for th in ths for w in dict.fromkeys(wires) for e in dict.fromkeys(exts)]
        if quick:
            must = [c for c in combos if c[0] == "on" and c[1] == 0 and c[2] is None]
            rest = [c for c in combos if c not in must]
            combos = must + rng.sample(rest, min(len(rest), 60 if not raises else 6))
        for sh, th, w, e in combos:
            app = S.App(sh, th, w, e)
            with S.pinned_entropy():
                rs = S.run_exchange(app, [(n, rows, logs)])
            r = rs[-1]
            ctx.count("impl_runs")
            ctx.tally("scenario", "exchange")
            ctx.tally("outcome", "exchange:" + r["kind"].split(":")[0])
            repl = {"path": "exchange", "n": n, "rows": rows, "logs": logs, "external": sh, "threshold": th, "max_response_bytes": w, "max_externalized_response_bytes": e, "logical": L, "uploaded_stream": U}
            ctx.case(["x", n, rows, logs, sh, th, w, e], nontrivial=w is not None or e is not None)
            if len(rs) != 2 or rs[0]["kind"] != "ok":
                ctx.violation("exchange-init-failed", f"init answered {rs[0]['kind']}", repl)
                continue
            check_caps_ue("exchange", r, w, e, repl)
            code = {"ok": 0, "wire": 2, "user": 4}.get(r["kind"], 99)
            if r["kind"] == "ext":
                code = 1 if not r["uploads"] else 3
            body = r["body_len"] if r["kind"] == "ok" else 0
            inp = f"CUE false {cfg_term(w, e, sh == 'on', th)} {cbool(raises)} {cN(base)} {flush_term(f)}"
            cases.append((inp, "[" + row_term(code, body, 0, r["uploads"]) + "]"))
            case_info.append({**repl, "impl": [code, body, r["uploads"]]})
    ctx.sample({"path": "exchange", "n": 5000, "logs": 2, "external_cap": "logical", "expected": "upload = schema + 2 log batches + data batch + EOS"})

    # =============================================================================================== producer
    prod_scen: list[tuple[list[int], int, bool, int]] = [
        ([300, 300, 300], 0, False, 0),
        ([300, 300, 300], 1, True, 1),
        ([2000, 10, 900, 900], 1, False, 0),
        ([5000], 0, True, 0),
        ([5000], 2, False, 1),
        ([300, -1, 300], 0, False, 0),
        ([], 0, False, 1),
    ]
    if not quick:
        prod_scen += [([64, 64, 64, 64, 64, 64], 0, False, 0), ([4000, 4000, 1], 1, True, 0), ([10, 20000, 10], 0, False, 2)]
    for sizes, logs, fin, ilogs in prod_scen:
        with S.pinned_entropy():
            ra = S.run_producer(S.App("none", 0, None, None), sizes, logs, fin, ilogs)
        with S.pinned_entropy():
            rb = S.run_producer(S.App("on", 0, None, None), sizes, logs, fin, ilogs)
        # reference: with no wire cap every turn runs exactly one tick
        steps: list[tuple[bool, tuple[bool, bool, int, int, int, int], bool]] = []
        ok_ref = len(ra) == len(rb)
        pre_init = pre_cont = 0
        for i, (ta, tb) in enumerate(zip(ra, rb)):
            sch = _sizes(ta["msgs"], "schema")
            logs_a = [m["size"] for m in ta["msgs"] if m["kind"] == "log"]
            il = sum(logs_a[:ilogs]) if i == 0 else 0
            if i == 0:
                pre_init = sch + il
            else:
                pre_cont = sch
            if i < len(sizes) and sizes[i] < 0:
                steps.append((True, (False, False, 0, 0, 0, 0), False))
                ok_ref = ok_ref and ta["kind"] == "user"
                break
            if i >= len(sizes):
                steps.append((False, (False, False, 0, 0, 0, 0), True))
                ok_ref = ok_ref and ta["kind"] == "ok" and _sizes(ta["msgs"], "data") == 0 and not any(m["kind"] == "token" for m in ta["msgs"])
                break
            inl = _sizes(ta["msgs"], "data") + sum(logs_a) - il
            ptr = _sizes(tb["msgs"], "pointer")
            U = sum(tb["uploads"])
            L = S.data_batch(sizes[i]).get_total_buffer_size()
            last_fin = fin and i == len(sizes) - 1
            steps.append((False, (True, False, L, U, inl, ptr), last_fin))
            ok_ref = ok_ref and ta["kind"] == "ok" and tb["kind"] == "ok" and ptr > 0 and U > 0 and inl > 0
            if last_fin:
                break
        pre_cont = _sizes(ra[0]["msgs"][-1:] and [m for m in ra[0]["msgs"] if m["kind"] == "schema"][-1:], "schema")
        ok_ref = ok_ref and len(steps) == len(ra)
        ctx.obligation(f"env:reference-run:producer:{sizes}:{logs}:{fin}:{ilogs}", "environment", ok_ref, f"reference runs unusable ({len(ra)} / {len(rb)} turns, kinds {[t['kind'] for t in ra]})")
        if not ok_ref:
            continue
        data_steps = [s for s in steps if s[1][0]]
        Ls = [s[1][2] for s in data_steps]
        Us = [s[1][3] for s in data_steps]
        # buffer positions if everything stayed in one turn (inline / pointer)
        pos_inl = list(itertools.accumulate([s[1][4] for s in data_steps], initial=pre_init))
        pos_ptr = list(itertools.accumulate([s[1][5] for s in data_steps], initial=pre_init))
        cumU = list(itertools.accumulate(Us, initial=0))
        wires: list[int | None] = [None, 1, BIG] + _around(*pos_inl, *pos_ptr)
        exts: list[int | None] = [None, 0, BIG] + _around(*cumU[1:], *[cumU[k] + Ls[k] for k in range(len(Ls))], *Ls, *Us)
        ths = sorted({0, BIG, *(Ls[:1]), *[x + 1 for x in Ls[:1]], *( [max(Ls)] if Ls else [])})
        shapes = [("none", [0]), ("nostorage", [0]), ("on", ths)]
        combos = [(sh, th, w, e) for sh, t2 in shapes for th in t2 for w in dict.fromkeys(wires) for e in dict.fromkeys(exts)]
        if quick:
            must = [c for c in combos if c[0] == "on" and c[1] == 0 and c[2] in (None, BIG) and c[3] is not None]
            rest = [c for c in combos if c not in must]
            combos = must + rng.sample(rest, min(len(rest), 90))
        elif len(combos) > 1500:
            must = [c for c in combos if c[0] == "on" and c[1] == 0 and c[2] in (None, BIG)]
            rest = [c for c in combos if c not in must]
            combos = must + rng.sample(rest, 1500)
        for sh, th, w, e in combos:
            app = S.App(sh, th, w, e)
            with S.pinned_entropy():
                turns = S.run_producer(app, sizes, logs, fin, ilogs)
            ctx.count("impl_runs")
            ctx.tally("scenario", "producer")
            repl = {"path": "producer", "sizes": sizes, "logs": logs, "fin_with_last": fin, "init_logs": ilogs, "external": sh, "threshold": th, "max_response_bytes": w, "max_externalized_response_bytes": e, "logical": Ls, "uploaded_stream": Us}
            ctx.case(["p", sizes, logs, fin, ilogs, sh, th, w, e], nontrivial=w is not None or e is not None)
            rows_out = []
            for ti, t in enumerate(turns):
                ctx.count("producer_turns")
                ctx.tally("outcome", "producer:" + t["kind"].split(":")[0])
                msgs = t["msgs"]
                # the data stream of the turn is the LAST IPC stream of the body (the init response may carry a header stream first)
                start = max(i for i, m in enumerate(msgs) if m["kind"] == "schema")
                seg = msgs[start:]
                trailer = [m for m in seg if m["kind"] in ("token", "error", "eos")]
                pos = sum(m["size"] for m in seg) - sum(m["size"] for m in trailer)
                flushes = sum(1 for m in seg if m["kind"] in ("data", "pointer"))
                has_token = any(m["kind"] == "token" for m in seg)
                ups = sum(t["uploads"])
                trepl = {**repl, "turn": ti, "turn_uploads": t["uploads"], "turn_kind": t["kind"]}
                # ---- oracle on the real turn
                if t["kind"] == "ok" and e is not None and ups > e:
                    ctx.violation(prod_key(trepl, e, ups), f"a successful producer turn uploaded {ups} bytes > max_externalized_response_bytes {e}", trepl)
                if t["kind"] == "ext":
                    if t["errhdr"] != "true":
                        ctx.violation("producer-cap-error-not-flagged", "external-cap refusal without X-VGI-RPC-Error", trepl)
                    if e is not None and ups > e:
                        ctx.violation(prod_key(trepl, e, ups), f"producer turn refused on the external cap after {ups} bytes > cap {e} had been uploaded", trepl)
                if t["kind"] == "wire" or t["kind"].startswith("other"):
                    ctx.violation("producer-unexpected-error", t["kind"], trepl)
                if w is not None and t["kind"] in ("ok", "ext", "user") and flushes >= 2:
                    # bytes of the turn before its last flush group (logs of that cycle + its data / pointer batch)
                    body_msgs = [m for m in seg if m["kind"] in ("schema", "log", "data", "pointer")]
                    k = max(i for i, m in enumerate(body_msgs) if m["kind"] in ("data", "pointer"))
                    j = k
                    while j - 1 >= 0 and body_msgs[j - 1]["kind"] == "log":
                        j -= 1
                    before_last = sum(m["size"] for m in body_msgs[:j])
                    ctx.count("turns_overshoot_checked")
                    if before_last > w:
                        ctx.violation("producer-turn-over-wire-cap-before-its-last-batch", f"{before_last} bytes before the last batch > max_response_bytes {w}", trepl)
                code = {"ok": 1 if has_token else 0, "ext": 2, "user": 3}.get(t["kind"], 99)
                nfl = flushes  # the model counts the flushes that carried a data batch
                rows_out.append((code, pos, nfl, t["uploads"]))
            inp = f"CProd {cfg_term(w, e, sh == 'on', th)} {cN(pre_init)} {cN(pre_cont)} " + clist([f"({cbool(s[0])}, {flush_term(s[1])}, {cbool(s[2])})" for s in steps])
            cases.append((inp, clist([row_term(*r4) for r4 in rows_out])))
            case_info.append({**repl, "impl": rows_out})
    ctx.sample({"path": "producer", "sizes": [300, 300, 300], "external_cap": "cumulative uploaded + logical of the next batch", "expected": "PLogical: passes the pre-flight, turn uploads more than the cap"})

    # =============================================================================================== model side
    ok, bad, clog = ctx.coq_mismatches(
        HDR,
        "run_case",
        "list_eqb (pair_eqb (pair_eqb (pair_eqb N.eqb N.eqb) N.eqb) (list_eqb N.eqb))",
        cases,
        "case",
        "list (N * N * N * list N)",
    )
    ctx.count("model_cases", len(cases))
    ctx.obligation("correspondence:M_RespCaps.run_case", "correspondence", ok and not bad, clog if not ok else f"{len(bad)} of {len(cases)} cases disagree")
    for i in bad[:5]:
        shown = ctx.coq_show(HDR, f"run_case ({cases[i][0]})")
        ctx.violation("model-impl-disagree", "implementation and model decide differently at a cap site", {**case_info[i], "model": shown[-600:]})
    ctx.obligation("env:exercised-all-outcomes", "environment", all(ctx.dist.get("outcome", {}).get(k, 0) > 0 for k in ("unary:ok", "unary:ext", "unary:wire", "unary:user", "exchange:ok", "exchange:ext", "exchange:wire", "exchange:user", "producer:ok", "producer:ext", "producer:user")), f"outcomes seen: {ctx.dist.get('outcome')}")
    ctx.assumptions += [
        "sizes fed to the model (logical, uploaded stream, inline / pointer wire bytes) are measured on uncapped reference runs of the same request; os.urandom / time.time are pinned during driver runs so that sealed-token lengths (zstd-packed) do not move exchange batch sizes between runs",
        "tenacity is not installed: harness/stubs/tenacity.py (wire-core worker) is on sys.path; it is only imported, never exercised here",
        "bytes uploaded are counted by harness.c16_service.CountingStorage (an in-memory ExternalStorage), no upload compression",
        "producer wire overshoot over the full HTTP producer model is property C11's theorem C11_overshoot_le_last; here only the cap-site loop is modelled",
    ]
