"""C33 Launcher spawns once and socket workers never vanish under a client.

proof         : coq/prop/P_C33.v over coq/model/M_Accept.v -- two small-step interleaving models, theorems for EVERY
                schedule (any list of actions; disabled actions stutter):
                  accept loop  (vgi_rpc/rpc/_transport.py::_serve_socket_threaded): the loop leaves on
                               shutdown_requested only with conn_count = 0, every connection thread finished and
                               idle_timeout (startup grace before the first connection) elapsed since then;
                  launcher     (vgi_rpc/launcher.py::launch / gc_state_dir + _transport.py::serve_unix): under the flock
                               mutual-exclusion hypothesis at most one worker per hash is alive, every Popen happens
                               while none is, every returned path was accepting at the deciding moment.
regenerated   : translate/t_c33_accept.py matches _serve_socket_threaded statement by statement against a template with
                two optional statements (the model's c_clear / c_guard) and three numeric holes -> coq/gen/G_Accept.v;
                coq/tie/T_Accept.v proves (gen_clear, gen_guard) = (true, true) and restates the theorem over the
                generated configuration.  launch / gc_state_dir / serve_unix are matched against templates too.
correspondence: harness/c33_sched.py runs the REAL accept loop (fake listening socket, interposed threading, logical time)
                and the REAL launch()/gc_state_dir()/serve_unix (fake Popen, real FileLock, real AF_UNIX sockets) under a
                cooperative scheduler; the observation after every step is compared with the model's (run_case,
                run_case_l) on directed schedules (the refutation witnesses, idle breaks, semaphore saturation, OSError)
                and seeded adaptive random schedules.
oracle        : on every run of the real code, independent of the model: at the moment the loop breaks on the flag, no
                connection handed out by accept() is still open and (now - time the last one closed) >= the timeout that
                applies; per launcher run: never two workers alive, every Popen with none alive, every returned path
                connect()-able at the deciding moment.

Readings adopted (where the statement leaves room):
* "accepting at that moment" = the listening socket of a worker is open and the path names it (a connect() to the
  returned path succeeds) at the moment the evidence was produced: the probe's connect(), resp. the worker's ready line.
  A worker whose accept loop has returned but which has not yet executed sock.close() still counts as accepting under
  this reading (after the repair the window is a handful of bytecodes: the loop leaves only with no thread to join).
* "alive" = spawned, not failed, listener not yet closed.
* the idle clock starts when the last connection's server.serve() returned (oracle) / when conn_count became 0 (model,
  later or equal); before the first connection the startup grace max(idle_timeout, 60) applies, counted from the start.
* an OSError out of sock.accept() (the `except OSError: break` arm) is an environment fault, not an interleaving: it is
  modelled (AAccErr) and corresponded, but the theorems and the oracle speak about breaks on shutdown_requested only.
* a worker's exit cleanup (lstat + identity compare + unlink in _unlink_bound_unix_socket) is one step, and a socket
  inode number is not reused while a previous owner still runs (the harness keeps its sockets on tmpfs); the statement's
  quantifier does not name the exit cleanup.  On ext4 inode numbers ARE reused immediately; see the note this check emits.
* serve_named_pipe (Windows only) has its own copy of the loop; it cannot run here and is not covered.
"""
from __future__ import annotations

import os
import tempfile
from pathlib import Path
from typing import Any

META = {
    "id": "C33",
    "technique": "Coq proof over two interleaving models (all schedules) + regenerated accept-loop shape/flags tie + "
    "step-by-step correspondence of the real code under a cooperative scheduler",
    "level_text": "Coq theorems for every schedule: the modelled accept loop breaks on shutdown_requested only when idle "
    "(conn_count = 0, all connection threads finished, timeout elapsed); under flock mutual exclusion the modelled launcher "
    "keeps at most one worker per hash alive and returns only paths that were accepting. The loop's shape and the two "
    "repair-relevant statements are regenerated from the source on every run; model and real code are compared step by step "
    "on controlled schedules.",
    "level_note": "Trusted: Coq kernel, the template matcher, the scheduler harness (atomicity between scheduling points; "
    "holds for the loop because every shared access is inside `with state_lock`), flock mutual exclusion (Section hypothesis, "
    "validated against the real filelock on the explored schedules), logical time for threading.Timer. Not covered: "
    "serve_named_pipe, non-atomic worker exit cleanup / inode reuse, real-time behaviour of the 0.5 s accept tick.",
    "design_ref": "§5 C33",
}

A = ("acc",)
C = ("client",)


def T(d: int) -> tuple[str, int]:
    return ("tick", d)


def H(i: int) -> tuple[str, int]:
    return ("hnd", i)


def M(k: int) -> tuple[str, int]:
    return ("tmr", k)


# witness of refuted/R_C33.v::C33_flag_not_cleared_refuted (idle 5)
W_FLAG = [A, T(60), M(0), M(0), C, A, A, A, H(0), A, A, A]
# the same with the timer firing between accept() returning and the connection being counted ("just accepted")
W_FLAG_JUST = [A, T(60), M(0), C, A, M(0), A, A, H(0), A, A, A]
# witness of refuted/R_C33.v::C33_stale_timer_refuted (idle 5)
W_STALE = [A, C, A, A, A, H(0), H(0), H(0), T(5), M(1), C, A, A, A, H(1), H(1), H(1), M(1), A, A, A]

ACCEPT_DIRECTED: list[tuple[str, int | None, int | None, list[tuple[Any, ...]]]] = [
    ("flag-not-cleared", 5, None, W_FLAG),
    ("flag-not-cleared-just-accepted", 5, None, W_FLAG_JUST),
    ("flag-set-before-thread-starts", 5, None, [A, T(60), M(0), C, A, M(0), A, A, A, A, H(0), H(0), H(0)]),
    ("stale-timer", 5, None, W_STALE),
    ("stale-timer-sem", 5, 2, W_STALE),
    ("idle-break-grace", 5, None, [A, T(59), M(0), A, A, T(1), M(0), M(0), A, A, A, A]),
    ("idle-break-after-conn", 5, 1, [A, C, A, A, A, H(0), T(7), H(0), H(0), T(4), M(1), A, A, T(1), M(1), M(1), A, A, A]),
    ("long-idle-70", 70, None, [A, T(60), M(0), T(10), M(0), M(0), A, A, A]),
    ("semaphore-saturated", 3, 1, [A, C, C, A, A, A, A, A, A, H(1), H(0), H(1), H(0), H(1), H(0), H(1), H(1), H(1), T(3), M(1), M(2), M(2), A, A, A]),
    ("oserror-while-serving", 5, None, [A, C, A, A, A, H(0), ("accerr",), A, H(0), H(0), A]),
    ("no-idle-timeout", None, 2, [A, C, A, A, A, H(0), T(100), A, A, H(0), H(0), ("accerr",), A, A]),
    ("cancelled-timer-wakes", 5, None, [A, C, A, A, M(0), M(0), A, H(0), H(0), H(0), T(5), M(1), M(1), A, A]),
]


def P(i: int) -> tuple[str, int]:
    return ("proc", i)


def W(i: int) -> tuple[str, int]:
    return ("worker", i)


def S(i: int) -> tuple[str, int]:
    return ("stop", i)


LAUNCH_DIRECTED: list[tuple[str, list[bool], list[tuple[str, int]]]] = [
    (
        "spawn-reuse-gc-respawn",
        [False, False, True, False],
        [P(0), P(1), P(0), P(0), P(0), P(0), P(1), W(0), W(0), W(0), P(0), W(0), P(0), P(1), P(0), P(1), P(1), P(1), P(2), P(2), P(2), P(2),
         S(0), P(3), P(3), P(3), W(0), P(3), W(0), P(3), P(3), W(1), W(1), W(1), W(1), P(3), P(3), P(2), P(2), P(2)],
    ),
    (
        "respawn-after-close-before-cleanup",
        [False, False],
        [P(0), P(0), P(0), P(0), W(0), W(0), W(0), W(0), P(0), P(0), S(0), W(0), P(1), P(1), P(1), P(1), W(1), W(1), W(1), W(0), W(1), P(1), P(1)],
    ),
    (
        "gc-removes-stale-then-launch",
        [False, True, False],
        [P(0), P(0), P(0), P(0), W(0), W(0), W(0), W(0), P(0), P(0), S(0), W(0), P(1), P(1), P(1), P(1), P(1), P(2), P(2), P(2), P(2), W(1), W(1), W(1), W(1), P(2), P(2), W(0), W(0)],
    ),
    (
        "gc-pass-races-a-launch",
        [False, True, False],
        [P(0), P(0), P(0), P(0), W(0), W(0), W(0), W(0), P(0), P(0), S(0), W(0), W(0), P(1), P(1), P(2), P(2), P(2), P(2), W(1), W(1), W(1), W(1), P(2), P(2),
         P(1), P(1), P(1), P(1), P(2), P(2), P(2), P(2), W(1), W(1), W(1), W(1), P(2), P(2), P(2)],
    ),
    (
        "gc-skips-held-lock",
        [False, True],
        [P(0), P(0), P(0), P(1), P(1), P(1), P(0), W(0), W(0), W(0), W(0), P(0), P(0)],
    ),
]


def translate(ctx: Any) -> None:
    from translate import t_c33_accept

    ctx.gen("G_Accept", lambda: t_c33_accept.coq_text(ctx.repo))


def _coq_opt(v: int | None) -> str:
    return "None" if v is None else f"(Some {v})"


_ACODE = {"tick": 0, "client": 1, "acc": 2, "accerr": 3, "hnd": 4, "tmr": 5}
_LCODE = {"proc": 0, "worker": 1, "stop": 2}


def _coq_sched(sch: list[tuple[Any, ...]], table: dict[str, int]) -> str:
    return "[" + "; ".join(f"({table[a[0]]}, {a[1] if len(a) > 1 else 0})" for a in sch) + "]"


def _coq_trace(tr: list[list[int]]) -> str:
    return "[" + "; ".join("[" + "; ".join(str(x) for x in o) + "]" for o in tr) + "]"


def _gen_accept_schedule(rng: Any, run: Any, idle: int | None, n: int) -> list[tuple[Any, ...]]:
    """Adaptive seeded schedule: mostly enabled actions (looked up in the running harness), some stutters."""
    sch: list[tuple[Any, ...]] = []
    for _ in range(n):
        cand: list[tuple[tuple[Any, ...], float]] = [(A, 5.0)]
        if run.sock.pending < 2 and len(run.handlers) < 5:
            cand.append((C, 2.0))
        for i, h in enumerate(run.handlers):
            if not h.entity.done:
                cand.append((H(i), 2.5))
        pending_deadlines = []
        for k, t in enumerate(run.timers):
            if not t.entity.done:
                due = run.sched.clock >= t.deadline
                cand.append((M(k), 3.0 if (due or t.cancelled or t.entity.label == "lock") else 0.3))
                if not due and not t.cancelled:
                    pending_deadlines.append(t.deadline - run.sched.clock)
        if pending_deadlines:
            cand.append((T(int(min(pending_deadlines))), 2.5))
            cand.append((T(max(1, int(min(pending_deadlines)) - 1)), 0.7))
        cand.append((T(1), 0.5))
        cand.append((("accerr",), 0.05))
        cand.append((H(rng.randrange(6)), 0.2))
        cand.append((M(rng.randrange(8)), 0.2))
        total = sum(w for _, w in cand)
        x = rng.random() * total
        for a, w in cand:
            x -= w
            if x <= 0:
                break
        run.step(a)
        sch.append(a)
        if run.acceptor.done and rng.random() < 0.3:
            break
    return sch


def _gen_launch_schedule(rng: Any, run: Any, n: int) -> list[tuple[str, int]]:
    sch: list[tuple[str, int]] = []
    for _ in range(n):
        cand: list[tuple[tuple[str, int], float]] = []
        for i, e in enumerate(run.procs):
            if not e.done:
                cand.append((P(i), 3.0))
        for i, w in enumerate(run.workers):
            if not w.entity.done:
                if w.entity.label == "accepting":
                    cand.append((S(i), 0.6))
                    cand.append((W(i), 0.1))
                else:
                    cand.append((W(i), 3.0))
        cand.append((P(rng.randrange(len(run.procs) + 1)), 0.2))
        cand.append((W(rng.randrange(3)), 0.2))
        cand.append((S(rng.randrange(3)), 0.1))
        total = sum(w for _, w in cand)
        x = rng.random() * total
        for a, w in cand:
            x -= w
            if x <= 0:
                break
        run.step(a)
        sch.append(a)
        if all(e.done for e in run.procs) and all(w.entity.done or w.entity.label == "accepting" for w in run.workers) and rng.random() < 0.25:
            break
    return sch


def replay(ctx: Any, data: dict[str, Any]) -> None:
    """Re-run exactly the recorded schedule (real code + oracle + model) instead of the whole sweep."""
    r = data.get("replay") or {}
    if "schedule" not in r:
        run(ctx)  # an obligations-only record: nothing narrower to replay
        return
    sch = [tuple(a) for a in r["schedule"]]
    kinds = r.get("kinds", r.get("kinds(False=launch,True=gc)"))
    if kinds is not None:
        ctx.c33_only = ("launcher", r.get("scenario", "replay"), list(kinds), sch)
    else:
        ctx.c33_only = ("accept", r.get("scenario", "replay"), r.get("idle_timeout"), r.get("max_connections"), sch)
    run(ctx)


def run(ctx: Any) -> None:
    import sys

    from translate import t_c33_accept
    from vlib.core import TranslationBroken

    translate(ctx)
    ctx.prove(
        ["prop/P_C33.vo", "tie/T_Accept.vo", "refuted/R_C33.vo"],
        {
            "P_C33": [
                "C33_stop_only_when_idle", "C33_break_enabled_only_idle", "C33_count_covers_threads",
                "C33_one_worker_per_hash", "C33_returned_path_accepting", "C33_listening_worker_reachable",
            ],
            "T_Accept": ["accept_flags_tie", "accept_consts_tie", "launcher_shape_tie", "C33_source_stop_only_when_idle"],
        },
    )

    ctx.log("proofs built")
    from harness import c33_sched as hs
    import vgi_rpc.launcher as lm
    import vgi_rpc.rpc._transport as tm

    if not str(Path(tm.__file__).resolve()).startswith(str(ctx.repo)):
        ctx.obligation("env:repo-under-test-imported", "environment", False, f"vgi_rpc imported from {tm.__file__}")
        return
    quick = ctx.tier == "quick"

    # ---------------------------------------------------------------- accept loop
    try:
        x = t_c33_accept.extract(ctx.repo)
        clear, guard, floor, sites = x["clear"], x["guard"], x["floor"], x["sites"]
        frange = None
    except TranslationBroken as e:
        # the loop is not the modelled one: no correspondence, but still search for a failing input with the oracle
        clear, guard, floor, sites = False, False, 60, None
        try:
            frange = t_c33_accept.final_range(ctx.repo)
        except Exception:  # noqa: BLE001
            frange = None
        ctx.notes.append(f"accept-loop translation broken ({e}); oracle-only runs of the real loop")
    ctx.rule = (
        "accept loop: (idle_timeout in {None,1,3,5,70}, max_connections in {None,1,2}) x schedule over {tick d, client, acc, accerr, hnd i, tmr k}: "
        "directed witnesses + seeded adaptive schedules of 20-70 actions; launcher: process kinds (launch/gc) x schedule over {proc i, worker w, stop w}; "
        "distinct by (configuration, schedule); non-trivial = at least one connection was accepted or a Timer fired / a worker was spawned"
    )
    a_cases: list[tuple[str, str]] = []
    a_meta: list[dict[str, Any]] = []
    harness_errors: list[str] = []

    def accept_oracle(name: str, idle: int | None, maxconn: int | None, sch: list[tuple[Any, ...]], info: dict[str, Any] | None) -> None:
        if info is None:
            return
        ctx.count("idle_breaks")
        replay = {"half": "accept-loop", "scenario": name, "idle_timeout": idle, "max_connections": maxconn, "schedule": [list(a) for a in sch], "at_break": info,
                  "how": "harness.c33_sched.run_accept(vgi_rpc.rpc._transport, sites, idle, maxconn, schedule)"}
        if info["open_connections"] > 0:
            ctx.violation(
                "loop-breaks-while-connection-served",
                "the threaded accept loop left on shutdown_requested while a connection it accepted was still being served",
                replay,
            )
        elif info["clock"] - info["zero_connections_since"] < info["timeout_that_applies"]:
            ctx.violation(
                "loop-breaks-before-idle-timeout-elapsed",
                "the threaded accept loop left on shutdown_requested although fewer than idle_timeout seconds passed since the last connection went away",
                replay,
            )

    def one_accept(name: str, idle: int | None, maxconn: int | None, sch: list[tuple[Any, ...]] | None, length: int = 0) -> None:
        if sites is None and frange is None:
            return
        try:
            if sch is not None:
                tr, info = hs.run_accept(tm, sites, idle, maxconn, sch, frange)
            else:
                r = hs.AcceptRun(tm, sites, idle, maxconn, frange)
                try:
                    sch = _gen_accept_schedule(ctx.rng, r, idle, length)
                    info = r.break_info
                finally:
                    r.close()
                # replay the recorded schedule from scratch: the run must be reproducible step by step
                tr, info2 = hs.run_accept(tm, sites, idle, maxconn, sch, frange)
                if info2 != info:
                    raise hs.HarnessError(f"non-deterministic replay: {info} vs {info2}")
        except hs.HarnessError as e:
            harness_errors.append(f"{name}: {e}")
            return
        ctx.count("impl_runs")
        ctx.count("impl_steps", len(sch))
        nontriv = any(o[1] > 0 or o[2] for o in tr) or sites is None
        ctx.case(["accept", idle, maxconn, [list(a) for a in sch]], nontrivial=nontriv)
        ctx.tally("accept.idle_timeout", idle)
        ctx.tally("accept.max_connections", maxconn)
        ctx.tally("accept.outcome", "idle-break" if info else ("oserror" if tr and tr[-1][7] else "running-or-unobserved"))
        accept_oracle(name, idle, maxconn, sch, info)
        if sites is None:
            return
        inp = f"(({str(clear).lower()}, {str(guard).lower()}), ({_coq_opt(idle)}, {_coq_opt(maxconn)}), {floor}, {_coq_sched(sch, _ACODE)})"
        a_cases.append((inp, _coq_trace(tr)))
        a_meta.append({"scenario": name, "idle_timeout": idle, "max_connections": maxconn, "schedule": [list(a) for a in sch], "impl_trace": tr})

    only = getattr(ctx, "c33_only", None)  # set by replay(): exactly one recorded scenario
    accept_directed = ACCEPT_DIRECTED if only is None else ([only[1:]] if only[0] == "accept" else [])
    for name, idle, maxconn, sch in accept_directed:
        one_accept(name, idle, maxconn, sch)
    n_rand = 0 if only is not None else (110 if quick else 800)
    for i in range(n_rand):
        idle = ctx.rng.choice([None, 1, 3, 5, 5, 70])
        maxconn = ctx.rng.choice([None, None, 1, 2])
        one_accept(f"random-{i}", idle, maxconn, None, ctx.rng.randrange(20, 70))
    ctx.sample({"half": "accept", "scenario": "flag-not-cleared", "idle": 5, "schedule": [list(a) for a in W_FLAG]})
    ctx.sample({"half": "accept", "scenario": "stale-timer", "idle": 5, "schedule": [list(a) for a in W_STALE]})

    ctx.log(f"accept loop: {len(a_cases)} controlled runs of the real code done")
    header = "From Coq Require Import List NArith Bool.\nFrom VGI Require Import M_Accept Corr.\nImport ListNotations.\nOpen Scope N_scope."
    if only is not None and only[0] != "accept":
        pass
    elif a_cases:
        ok, bad, clog = ctx.coq_mismatches(
            header, "run_case", "list_eqb (list_eqb N.eqb)", a_cases,
            "(bool * bool) * (option N * option N) * N * list (N * N)", "list (list N)", shard=40,
        )
        ctx.count("model_cases", len(a_cases))
        ctx.obligation("correspondence:M_Accept.run_case", "correspondence", ok and not bad, clog if not ok else f"{len(bad)} of {len(a_cases)} schedules disagree")
        for i in bad[:3]:
            shown = ctx.coq_show(header, f"run_case {a_cases[i][0]}")
            ctx.violation("model-impl-disagree-accept-loop", "real accept loop and model differ on a schedule", {**a_meta[i], "model_trace": shown[-1500:]})
    else:
        ctx.obligation("correspondence:M_Accept.run_case", "correspondence", False, "accept loop is not the modelled one (oracle-only runs)" if sites is None else "no accept-loop run could be driven: " + "; ".join(harness_errors[:3]))

    ctx.log("accept loop: model evaluated")
    # ---------------------------------------------------------------- launcher
    base = "/dev/shm" if os.path.isdir("/dev/shm") and os.access("/dev/shm", os.W_OK) else tempfile.gettempdir()
    l_cases: list[tuple[str, str]] = []
    l_meta: list[dict[str, Any]] = []
    flock_ok = True

    def launch_oracle(name: str, kinds: list[bool], sch: list[tuple[str, int]], info: dict[str, Any]) -> None:
        nonlocal flock_ok
        replay = {"half": "launcher", "scenario": name, "kinds(False=launch,True=gc)": kinds, "schedule": [list(a) for a in sch], "observed": info,
                  "how": "harness.c33_sched.run_launcher(vgi_rpc.launcher, vgi_rpc.rpc._transport, kinds, schedule, base_dir)"}
        if info["flock_double"] is not None:
            flock_ok = False
        if info["max_alive"] > 1 or any(s["alive_before"] for s in info["spawns"]):
            ctx.violation("second-worker-spawned-while-one-alive", "two workers of one command hash were alive at once", replay)
        if info["live_unreachable"]:
            ctx.violation(
                "live-worker-socket-unlinked",
                "the socket path of a worker whose listener is open no longer names that worker (someone unlinked/replaced it): "
                "the worker is alive but unreachable, the next launch spawns a second one",
                replay,
            )
        if any(not r["accepting_at_decision"] for r in info["returns"]):
            ctx.violation("returned-path-not-accepting", "launch() returned a socket path on which no worker was accepting at the deciding moment", replay)

    def one_launch(name: str, kinds: list[bool], sch: list[tuple[str, int]] | None, length: int = 0, base_dir: str = base) -> tuple[Any, Any]:
        try:
            if sch is None:
                r = hs.LauncherRun(lm, tm, kinds, base_dir)
                hs._attach_spawner(r)
                try:
                    sch = _gen_launch_schedule(ctx.rng, r, length)
                finally:
                    r.close()
            tr, info = hs.run_launcher(lm, tm, kinds, sch, base_dir)
        except hs.HarnessError as e:
            harness_errors.append(f"{name}: {e}")
            return None, None
        ctx.count("impl_runs")
        ctx.count("impl_steps", len(sch))
        ctx.case(["launcher", kinds, [list(a) for a in sch]], nontrivial=info["spawn_count"] > 0)
        ctx.tally("launcher.processes", len(kinds))
        ctx.tally("launcher.spawns", info["spawn_count"])
        ctx.tally("launcher.returns", len(info["returns"]))
        launch_oracle(name, kinds, sch, info)
        kinds_c = "[" + "; ".join("true" if g else "false" for g in kinds) + "]"
        l_cases.append((f"({kinds_c}, {_coq_sched(sch, _LCODE)})", _coq_trace(tr)))
        l_meta.append({"scenario": name, "kinds": kinds, "schedule": [list(a) for a in sch], "impl_trace": tr})
        return tr, info

    launch_directed = LAUNCH_DIRECTED if only is None else ([only[1:]] if only[0] == "launcher" else [])
    for name, kinds, sch in launch_directed:
        one_launch(name, kinds, sch)
    kinds_pool = [[False, False], [False, False, False], [False, True, False], [False, False, True, False], [True, False, False]]
    for i in range(0 if only is not None else (36 if quick else 300)):
        one_launch(f"random-{i}", ctx.rng.choice(kinds_pool), None, ctx.rng.randrange(25, 80))
    ctx.sample({"half": "launcher", "scenario": LAUNCH_DIRECTED[0][0], "kinds": LAUNCH_DIRECTED[0][1], "schedule": [list(a) for a in LAUNCH_DIRECTED[0][2]]})
    ctx.log(f"launcher: {len(l_cases)} controlled runs of the real code done")
    ctx.obligation("env:flock-mutual-exclusion", "environment", flock_ok, "the real filelock granted the per-hash lock to two holders at once")
    if only is not None and only[0] != "launcher":
        pass
    elif l_cases:
        ok, bad, clog = ctx.coq_mismatches(header, "run_case_l", "list_eqb (list_eqb N.eqb)", l_cases, "list bool * list (N * N)", "list (list N)", shard=30)
        ctx.count("model_cases", len(l_cases))
        ctx.obligation("correspondence:M_Accept.run_case_l", "correspondence", ok and not bad, clog if not ok else f"{len(bad)} of {len(l_cases)} schedules disagree")
        for i in bad[:3]:
            shown = ctx.coq_show(header, f"run_case_l {l_cases[i][0]}")
            ctx.violation("model-impl-disagree-launcher", "real launcher/worker code and model differ on a schedule", {**l_meta[i], "model_trace": shown[-1500:]})
    else:
        ctx.obligation("correspondence:M_Accept.run_case_l", "correspondence", False, "no launcher run could be driven: " + "; ".join(harness_errors[:3]))
    ctx.obligation("harness:c33_sched", "harness", not harness_errors, "; ".join(harness_errors[:5]))

    # observation (not part of the verdict): on a filesystem that reuses inode numbers the exiting worker's identity
    # check passes for its successor's socket
    tmp = tempfile.gettempdir()
    if only is None and os.path.realpath(tmp) != os.path.realpath(base):
        name, kinds, sch = LAUNCH_DIRECTED[1]
        try:
            tr, info = hs.run_launcher(lm, tm, kinds, sch, tmp)
            unreachable = any(o[1] == 0 and 4 in o[o.index(99) + 1:] for o in tr)
            ctx.notes.append(
                f"inode-reuse observation on {tmp}: schedule '{name}' -> a listening worker whose socket path was unlinked by its predecessor's exit cleanup: {unreachable}"
            )
        except hs.HarnessError as e:
            ctx.notes.append(f"inode-reuse observation on {tmp}: harness could not interpret the run ({e})")

    ctx.assumptions += [
        "flock mutual exclusion (Section hypothesis of the launcher theorems); validated against the real filelock on every explored schedule",
        "code between two scheduling points is atomic w.r.t. the other threads: in the accept loop every access to conn_count/timer/shutdown_requested/active is inside `with state_lock`",
        "threading.Timer semantics: the callback runs iff the Timer was not cancelled before its wait elapsed; cancel() after that has no effect (CPython threading.Timer.run)",
        "a worker's exit cleanup is one step and socket inode numbers are not reused while a previous owner runs (harness sockets live on tmpfs)",
        "accept() returns a pending connection if there is one, else times out; an OSError from accept() is an environment fault outside the quantifier",
        "serve_named_pipe (Windows) is not covered",
    ]
    del sys
