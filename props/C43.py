"""C43 XFCC identity extraction is injection-proof.

proof         : coq/prop/P_C43.v over model/M_Xfcc.v (split / unescape / parse / extract_cn / authenticate, urllib unquote)
regenerated   : translate/t_c43_xfcc.py -> gen/G_Xfcc.v : header name, the missing-header guard expression, both AuthReason
                values, the selection expression, delimiters, key names, regex literals; tie/T_Xfcc.v proves them equal to
                the modelled ones and restates the reason theorem over the regenerated guard
correspondence: the real _split_respecting_quotes, _unescape_quoted, urllib.parse.unquote, _extract_cn, _parse_xfcc and
                mtls_authenticate_xfcc(select_element=first|last)(falcon.Request) against M_Xfcc.run_case_with gen_guard on
                headers printed from the XFCC grammar (with optional white space), seeded mutations of them and arbitrary
                strings over an alphabet of delimiters / quotes / escapes / percent signs / Unicode white space
oracle        : independent of the model: grammar round trip, metamorphic independence from unselected elements,
                join/split laws, reason codes (function level and through the Falcon app)

Readings adopted (statement leaves room):
  * "element" of an arbitrary (possibly malformed) string = a maximal segment between commas that are outside double
    quotes, as scanned from the left.  An unterminated quote therefore extends to the end of the header; the theorems
    about prefixes carry the visible premise that the prefix is `closed` (scan ends outside quotes).
  * "a missing or empty header is rejected with proxy_required or invalid_credential respectively": missing = the header is
    absent (get_header -> None) -> proxy_required; empty = present without any element: the zero-length value, white
    space, or only commas -> invalid_credential.  The code's own second guard message is "Empty x-forwarded-client-cert
    header" for exactly that class; the zero-length value is the one member of the class that the first guard
    (`if not header_value`) intercepts and reports as proxy_required.
  * str.lower()/str.upper() are modelled by their ASCII restriction; checked on the runtime tables that no other code
    point lowers into a letter of the six field names / uppers into "C", "N" or "=".
"""
from __future__ import annotations

import re
import urllib.parse
from typing import Any, Protocol

META = {
    "id": "C43",
    "technique": "Coq proof (quote-aware splitter as a state machine, printer/parser round trip, compositionality over all strings) "
    "+ regenerated guards/constants tie + differential correspondence",
    "level_text": "Coq theorems: parse(print es) = meaning(es) for every element list of the XFCC grammar (any key spelling, quoted values "
    "with arbitrary content, bare values, any percent-decoder); for ALL strings the splitter loses nothing, cuts only at "
    "delimiters outside quotes, is the unique such decomposition and composes over closed prefixes, so the identity with "
    "first/last selection is a function of the selected raw element only; reason codes: absent -> proxy_required, present "
    "without element -> invalid_credential (for the zero-length value only under the `is None` guard; the guard is "
    "regenerated from the source on every run).",
    "level_note": "Trusted: Coq kernel (vm_compute), t_c43_xfcc translator, harness; modelled and tied by correspondence only: "
    "str.strip/lower/upper (tables checked against the runtime), re.sub/re.split on two one-character regexes, "
    "urllib.parse.unquote incl. UTF-8 'replace' decoding, falcon get_header.",
    "design_ref": "§5 C43",
}

HDR = "x-forwarded-client-cert"
KEYS = ["Hash", "Cert", "Subject", "URI", "DNS", "By"]
SPACES = [" ", "\t", "\xa0", "\u2003", "\x1f", "\x0b", "\u3000", "\x85"]
ALPHA = list('",;=\\% ') + list("aCNcn=DNSdns") + ["\n", "\t", " ", "é", "K", "%2C", "%22", "%3B", "%C3", "%A9", "%e2%82%ac", "%F0%9F", "%ZZ", "\\\"", "\\\\", '""', "CN=", "Subject=", "Hash=", ";", ","]


class C43Proto(Protocol):
    def f(self, a: int) -> int: ...


class _C43Impl:
    def f(self, a: int) -> int:
        return a + 1


def translate(ctx: Any) -> None:
    from translate import t_c43_xfcc

    ctx.gen("G_Xfcc", lambda: t_c43_xfcc.coq_text(ctx.repo))


# --------------------------------------------------------------------------- independent reference pieces (oracle side)
def py_closed(s: str) -> bool:
    """Does a left-to-right scan of s end outside double quotes?  (written from the Envoy grammar, not from the model)"""
    inq = False
    i = 0
    while i < len(s):
        ch = s[i]
        if ch == '"':
            inq = not inq
        elif ch == "\\" and inq and i + 1 < len(s):
            i += 1
        i += 1
    return not inq


def py_quote(v: str) -> str:
    return '"' + v.replace("\\", "\\\\").replace('"', '\\"') + '"'


def sem_elem(items: list[tuple[str, bool, str]]) -> dict[str, Any]:
    e: dict[str, Any] = {"hash": None, "cert": None, "subject": None, "uri": None, "dns": [], "by": None}
    for key, _q, value in items:
        k = key.strip().lower()
        if k == "dns":
            e["dns"].append(value)
        elif k in ("cert", "uri", "by"):
            e[k] = urllib.parse.unquote(value)
        elif k in ("hash", "subject"):
            e[k] = value
    return e


def elem_dict(x: Any) -> dict[str, Any]:
    return {"hash": x.hash, "cert": x.cert, "subject": x.subject, "uri": x.uri, "dns": list(x.dns), "by": x.by}


def gen_value(rng: Any, quoted: bool) -> str:
    n = rng.choice([0, 1, 2, 3, 5, 8, 12])
    if quoted:
        alpha = ALPHA + SPACES
        return "".join(rng.choice(alpha) for _ in range(n))
    alpha = [a for a in ALPHA + ["x", "y", "/", ":", "spiffe://a/b"] if not (set(a) & set('",;'))]
    v = "".join(rng.choice(alpha) for _ in range(n))
    return v.strip()


def gen_dn(rng: Any) -> tuple[str, str]:
    """An RFC 4514-like DN and the CN it carries ('' when none)."""
    rdns = []
    cn = None
    for _ in range(rng.randint(1, 4)):
        attr = rng.choice(["CN", "cn", "Cn", "O", "OU", "C", "DC", "XCN"])
        val = "".join(rng.choice(["a", "b", "\\,", " ", "=", '"', ";", "x", "\\\\x", "é"]) for _ in range(rng.randint(0, 5))).strip()
        if val.endswith("\\"):
            val += "z"
        rdns.append(f"{attr}={val}")
        if attr.upper() == "CN" and cn is None:
            cn = val
    ws = rng.choice(["", " ", ""])
    return ("," + ws).join(rdns), cn or ""


def gen_items(rng: Any) -> tuple[list[tuple[str, bool, str]], str | None]:
    items: list[tuple[str, bool, str]] = []
    cn_expect: str | None = None
    for _ in range(rng.choice([1, 1, 2, 3, 4, 6])):
        base = rng.choice(KEYS + KEYS + ["Chain", "x", "K", "K", "", "SUBJECT ", "hash"])
        key = rng.choice([base, base.lower(), base.upper()])
        key = "".join(c for c in key if c not in '",;=').strip()
        quoted = rng.random() < 0.6
        if key.lower() == "subject" and rng.random() < 0.6:
            value, cn = gen_dn(rng)
            quoted = True
            cn_expect = cn if value else None
        else:
            value = gen_value(rng, quoted)
            if key.lower() == "subject":
                cn_expect = None
        items.append((key, quoted, value))
    # cn_expect is only meaningful when the LAST subject item came from gen_dn
    last_subject = [it for it in items if it[0].lower() == "subject"]
    if not last_subject or cn_expect is None:
        cn_expect = None
    return items, cn_expect


def print_elem(items: list[tuple[str, bool, str]], rng: Any | None = None) -> str:
    def ows() -> str:
        return rng.choice(["", "", "", " ", "\t", " "]) if rng is not None else ""

    out = []
    for key, quoted, value in items:
        out.append(ows() + key + ows() + "=" + ows() + (py_quote(value) if quoted else value) + ows())
    return ";".join(out)


def mk_req(h: str | None) -> Any:
    import falcon
    import falcon.testing

    env = falcon.testing.create_environ()
    if h is not None:
        env["HTTP_X_FORWARDED_CLIENT_CERT"] = h
    return falcon.Request(env)


def run(ctx: Any) -> None:
    from vlib.coqterm import cN, cbool, clist, copt, cstr

    translate(ctx)
    ctx.prove(
        ["gen/G_Xfcc.vo", "prop/P_C43.vo", "tie/T_Xfcc.vo", "refuted/R_C43.vo"],
        {
            "P_C43": [
                "C43_print_parse", "C43_print_parse_records", "C43_unquote_roundtrip_ascii", "C43_print_parse_concrete",
                "C43_split_lossless", "C43_split_only_outside_quotes", "C43_split_unique", "C43_quoted_value_never_splits",
                "C43_no_merge_after_closed", "C43_parse_compositional",
                "C43_selected_only", "C43_first_ignores_suffix", "C43_last_ignores_prefix",
                "C43_reasons", "C43_reasons_partial", "C43_success_iff_element",
            ],
            "T_Xfcc": ["xfcc_constants_tie", "C43_source_reasons", "C43_source_reasons_full_if_is_none", "C43_source_selected_only"],
            "R_C43": ["C43_empty_header_refuted"],
        },
    )

    ctx.log("proofs checked")
    from vgi_rpc.http import _mtls
    from vgi_rpc.http._unauthorized import AuthFailure
    from translate import t_c43_xfcc

    # ---- environment facts the model leans on ------------------------------------------------
    m = re.search(r"space_table : list \(N \* N\) :=\s*\[(.*?)\]\.", (ctx.bdir / "model" / "M_Xfcc.v").read_text(), re.S)
    table: set[int] = set()
    if m:
        for lo, hi in re.findall(r"\((\d+), (\d+)\)", m.group(1)):
            table |= set(range(int(lo), int(hi) + 1))
    runtime = {c for c in range(0x110000) if chr(c).isspace()}
    strip_ok = all(("x" + chr(c)).strip() == "x" for c in runtime) and all((chr(c) + "x").strip() == "x" for c in runtime)
    ctx.obligation("env:str-isspace-table", "environment", bool(m) and table == runtime and strip_ok, f"model table {sorted(table ^ runtime)[:10]} differs from the runtime")
    key_letters = set("hashcertsubjecturidnsby")
    bad_lower = [c for c in range(0x110000) if not (65 <= c <= 90) and chr(c).lower() != chr(c) and chr(c).lower().isascii() and set(chr(c).lower()) & key_letters]
    bad_lower += [c for c in range(65, 91) if chr(c).lower() != chr(c + 32)] + [c for c in range(97, 123) if chr(c).upper() != chr(c - 32)]
    sigma_ok = "hashΣ".lower() != "hash"  # the only context-sensitive lowering (final sigma) never yields ASCII
    ctx.obligation("env:lower-ascii-on-field-names", "environment", not bad_lower and sigma_ok, f"code points lowering into field-name letters: {bad_lower[:5]}")
    bad_upper = [c for c in range(0x110000) if not (97 <= c <= 122) and chr(c).upper() != chr(c) and chr(c).upper()[0] in "CN="]
    ctx.obligation("env:upper-ascii-on-CN-prefix", "environment", not bad_upper, f"code points uppering into C/N/=: {bad_upper[:5]}")

    try:
        src = t_c43_xfcc.extract(ctx.repo)
        guard = src["guard"]
    except Exception:  # noqa: BLE001 - already recorded as a broken translation
        guard = None

    auth = {True: _mtls.mtls_authenticate_xfcc(select_element="first"), False: _mtls.mtls_authenticate_xfcc(select_element="last")}

    def identity(first: bool, h: str | None) -> tuple[Any, ...]:
        req = mk_req(h)
        if req.get_header(HDR) != h:
            raise RuntimeError("harness: falcon.Request does not hand the header value through unchanged")
        try:
            a = auth[first](req)
        except AuthFailure as e:
            return ("fail", e.reason.value)
        except Exception as e:  # noqa: BLE001
            return ("raised", type(e).__name__)
        c = a.claims
        extra = sorted(set(c) - {"hash", "subject", "uri", "dns", "by"})
        return ("ok", a.principal, c.get("hash"), c.get("subject"), c.get("uri"), c.get("by"), tuple(c.get("dns", ())), a.domain, a.authenticated, tuple(extra))

    cases: list[tuple[str, str]] = []
    seen: set[str] = set()

    def enc_opt(o: str | None) -> str:
        return "[0%N]" if o is None else "(1%N :: " + cstr(o) + ")"

    def add_case(inp: str, out: str, canon: Any, nontrivial: bool = True) -> None:
        if inp in seen:
            return
        seen.add(inp)
        cases.append((inp, out))
        ctx.case(canon, nontrivial=nontrivial)

    def strs(xs: Any) -> str:
        return clist(cstr(x) for x in xs)

    def case_split(d: str, s: str) -> list[str]:
        parts = _mtls._split_respecting_quotes(s, d)
        ctx.count("impl_runs")
        add_case(f"CSplit {cN(ord(d))} {cstr(s)}", "[" + strs(parts) + "]", ["split", d, s], nontrivial='"' in s or d in s)
        return parts

    def case_parse(s: str) -> list[dict[str, Any]]:
        els = [elem_dict(e) for e in _mtls._parse_xfcc(s)]
        ctx.count("impl_runs")
        out = clist(
            clist([enc_opt(e["hash"]), enc_opt(e["cert"]), enc_opt(e["subject"]), enc_opt(e["uri"]), enc_opt(e["by"])] + ["(1%N :: " + cstr(x) + ")" for x in e["dns"]])
            for e in els
        )
        add_case(f"CParse {cstr(s)}", out, ["parse", s], nontrivial=bool(els))
        return els

    def case_auth(first: bool, h: str | None) -> tuple[Any, ...]:
        r = identity(first, h)
        ctx.count("impl_runs")
        if r[0] == "fail":
            out = "[[[0%N]; " + cstr(r[1]) + "]]"
        elif r[0] == "ok":
            if r[7] != "mtls" or r[8] is not True or r[9]:
                ctx.violation("identity-shape", "AuthContext is not (domain mtls, authenticated, known claims)", {"header": h, "first": first, "result": repr(r)})
            out = "[[[1%N]]; " + clist([cstr(r[1]), enc_opt(r[2]), enc_opt(r[3]), enc_opt(r[4]), enc_opt(r[5])] + ["(1%N :: " + cstr(x) + ")" for x in r[6]]) + "]"
        else:
            out = "[[[9%N]]]"
            ctx.violation("authenticate-raises-other", f"authenticate raised {r[1]}", {"header": h, "first": first})
        add_case(f"CAuth {cbool(first)} {copt(None if h is None else cstr(h))}", out, ["auth", first, h], nontrivial=r[0] == "ok")
        return r

    def case_fn(tag: str, fn: Any, s: str) -> str:
        v = fn(s)
        ctx.count("impl_runs")
        add_case(f"{tag} {cstr(s)}", "[[" + cstr(v) + "]]", [tag, s], nontrivial=v != s)
        return v

    rng = ctx.rng
    quick = ctx.tier == "quick"
    N_GRAMMAR = 110 if quick else 2500
    N_ARB = 120 if quick else 3000
    N_FN = 70 if quick else 1200
    ctx.rule = (
        "cases = (function under test, input string): headers printed from the XFCC grammar (1-4 elements x 1-6 items, keys in "
        "any case incl. unknown ones, quoted values over an alphabet of delimiters/quotes/escapes/percent sequences/white space, "
        "bare values, DN subjects, optional white space around tokens), one-character mutations of them, concatenations "
        "a + ',' + b of arbitrary strings, the blank class; distinct by (function, input); non-trivial = the input makes the "
        "function do something (an element is produced / a quote or delimiter is present / the value changes)"
    )

    # ---- 1. reasons ----------------------------------------------------------------------------
    blank_class = ["", ",", " ", ",,", " , ", "\t, ,", ";", " ; , ;", ", "]
    r_missing = case_auth(True, None)
    case_auth(False, None)
    if r_missing != ("fail", "proxy_required"):
        ctx.violation("missing-header-wrong-reason", f"absent header -> {r_missing}", {"header": None})
    for h in blank_class:
        for first in (True, False):
            r = case_auth(first, h)
            ctx.tally("kind", "blank")
            has_elem = bool(_mtls._parse_xfcc(h))
            if has_elem:
                if r[0] != "ok":
                    ctx.violation("element-present-but-rejected", f"{h!r} -> {r}", {"header": h})
            elif r != ("fail", "invalid_credential"):
                if h == "":
                    ctx.violation(
                        "empty-header-reported-proxy-required",
                        "a present but zero-length x-forwarded-client-cert is rejected with reason "
                        f"{r[1] if len(r) > 1 else r!r}; the statement demands invalid_credential for an empty header",
                        {"header": "", "select_element": "first" if first else "last", "observed": list(r), "expected": ["fail", "invalid_credential"], "source_guard": guard},
                    )
                else:
                    ctx.violation("blank-header-wrong-reason", f"{h!r} -> {r}", {"header": h, "observed": list(r)})

    # the same through the Falcon app (reason code on the 401)
    try:
        from vgi_rpc.http._testing import make_sync_client
        from vgi_rpc.rpc import RpcServer

        client = make_sync_client(RpcServer(C43Proto, _C43Impl()), authenticate=_mtls.mtls_authenticate_xfcc(), token_key=b"k" * 32)
        for h, want in ((None, "proxy_required"), (",", "invalid_credential"), (" , ", "invalid_credential")):
            resp = client.post("/f", content=b"", headers={} if h is None else {HDR: h})
            ctx.count("impl_runs")
            got = resp.headers.get("vgi-auth-reason")
            if resp.status_code != 401 or got != want:
                ctx.violation("app-reason-" + want, f"app answers {resp.status_code} reason {got!r} for header {h!r}", {"header": h, "status": resp.status_code, "reason": got})
        ctx.obligation("harness:app-level-reasons", "environment", True, "")
    except Exception as e:  # noqa: BLE001
        ctx.obligation("harness:app-level-reasons", "environment", False, f"{type(e).__name__}: {e}")

    # ---- 2. grammar ------------------------------------------------------------------------------
    for gi in range(N_GRAMMAR):
        n_el = rng.choice([1, 1, 2, 2, 3, 4])
        els = [gen_items(rng) for _ in range(n_el)]
        loose = rng.random() < 0.4
        texts = [print_elem(items, rng if loose else None) for items, _ in els]
        sep = [rng.choice(["", " ", "\t"]) if loose else "" for _ in texts]
        header = ",".join(s + t for s, t in zip(sep, texts))
        ctx.tally("kind", "grammar-loose" if loose else "grammar-strict")
        ctx.tally("elements", n_el)
        expect = [sem_elem(items) for items, _ in els]
        got = case_parse(header)
        if got != expect:
            ctx.violation("grammar-parse-differs", "parse(print(es)) differs from the meaning of es (split or merge of elements / values)", {"header": header, "expected": expect, "got": got})
        for first in (True, False):
            whole = case_auth(first, header)
            idx = 0 if first else -1
            alone = case_auth(first, texts[idx])
            if whole != alone:
                ctx.violation("identity-depends-on-unselected-element", "identity with the other elements present differs from the identity of the selected element alone", {"header": header, "select_element": "first" if first else "last", "selected": texts[idx], "whole": repr(whole), "alone": repr(alone)})
            e = expect[idx]
            if alone[0] == "ok":
                want = (e["hash"] or None, e["subject"] or None, e["uri"] or None, e["by"] or None, tuple(e["dns"]))
                if alone[2:7] != want:
                    ctx.violation("claims-differ-from-selected-element", "claims are not the fields of the selected element", {"header": texts[idx], "want": repr(want), "got": repr(alone[2:7])})
                cn = els[idx][1]
                if cn is not None and e["subject"] and alone[1] != cn:
                    ctx.violation("principal-differs-from-cn", "principal is not the CN of the selected element's subject", {"header": texts[idx], "want": cn, "got": alone[1]})
            else:
                ctx.violation("grammar-header-rejected", "a grammar header was rejected", {"header": texts[idx], "got": repr(alone)})
        # replace the unselected elements by other ones: identity must not move
        if n_el >= 2:
            other = [print_elem(gen_items(rng)[0]) for _ in range(rng.randint(1, 3))]
            h1 = ",".join([texts[0]] + other)
            if case_auth(True, h1) != case_auth(True, texts[0]):
                ctx.violation("identity-depends-on-unselected-element", "first-selected identity moved when later elements were replaced", {"header": h1})
            h2 = ",".join(other + [texts[-1]])
            if case_auth(False, h2) != case_auth(False, texts[-1]):
                ctx.violation("identity-depends-on-unselected-element", "last-selected identity moved when earlier elements were replaced", {"header": h2})
        # quoted values never split
        for items, _ in els[:1]:
            for key, quoted, value in items[:2]:
                qv = py_quote(value)
                for d in ",;":
                    parts = case_split(d, key + "=" + qv + d + "Z")
                    if parts != [key + "=" + qv, "Z"]:
                        ctx.violation("quoted-value-split-or-merged", f"splitting on {d!r} around a quoted value gives {parts!r}", {"text": key + "=" + qv + d + "Z", "delimiter": d})
        # one-character mutation of the header (arbitrary-string neighbourhood of the grammar)
        if header:
            s = list(header)
            pos = rng.randrange(len(s) + 1)
            k = rng.randrange(3)
            if k == 0:
                s.insert(pos, rng.choice(ALPHA))
            elif k == 1:
                del s[min(pos, len(s) - 1)]
            else:
                s[min(pos, len(s) - 1)] = rng.choice(ALPHA)
            mut = "".join(s)
            ctx.tally("kind", "mutation")
            case_parse(mut)
            case_auth(rng.random() < 0.5, mut)

    # ---- 3. arbitrary strings ---------------------------------------------------------------------
    def arb(n: int) -> str:
        return "".join(rng.choice(ALPHA + SPACES) for _ in range(n))

    for _ in range(N_ARB):
        a, b = arb(rng.randint(0, 10)), arb(rng.randint(0, 10))
        ctx.tally("kind", "arbitrary")
        for d in ",;":
            s = a + d + b
            parts = case_split(d, s)
            if d.join(parts) != s:
                ctx.violation("split-loses-characters", "joining the parts does not give the text back", {"text": s, "delimiter": d, "parts": parts})
            for i, p in enumerate(parts):
                if _mtls._split_respecting_quotes(p, d) != [p]:
                    # a part may only re-split when it is the unterminated tail seen from a different quote state: never
                    ctx.violation("part-resplits", "a returned part still contains a delimiter outside quotes", {"text": s, "delimiter": d, "part": p})
                if i < len(parts) - 1 and not py_closed(p):
                    ctx.violation("split-inside-quotes", "a cut was made inside a quoted value", {"text": s, "delimiter": d, "part": p})
            if py_closed(a) and parts != _mtls._split_respecting_quotes(a, d) + _mtls._split_respecting_quotes(b, d):
                ctx.violation("merge-after-closed-prefix", "a delimiter after a closed prefix did not separate", {"a": a, "b": b, "delimiter": d})
        h = a + "," + b
        pa, pb = _mtls._parse_xfcc(a), _mtls._parse_xfcc(b)
        whole = case_parse(h)
        if py_closed(a):
            if whole != [elem_dict(x) for x in pa + pb]:
                ctx.violation("parse-not-compositional", "parse(a + ',' + b) differs from parse(a) + parse(b) for a closed a", {"a": a, "b": b})
            if pa and case_auth(True, h) != case_auth(True, a):
                ctx.violation("identity-depends-on-unselected-element", "first-selected identity depends on the text after a closed prefix", {"a": a, "b": b})
            if pb and case_auth(False, h) != case_auth(False, b):
                ctx.violation("identity-depends-on-unselected-element", "last-selected identity depends on the closed text before it", {"a": a, "b": b})
        else:
            case_auth(rng.random() < 0.5, h)

    # ---- 4. the leaf functions on their own --------------------------------------------------------
    for _ in range(N_FN):
        s = arb(rng.randint(0, 12))
        case_fn("CUnesc", _mtls._unescape_quoted, s)
        case_fn("CCn", _mtls._extract_cn, s)
        dn, cn = gen_dn(rng)
        if case_fn("CCn", _mtls._extract_cn, dn) != cn:
            ctx.violation("principal-differs-from-cn", "_extract_cn of a generated DN is not its first CN", {"subject": dn, "want": cn})
        u = "".join(rng.choice(["%", "%C3%A9", "%e2", "%82", "%AC", "%F0%9F%98%80", "%ED%A0%80", "%C0%AF", "%F4%90", "a", "é", "€", "%2", "%g1", "%41", "%FF", "%80", "%E0%80", "%F0%90%80"]) for _ in range(rng.randint(0, 7)))
        case_fn("CUnquote", urllib.parse.unquote, u)
        v = arb(rng.randint(0, 8))
        if _mtls._unescape_quoted(py_quote(v)[1:-1]) != v and "\n" not in v:
            ctx.violation("unescape-not-inverse-of-escape", "unescape(escape(v)) != v", {"v": v})
    ctx.sample({"header": 'Hash=a;Subject="CN=x\\, y;z=\\"q\\"",Subject="CN=proxy"', "first": "principal 'x\\, y;z=\"q\"'", "last": "principal 'proxy'"})
    ctx.sample({"header": "", "expected": "invalid_credential", "note": "see violation key empty-header-reported-proxy-required"})
    ctx.sample({"header": None, "expected": "proxy_required"})

    ctx.log(f"implementation side done: {len(cases)} cases")
    # ---- model side ------------------------------------------------------------------------------
    hdr = "From Coq Require Import List NArith Bool.\nFrom VGI Require Import M_Xfcc G_Xfcc Corr.\nImport ListNotations.\nOpen Scope N_scope."
    ok, bad, clog = ctx.coq_mismatches(hdr, "run_case_with gen_guard", "list_eqb (list_eqb bytes_eqb)", cases, "case_in", "list (list (list N))")
    ctx.count("model_cases", len(cases))
    ctx.obligation("correspondence:M_Xfcc.run_case_with", "correspondence", ok and not bad, clog if not ok else f"{len(bad)} of {len(cases)} cases disagree")
    for i in bad[:5]:
        shown = ctx.coq_show(hdr, f"run_case_with gen_guard ({cases[i][0]})")
        ctx.violation("model-impl-disagree", "implementation and model decide differently", {"case": cases[i][0], "impl": cases[i][1], "model": shown[-800:]})
    ctx.assumptions += [
        "str.strip() = M_Xfcc.strip over space_table (table equal to the runtime's str.isspace: checked)",
        "key.lower() == <field name> iff ASCII-lower(key) == <field name>; part.upper().startswith('CN=') iff the first three characters are c/C, n/N, '=' (runtime tables: checked)",
        "re.sub(r'\\\\(.)', r'\\1', t) and re.split(r'(?<!\\\\),', s) are modelled by hand (literals regenerated and tied; behaviour by correspondence)",
        "urllib.parse.unquote (percent decoding + UTF-8 errors='replace') is modelled by hand; the structural theorems hold for any decoder",
        "req.get_header hands the WSGI value through unchanged (asserted per case); WSGI servers deliver latin-1 strings, the model covers all code points",
        f"missing-header guard found in the source: {guard}",
    ]
