"""C36 Token introspection endpoint enforces its guards.

proof         : coq/prop/P_C36.v over model/M_TokIntrospect.v -- the endpoint as an interpreter over the guard/action
                skeleton of on_post, the ordered checks of _read_token, the JWS regex (lib/Regex.v semantics) and the
                two size limits; theorems for every caller, allowlist, body, limiter state and resolver *function*.
regenerated   : translate/t_c36_introspect.py -> gen/G_TokIntrospect.v (regex, limits, on_post skeleton, _read_token
                checks, _refuse / disabled-responder shape, bodies of _usable_ttl / token_digest, the factory route, and a
                taint rule: the subject credential may only occur in five whitelisted expressions);
                tie/T_TokIntrospect.v proves the regenerated record equal to the modelled one and restates the theorems.
correspondence: the real Falcon app (make_wsgi_app) with a scripted authenticator and a scripted resolver (identity with
                every ttl shape, None, AuthUnavailableError, other exceptions) vs the Coq model on
                callers x bodies x resolver outcomes x {enabled, disabled} x {limiter never reached, limit 0}:
                status, endpoint headers, body, log records (digest flag, texts) and the resolver call log.
oracle        : the statement evaluated directly on what the real app answered (independent of the model).

Readings adopted where the statement leaves room (module-level so that they are visible):
  * "403 to every caller outside the allowlist" is about the endpoint: a request the authentication middleware
    already rejected (401) never reaches it; for such requests only the safety part is checked (resolver not
    consulted, credential absent).
  * resolver outcome "other exception": the statement names no status; the code answers falcon's generic 500 and the
    check demands a 5xx that asserts no identity.  An identity whose ttl_seconds is not a finite positive number may
    not be emitted; what is answered instead is not prescribed (the repaired code answers the same generic 500).
  * "the subject credential never appears in any response": the endpoint adds no flow from the credential to the
    response or the log (Coq: non-interference; here: a unique marker inside the credential is searched in status
    line, headers, body, log records and wsgi.errors).  Strings the *resolver* chooses to return are the resolver's.
  * "byte-identical": status, body bytes and the header set except the per-request X-Request-ID.
  * the rate limiter's 429 is outside the statement (DESIGN Appendix E); it is modelled and corresponded, not judged.
  * resolvers that raise falcon.HTTPError subclasses (which falcon renders itself) and identities whose
    principal / token_name are not str are outside the resolver contract and not generated.
"""
from __future__ import annotations

import hashlib
import json
import math
from typing import Any

META = {
    "id": "C36",
    "technique": "Coq proof (interpreter over the regenerated guard skeleton, regex derivative semantics) + regenerated tie + differential correspondence on the real Falcon app",
    "level_text": "Coq theorems for all callers, allowlists, bodies, limiter states and resolver functions: 403 iff outside the "
    "allowlist; malformed / JWS-shaped / unknown subjects get one closed 404 value; malformed and JWS-shaped subjects never "
    "reach the resolver and nothing JWS-shaped ever does; 503 + Retry-After on unavailability; an identity response is exactly "
    "the three fields with a finite positive ttl; the credential does not flow into response or log (non-interference); the "
    "disabled worker answers one constant 404.  The skeleton, regex and limits in the theorems are regenerated from the "
    "source on every run (tie by reflexivity); rendering to bytes and Falcon are tied by the correspondence run.",
    "level_note": "Trusted: Coq kernel (vm_compute), the translators (t_regex, t_c36_introspect), the harness, json.loads / "
    "falcon request-stream semantics (classified by the harness), SHA-256 as 'not the credential'. The rate limiter's 429 "
    "is carried as hypothesis e_limiter_allows.",
    "design_ref": "§5 C36",
}

MAX_BODY = 8192
MAX_TOKEN = 4096
MARK = "S3cr3tMark"
B64 = "ABCXYZabcxyz0189_-"

OK_ID = {"kind": "identity", "principal": "alice@example.com", "token_name": "laptop", "ttl": 300}


# ---------------------------------------------------------------------------
# generators
# ---------------------------------------------------------------------------

def _ttl_values() -> list[Any]:
    return [300, 1, 0, -5, 10**30, -(10**30), True, False, 1.5, 0.0, -0.0, -2.5, 5e-324, 1.7976931348623157e308, 300.0,
            float("nan"), float("inf"), float("-inf"), "300", None, [1]]


def _resolvers() -> list[dict[str, Any]]:
    out: list[dict[str, Any]] = [{"kind": "none"}]
    for t in _ttl_values():
        out.append({"kind": "identity", "principal": "alice@example.com", "token_name": "laptop", "ttl": t})
    out += [
        {"kind": "identity", "principal": "", "token_name": "", "ttl": 60},
        {"kind": "identity", "principal": 'q"uo\\te\n√', "token_name": "né ", "ttl": 7},
        {"kind": "unavailable", "detail": "backing store unreachable", "retry_after": 7},
        {"kind": "unavailable", "detail": "", "retry_after": 5},
        {"kind": "unavailable", "detail": 'dówn "now"', "retry_after": 0},
        {"kind": "unavailable", "detail": "x", "retry_after": 120},
    ]
    out += [{"kind": "raise", "exc": e} for e in ("RuntimeError", "ValueError", "KeyError", "PermissionError", "OSError", "TypeError", "TimeoutError", "LookupError")]
    return out


def _tokens(rng: Any, n_random: int) -> list[str]:
    m = MARK
    toks = [
        f"opaque-{m}-credential", f"{m}", f"{m}!!not-a-token!!", f" {m}", f"{m} ", f"{m}\n", f"tok={m}==",
        # JWS-shaped and near misses
        f"eyJhbGciOiJIUzI1NiJ9.{m}.c2ln", f"{m}.b.", f"{m}.b.c\n", f"{m}.b.\n", f"a.b.c", "a.b.", "a.b.c\n",
        f"{m}.b", f"{m}.b.c.d", f".{m}.c", f"{m}..c", f"{m}.b.c\n\n", f"{m}.b.c ", f" {m}.b.c", f"{m}.b+.c", f"{m}.b/.c", f"{m}.b=.c",
        f"{m}.b.c\r\n", f"\n{m}.b.c", f"{m}.b.c\x00", f"{m}.b.ç", f"{m}．b．c", f"{m}.b\n.c", "..", "a..", ".a.", "a.b\n",
        # lengths
        m + "x" * (MAX_TOKEN - len(m)), m + "x" * (MAX_TOKEN - len(m) + 1), m + "x" * (MAX_TOKEN - len(m) - 1),
        m + "." + "b" * 10 + "." + "c" * (MAX_TOKEN - len(m) - 12), m + "." + "b" * 10 + "." + "c" * (MAX_TOKEN - len(m) - 11),
        m + "é" * (MAX_TOKEN - len(m)), m + "\U0001f600" * (MAX_TOKEN - len(m)) ,
        # unicode / surrogates
        f"{m}\U0001f600", f"{m}\x00z", f"{m}é", "\ud800", f"{m}\ud800", f"\udc00{m}", f"{m}\udc00\ud800", f"{m}\ud83d", f"{m}.b.c\ud800",
        "x", "1", "null",
    ]
    alpha = B64 + B64 + "...." + "\n =+/é\ud800"
    for _ in range(n_random):
        k = rng.randrange(6)
        if k == 0:
            segs = ["".join(rng.choice(B64) for _ in range(rng.randrange(0, 6))) for _ in range(rng.randrange(2, 5))]
            t = ".".join(segs)
            if rng.random() < 0.3:
                t += rng.choice(["\n", " ", "=", "\n\n"])
        elif k == 1:
            t = "".join(rng.choice(alpha) for _ in range(rng.randrange(1, 14)))
        elif k == 2:
            t = f"{m}." + "".join(rng.choice(B64) for _ in range(rng.randrange(0, 4))) + "." + "".join(rng.choice(B64 + "\n") for _ in range(rng.randrange(0, 4)))
        elif k == 3:
            t = m + "".join(rng.choice(alpha) for _ in range(rng.randrange(0, 10)))
        elif k == 4:
            t = m + "y" * rng.choice([MAX_TOKEN - len(m) - 2, MAX_TOKEN - len(m), MAX_TOKEN - len(m) + 1, 5000])
        else:
            base = list(f"{m}.bbb.ccc")
            pos = rng.randrange(len(base) + 1)
            if rng.random() < 0.5:
                base.insert(pos, rng.choice(alpha))
            elif base:
                del base[min(pos, len(base) - 1)]
            t = "".join(base)
        toks.append(t)
    return list(dict.fromkeys(t for t in toks if t != ""))


def _raw_bodies() -> list[bytes]:
    m = MARK.encode()
    pad = lambda b, n: b + b" " * (n - len(b))  # noqa: E731
    good = b'{"token":"opaque-' + m + b'"}'
    return [
        b"", b"{", b"}", b"[]", b"{}", b"null", b"true", b"0", b'"' + m + b'"', b"[" + b'"' + m + b'"' + b"]", b"\xff\xfe", b"\x00", m,
        b'{"token":1}', b'{"token":null}', b'{"token":true}', b'{"token":1.5}', b'{"token":["' + m + b'"]}', b'{"token":{"token":"' + m + b'"}}',
        b'{"token":""}', b'{"Token":"' + m + b'"}', b'{"nottoken":"' + m + b'"}', b'{"token ":"' + m + b'"}',
        b'{"token":"' + m + b'","token":"a.b.c"}', b'{"token":"a.b.c","token":"' + m + b'"}', b'{"token":"' + m + b'"} ', b'\xef\xbb\xbf{"token":"' + m + b'"}',
        b' \n{"token" : "' + m + b'" }\n', b'{"token":"' + m + b'","x":NaN}', b'{"token": NaN}', b'{"token":"' + m + b'",}', b"{'token':'" + m + b"'}",
        b'{"token":"' + m + b'"}{"token":"x"}', b'{"token":"\\u0053' + m + b'"}', b'{"token":"' + m + b'\\ud83d\\ude00"}', b'{"token":"' + m + b'\\ud800"}',
        b'{"token":"\xed\xa0\x80' + m + b'"}', ('{"token":"' + MARK + '"}').encode("utf-16"), ('{"token":"' + MARK + '"}').encode("utf-32"), ('{"token":"' + MARK + 'é"}').encode("latin-1"),
        b'{"token":' + b"1" * 5000 + b"}", b'{"token":"' + m + b'","x":' + b"[" * 3000 + b"]" * 3000 + b"}", b"[" * 8000,
        pad(good, MAX_BODY), pad(good, MAX_BODY + 1), pad(good, MAX_BODY - 1), pad(good, 100_000),
        b'{"token":"' + m + b"x" * (MAX_BODY - 12 - len(m)) + b'"}', b'{"token":"' + m + b"x" * (MAX_BODY - 11 - len(m)) + b'"}',
    ]


def _body_for(tok: str) -> bytes:
    return json.dumps({"token": tok}, separators=(",", ":")).encode()


ALLOWS: list[list[str]] = [["proxy@example.com"], ["proxy@example.com", "ops"], ["", "proxy@example.com"], ["próxy"]]


def _callers() -> list[dict[str, Any] | None]:
    ctx = lambda a, p: {"mode": "ctx", "authenticated": a, "principal": p}  # noqa: E731
    return [
        ctx(True, "proxy@example.com"), ctx(True, "mallory@example.com"), ctx(False, "proxy@example.com"), ctx(False, None), ctx(True, None),
        ctx(True, ""), ctx(False, ""), ctx(True, "Proxy@example.com"), ctx(True, "proxy@example.com "), ctx(True, "ops"), ctx(True, "próxy"),
        ctx(True, "proxy"), {"mode": "reject"}, None,
    ]


# ---------------------------------------------------------------------------
# classification of what was sent (harness side: json.loads + falcon's bounded stream, not repo code)
# ---------------------------------------------------------------------------

def classify_body(raw: bytes, content_length: int | None) -> tuple[int | None, int, int, str]:
    """-> (content_length, read_len, shape code, token) ; shape: 0 invalid 1 not-object 2 no-token 3 token-not-str 4 token."""
    avail = raw[: (content_length or 0)]
    read = avail[: MAX_BODY + 1]
    try:
        v = json.loads(read)
    except (ValueError, UnicodeDecodeError):
        return content_length, len(read), 0, ""
    if not isinstance(v, dict):
        return content_length, len(read), 1, ""
    if "token" not in v or v["token"] is None:
        return content_length, len(read), 2 if "token" not in v else 3, ""
    if not isinstance(v["token"], str):
        return content_length, len(read), 3, ""
    return content_length, len(read), 4, v["token"]


def _encodable(t: str) -> bool:
    return not any(0xD800 <= ord(c) <= 0xDFFF for c in t)


def _jws_shaped(t: str) -> bool:
    """Statement-side predicate: three dot-separated base64url segments, first two non-empty (no regex)."""
    ok = set("ABCDEFGHIJKLMNOPQRSTUVWXYZabcdefghijklmnopqrstuvwxyz0123456789_-")
    parts = t.split(".")
    return len(parts) == 3 and parts[0] != "" and parts[1] != "" and all(set(p) <= ok for p in parts)


def _finite_positive(x: Any) -> bool:
    return isinstance(x, (int, float)) and not isinstance(x, bool) and (x > 0) and (isinstance(x, int) or math.isfinite(x))


# ---------------------------------------------------------------------------
# encodings for the Coq model
# ---------------------------------------------------------------------------

def _enc_ttl_py(t: Any) -> tuple[int, int, int]:
    if isinstance(t, bool):
        return (4, 1 if t else 0, 0)
    if isinstance(t, int):
        return (0, t, 0)
    if isinstance(t, float):
        if math.isnan(t):
            return (2, 0, 0)
        if math.isinf(t):
            return (3, 1 if t < 0 else 0, 0)
        num, den = t.as_integer_ratio()
        return (1, num, -(den.bit_length() - 1))
    return (5, 0, 0)


def _cstr_rle(s: str) -> str:
    """str -> Coq ``list N`` term; long runs of one character become ``repeat`` (keeps 4096-char tokens cheap to parse)."""
    parts: list[str] = []
    lit: list[str] = []
    i = 0
    while i < len(s):
        j = i
        while j < len(s) and s[j] == s[i]:
            j += 1
        if j - i >= 24:
            if lit:
                parts.append("[" + ";".join(lit) + "]")
                lit = []
            parts.append(f"repeat {ord(s[i])} (N.to_nat {j - i})")
        else:
            lit += [str(ord(s[i]))] * (j - i)
        i = j
    if lit or not parts:
        parts.append("[" + ";".join(lit) + "]")
    return "((" + " ++ ".join(parts) + ")%N : list N)"


def run(ctx: Any) -> None:
    from vlib.coqterm import cN, cZ, cbool, clist, copt

    # Coq parses long literal lists slowly: every distinct string is defined once in the header and cases refer to it by name
    table: dict[str, str] = {}

    def cstr(x: str) -> str:
        return table.setdefault(x, f"s{len(table)}_")

    translate(ctx)
    # two builds: the theorems about the model do not depend on the regenerated leg, so a broken tie
    # (source drifted from the modelled skeleton) is reported as exactly that
    ctx.prove(
        ["prop/P_C36.vo", "refuted/R_C36.vo"],
        {
            "P_C36": [
                "C36_forbidden_403", "C36_403_iff_outside_allowlist", "C36_404_byte_identical", "C36_malformed_and_jws_skip_resolver",
                "C36_jws_never_reaches_resolver", "C36_resolver_only_for_admitted_subject", "C36_resolver_table",
                "C36_unavailable_503_retry_after", "C36_identity_exact", "C36_ttl_finite_positive", "C36_token_absent_from_responses",
                "C36_disabled_definitive_404",
            ],
            "R_C36": ["C36_old_ttl_refuted", "C36_old_surrogate_refuted"],
        },
    )
    ctx.prove(
        ["tie/T_TokIntrospect.vo"],
        {
            "T_TokIntrospect": [
                "params_tie", "jws_tie", "limits_tie", "steps_tie", "C36_source_forbidden_403", "C36_source_404_byte_identical",
                "C36_source_jws_never_reaches_resolver", "C36_source_resolver_table", "C36_source_ttl_finite_positive",
                "C36_source_token_absent_from_responses", "C36_source_disabled_definitive_404",
            ],
        },
    )

    from harness.c36_driver import App, NEVER

    quick = ctx.tier == "quick"
    rng = ctx.rng
    tokens = _tokens(rng, 60 if quick else 1200)
    raws = _raw_bodies()
    resolvers = _resolvers()
    callers = _callers()
    good_caller = callers[0]
    good_body = _body_for(f"opaque-{MARK}-credential")

    apps: dict[Any, Any] = {}

    def app_for(enabled: bool, allow: list[str] | None, with_auth: bool, limit: int) -> Any:
        key = (enabled, tuple(allow or ()), with_auth, limit)
        if key not in apps:
            apps[key] = App(enabled=enabled, allow=allow, with_auth=with_auth, rate_limit=limit)
        return apps[key]

    # plan: (enabled, allow, caller, limiter_allows, raw, content_length, behaviour)
    plan: list[tuple[bool, list[str], Any, bool, bytes, Any, dict[str, Any]]] = []
    few_res = [OK_ID, {"kind": "none"}, resolvers[16], {"kind": "unavailable", "detail": "down", "retry_after": 7}, {"kind": "raise", "exc": "RuntimeError"}]
    few_bodies = [good_body, b"{", _body_for(f"{MARK}.b.c"), b'{"token":1}', _body_for(f"{MARK}\ud800"), good_body + b" " * (MAX_BODY + 1 - len(good_body))]
    # (a) every caller x every allowlist x a few bodies x a few resolvers
    for allow in ALLOWS:
        for c in callers:
            for raw in few_bodies if allow is ALLOWS[0] else few_bodies[:3]:
                for b in few_res if allow is ALLOWS[0] else few_res[:2]:
                    plan.append((True, allow, c, True, raw, "auto", b))
    # (b) allowlisted caller x every body x two resolvers
    for raw in raws + [_body_for(t) for t in tokens]:
        for b in (OK_ID, {"kind": "none"}):
            plan.append((True, ALLOWS[0], good_caller, True, raw, "auto", b))
    # (c) allowlisted caller x well-formed subjects x every resolver behaviour
    for raw in (good_body, _body_for(f"{MARK}.only-two"), _body_for(MARK + "é\U0001f600")):
        for b in resolvers:
            plan.append((True, ALLOWS[0], good_caller, True, raw, "auto", b))
    # (d) seeded mixes
    for _ in range(150 if quick else 4000):
        allow = rng.choice(ALLOWS)
        raw = rng.choice(raws) if rng.random() < 0.3 else _body_for(rng.choice(tokens))
        plan.append((rng.random() < 0.93, allow, rng.choice(callers), rng.random() < 0.9, raw, "auto", rng.choice(resolvers)))
    # (e) disabled worker
    for c in callers:
        for raw in few_bodies:
            plan.append((False, ALLOWS[0], c, True, raw, "auto", OK_ID))
    # (f) limit 0: every admitted caller is rate limited, outsiders are still 403
    for c in callers[:4] + callers[9:11]:
        for raw in few_bodies[:3]:
            plan.append((True, ALLOWS[1], c, False, raw, "auto", OK_ID))
    # (g) Content-Length disagreeing with the body (falcon's bounded stream reads at most Content-Length bytes)
    for cl in (0, 5, len(good_body) - 1, MAX_BODY + 1, 10**7):
        plan.append((True, ALLOWS[0], good_caller, True, good_body, cl, OK_ID))
    plan.append((True, ALLOWS[0], good_caller, True, good_body + b"garbage", len(good_body), OK_ID))

    ctx.rule = ("cases = worker {enabled, disabled} x allowlist x caller (AuthContext shapes, rejected by the authenticator, no authenticator) x "
                "limiter {never reached, 0} x body (raw corpus + json of generated tokens) x resolver behaviour (identity with every ttl shape, None, "
                "unavailable, 8 exception classes); distinct by the full tuple; non-trivial = enabled worker and the request reaches the endpoint")

    sig_404: dict[Any, Any] = {}
    sig_403: dict[Any, Any] = {}
    sig_dis: dict[Any, Any] = {}
    cases: list[tuple[str, str]] = []
    replays: list[dict[str, Any]] = []
    FRAMEWORK = {"content-length", "x-request-id", "vgi-externalization-enabled", "vgi-supported-encodings", "vgi-token-introspection", "vgi-auth-reason", "www-authenticate", "vary"}

    for enabled, allow, caller, lim, raw, cl, beh in plan:
        with_auth = caller is not None
        a = app_for(enabled, allow, with_auth, NEVER if lim else 0)
        o = a.post(caller, raw, beh, cl)
        ctx.count("impl_runs")
        rejected = caller is not None and caller["mode"] == "reject"
        authd = bool(caller and caller.get("authenticated"))
        princ = caller.get("principal") if caller and not rejected else None
        clen, rlen, shape, tok = classify_body(raw, len(raw) if cl == "auto" else cl)
        repl = {"enabled": enabled, "allow": allow, "caller": caller, "limiter_allows": lim, "body_hex": raw.hex() if len(raw) < 300 else raw[:120].hex() + f"..({len(raw)} bytes)",
                "content_length": cl, "resolver": {k: repr(v) for k, v in beh.items()}, "status": o.status, "response_body": o.body[:200].decode("latin-1"),
                "resolver_calls": len(o.calls)}
        ctx.tally("caller", "rejected-401" if rejected else ("no-authenticator" if caller is None else f"auth={authd},principal={'allowlisted' if princ in [p for p in allow if p] else repr(princ)[:12]}"))
        ctx.tally("body_shape", ["invalid", "not-object", "no-token", "token-not-str", "token"][shape] if rlen <= MAX_BODY and (clen or 0) <= MAX_BODY else "oversized")
        ctx.tally("resolver", beh["kind"] + (":" + type(beh["ttl"]).__name__ if beh["kind"] == "identity" else ""))
        ctx.case([enabled, allow, caller, lim, raw.hex(), str(cl), {k: repr(v) for k, v in beh.items()}], nontrivial=enabled and not rejected)
        if o.escaped is not None:
            ctx.violation("exception-escapes-wsgi-app", f"an exception escaped the WSGI app: {o.escaped}", repl)
            continue

        # ---------------- oracle: the statement on the real response ----------------
        hdrs = {k: v for k, v in o.headers.items() if k not in FRAMEWORK}
        sig = (o.status, o.body, tuple(sorted(hdrs.items())))
        introspector = authd and bool(princ) and princ in allow
        subject_ok = shape == 4 and tok != "" and len(tok) <= MAX_TOKEN and _encodable(tok) and (clen or 0) <= MAX_BODY and rlen <= MAX_BODY
        # safety, every request: credential absent from everything the endpoint emits
        if shape == 4 and MARK in tok or MARK.encode() in raw:
            needles = [MARK]
            hay = [o.body.decode("utf-8", "replace"), json.dumps(o.headers), o.wsgi_errors]
            for rec in o.records + o.other_records:
                hay.append(rec.getMessage())
                hay += [str(v) for k, v in vars(rec).items() if k not in ("msg", "args")] + [str(x) for x in (rec.args if isinstance(rec.args, tuple) else (rec.args,))]
            if any(n in h for n in needles for h in hay):
                where = "response" if MARK in hay[0] or MARK in hay[1] else ("wsgi.errors" if MARK in hay[2] else "log record")
                ctx.violation(f"credential-in-{where.replace(' ', '-')}", f"the subject credential appears in the {where}", repl)
        for rec in o.records:
            dg = getattr(rec, "token_digest", None)
            if dg is not None and (shape != 4 or not _encodable(tok) or dg != hashlib.sha256(tok.encode()).hexdigest()):
                ctx.violation("log-digest-is-not-sha256-of-subject", "token_digest in a log record is not the SHA-256 of the subject", repl)
        if any(_jws_shaped(t) for t in o.calls):
            ctx.violation("jws-shaped-subject-reached-resolver", "a JWS-shaped subject was handed to the resolver", repl)
        if len(o.calls) > 1:
            ctx.violation("resolver-called-more-than-once", "the resolver was consulted more than once for one request", repl)
        if not enabled:
            if rejected:
                if o.calls:
                    ctx.violation("resolver-called-for-rejected-request", "resolver consulted for a request the authenticator rejected", repl)
            else:
                sig_dis.setdefault(sig, repl)
                if o.status != 404 or o.body != b'{"error":"not_enabled"}':
                    ctx.violation("disabled-worker-not-404", f"a worker without introspection answered {o.status} {o.body[:60]!r}", repl)
        elif rejected:
            if o.calls:
                ctx.violation("resolver-called-for-rejected-request", "resolver consulted for a request the authenticator rejected", repl)
        elif not introspector:
            sig_403.setdefault(sig, repl)
            if o.status != 403:
                ctx.violation("outsider-not-403", f"a caller outside the allowlist was answered {o.status}", repl)
            if o.calls:
                ctx.violation("resolver-called-for-outsider", "resolver consulted for a caller outside the allowlist", repl)
        elif not lim:
            if o.status == 403:
                ctx.violation("introspector-403", "an allowlisted caller was answered 403", repl)
            if o.calls:
                ctx.violation("resolver-called-when-rate-limited", "resolver consulted for a rate-limited request", repl)
        else:
            if o.status == 403:
                ctx.violation("introspector-403", "an allowlisted caller was answered 403", repl)
            jws = subject_ok and _jws_shaped(tok)
            if not subject_ok or jws or (o.calls and beh["kind"] == "none"):
                # malformed / JWS-shaped / unknown: the uniform 404
                if (not subject_ok or jws) and o.calls:
                    ctx.violation("resolver-called-for-malformed-or-jws", "resolver consulted for a malformed or JWS-shaped subject", repl)
                if o.status == 404:
                    sig_404.setdefault(sig, repl)
                elif shape == 4 and not _encodable(tok) and o.status == 500:
                    ctx.violation("unencodable-token-500", "a token with a lone surrogate (malformed subject) is answered 500 instead of the uniform 404", repl)
                else:
                    ctx.violation(f"unresolved-subject-answered-{o.status}", f"a malformed / JWS-shaped / unknown subject was answered {o.status}", repl)
            elif not o.calls:
                # well-formed, not JWS-shaped by the statement's definition, yet not resolved: only legitimate for what the
                # regex additionally refuses (a trailing line feed after a JWS) -- the answer must still be the uniform 404
                if o.status == 404 and tok.endswith("\n") and _jws_shaped(tok[:-1]):
                    sig_404.setdefault(sig, repl)
                else:
                    ctx.violation("subject-not-resolved", f"a well-formed subject was answered {o.status} without consulting the resolver", repl)
            elif beh["kind"] == "unavailable":
                if o.status != 503 or "retry-after" not in o.headers:
                    ctx.violation("unavailable-not-503-retry-after", f"resolver unavailability answered {o.status}, Retry-After={o.headers.get('retry-after')!r}", repl)
            elif beh["kind"] == "raise":
                if not (500 <= o.status <= 599) or b"principal" in o.body:
                    ctx.violation("resolver-exception-not-5xx", f"a resolver exception was answered {o.status}", repl)
            elif beh["kind"] == "identity":
                if 200 <= o.status <= 299:
                    try:
                        d = json.loads(o.body, parse_constant=lambda c: (_ for _ in ()).throw(ValueError(c)))
                    except ValueError:
                        d = None
                    ttl_out = d.get("ttl_seconds") if isinstance(d, dict) else None
                    if d is None or not _finite_positive(ttl_out):
                        ctx.violation("ttl-unvalidated-emitted", f"identity emitted with ttl_seconds that is not a finite positive number: {o.body[-40:]!r}", repl)
                    elif not _finite_positive(beh["ttl"]):
                        ctx.violation("ttl-invented", "identity emitted with a ttl the resolver did not give", repl)
                    elif d != {"principal": beh["principal"], "token_name": beh["token_name"], "ttl_seconds": beh["ttl"]} or list(d) != ["principal", "token_name", "ttl_seconds"] or o.status != 200:
                        ctx.violation("identity-not-exact", f"identity response is not exactly principal/token_name/ttl_seconds: {o.body[:120]!r}", repl)
                    elif o.headers.get("cache-control") != "no-store":
                        ctx.violation("identity-cacheable", "identity response lacks Cache-Control: no-store", repl)
                elif _finite_positive(beh["ttl"]):
                    ctx.violation("good-identity-not-answered", f"a resolved identity with a finite positive ttl was answered {o.status}", repl)
                elif not (500 <= o.status <= 599):
                    ctx.violation("bad-ttl-answered-definitively", f"an identity with an unusable ttl was answered {o.status}", repl)

        # ---------------- model case ----------------
        if rejected:
            continue  # the request never reaches the route
        oc_kind = {"identity": 0, "none": 1, "unavailable": 2, "raise": 3}[beh["kind"]]
        if beh["kind"] == "identity":
            strs, ttl3, ra = [beh["principal"], beh["token_name"]], _enc_ttl_py(beh["ttl"]), 0
        elif beh["kind"] == "unavailable":
            strs, ttl3, ra = [beh["detail"] or "authentication service unavailable"], (5, 0, 0), beh["retry_after"]
        else:
            strs, ttl3, ra = [], (5, 0, 0), 0
        c3 = lambda t: f"({cN(t[0])}, {cZ(t[1])}, {cZ(t[2])})"  # noqa: E731
        inp = (f"({cbool(enabled)}, {clist(cstr(p) for p in allow)}, ({cbool(authd)}, {copt(None if princ is None else cstr(princ))}), {cbool(lim)}, "
               f"({copt(None if clen is None else cN(clen))}, {cN(rlen)}, ({cN(shape)}, {cstr(tok)})), "
               f"({cN(oc_kind)}, {clist(cstr(s) for s in strs)}, {c3(ttl3)}, {cZ(ra)}))")
        # observed output
        hs = []
        known = {"content-type", "cache-control", "retry-after"}
        if "retry-after" in hdrs:
            try:
                v = int(hdrs["retry-after"])
                hs.append((2, v) if str(v) == hdrs["retry-after"] else (7, 0))
            except ValueError:
                hs.append((7, 0))
        if "content-type" in hdrs:
            hs.append((0, 0) if hdrs["content-type"] == "application/json" else (8, 0))
        if "cache-control" in hdrs:
            hs.append((1, 0) if hdrs["cache-control"] == "no-store" else (8, 1))
        hs += [(9, 0) for k in hdrs if k not in known]
        body_t = None
        try:
            d = json.loads(o.body) if o.body else None
        except ValueError:
            d = None
        if o.body == b"":
            body_t = f"(3%N, [], [])"
        elif isinstance(d, dict) and list(d) == ["title", "description"] and all(isinstance(x, str) for x in d.values()):
            body_t = f"(2%N, {clist([cstr(d['title']), cstr(d['description'])])}, [])"
        elif isinstance(d, dict) and "ttl_seconds" in d and o.body == json.dumps(d, separators=(",", ":")).encode():
            fl = []
            for k, v in d.items():
                if isinstance(v, str):
                    fl.append(f"({cstr(k)}, ({cN(0)}, {cstr(v)}, {c3((5, 0, 0))}))")
                else:
                    fl.append(f"({cstr(k)}, ({cN(1)}, {cstr('')}, {c3(_enc_ttl_py(v))}))")
            body_t = f"(1%N, [], {clist(fl)})"
        else:
            body_t = f"(0%N, [{cstr(o.body.decode('latin-1'))}], [])"
        logs = []
        for rec in o.records:
            texts = [str(getattr(rec, "principal", "<none>"))]
            texts += [str(x) for x in (rec.args if isinstance(rec.args, tuple) else ())]
            if hasattr(rec, "resolved_principal"):
                texts.append(str(rec.resolved_principal))
            logs.append(f"({cN(0)}, {cbool(hasattr(rec, 'token_digest'))}, {clist(cstr(t) for t in texts)})")
        out = (f"({cN(o.status)}, {clist(f'({cN(a_)}, {cZ(b_)})' for a_, b_ in hs)}, {body_t}, {clist(logs)}, {clist(cstr(t) for t in o.calls)})")
        cases.append((inp, out))
        replays.append(repl)

    for name, sigs, key in (("404", sig_404, "404-not-byte-identical"), ("403", sig_403, "403-not-byte-identical"), ("disabled 404", sig_dis, "disabled-404-not-constant")):
        if len(sigs) > 1:
            reps = list(sigs.items())
            ctx.violation(key, f"{name} responses differ: {[(s[0], s[1][:60], s[2]) for s, _ in reps[:3]]}", {"first": reps[0][1], "second": reps[1][1]})
    ctx.count("distinct_404_signatures", len(sig_404))
    ctx.sample({"caller": "allowlisted", "token": f"{MARK}.b.c", "resolver": "identity ttl=300", "expected": "404 unresolved, resolver not consulted"})
    ctx.sample({"caller": "allowlisted", "token": f"opaque-{MARK}-credential", "resolver": "identity ttl=nan", "expected": "no identity emitted (500)"})
    ctx.sample({"caller": "authenticated=True principal='mallory@example.com'", "expected": "403 not_an_introspector"})

    header = "From Coq Require Import List NArith ZArith Bool.\nFrom VGI Require Import M_TokIntrospect Corr.\nImport ListNotations.\nOpen Scope N_scope.\n"
    header += "\n".join(f"Definition {name} : list N := {_cstr_rle(text)}." for text, name in table.items())
    ok, bad, clog = ctx.coq_mismatches(header, "run_case", "case_out_eqb", cases, "case_in", "case_out", shard=400)
    ctx.count("model_cases", len(cases))
    ctx.obligation("correspondence:M_TokIntrospect.run_case", "correspondence", ok and not bad, clog if not ok else f"{len(bad)} of {len(cases)} cases disagree")
    for i in bad[:2]:
        shown = ctx.coq_show(header, f"run_case {cases[i][0]}")
        ctx.violation("model-impl-disagree", "implementation and model answer differently", {**replays[i], "impl": cases[i][1][:600], "model": shown[-900:]})
    ctx.assumptions += [
        "json.loads and falcon's bounded request stream are environment: the harness classifies each raw body with them (shape, token, bytes read)",
        "a resolver is a function of the token (called at most once per request); it does not raise falcon.HTTPError and returns TokenIdentity with str principal/token_name",
        "token_digest is SHA-256 (source pinned by the translator; value checked on every captured record): a digest is not the credential",
        "the rate limiter is represented by e_limiter_allows (harness: limit 10^9 = never reached, limit 0 = always refused)",
        "requests rejected by the authentication middleware (401) never reach the route and are outside the model (oracle: resolver not consulted, credential absent)",
    ]


def translate(ctx: Any) -> None:
    """Regenerated leg: _introspect.py / _factory.py -> coq/gen/G_TokIntrospect.v"""
    from translate import t_c36_introspect

    ctx.gen("G_TokIntrospect", lambda: t_c36_introspect.generate(ctx.repo))
