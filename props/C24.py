"""C24 Precondition gates compose with AND semantics.

proof         : coq/prop/P_C24.v over model/M_Gates.v -- for ALL modes x proof-header classes x inner authenticator
                behaviours (any identity, any claims, any exception class): authenticated only if the proof verified
                (no inner) or the inner accepted; allow + unproven == the ungated worker (anonymous without inner);
                require + unproven never consults inner; a gate anywhere in chain_authenticate(...) is refused at
                construction; a failed required gate inside chain(require_all(gate, a), b, ...) ends the chain.
regenerated   : translate/t_c24_gates.py turns the source of require_all.authenticate (as a small program), the
                gate's header pre-checks / `required` expression / allow-mode claims dict, chain_authenticate's
                constructor guards and except classes, ProofError / AuthFailure bases into coq/gen/G_Gates.v;
                tie/T_Gates.v proves them equal to the modelled data and restates the theorems over them.
correspondence: the real proxy_proof_gate / require_all / chain_authenticate on the exhaustive grid
                {allow, require} x 37 header classes (real minted tokens, injected clock, per-case replay cache)
                x 19 inner-authenticator behaviours with an invocation log, plus custom gates, constructor grids,
                chains up to length 3, and the same requests through the Falcon app (AuthContext the method sees).

Readings adopted where the statement leaves room:
  * "proceeds exactly as an anonymous request would": domain / authenticated / principal are those an ungated worker
    produces (AuthContext.anonymous() without inner; the inner's answer with one) and every claim except the gate's
    own record under gate.claims_key is the same.  The record itself (verified="false", reason) may be present:
    docs/proxy-proof-spec.md section 9 requires it.
  * "the inner authenticator accepted it": it returned a context; the result is authenticated iff that context is.
  * what verify_proof answers for a token is C22's subject; here tokens are built per class and the class is the
    model's input, so a verify_proof regression shows up as a correspondence mismatch, not as a theorem.
"""
from __future__ import annotations

import base64
import itertools
import logging
from typing import Any, Protocol

from vgi_rpc.rpc import CallContext, RpcServer

META = {
    "id": "C24",
    "technique": "Coq proof by case analysis over an interpreter of the regenerated require_all body + regenerated guards/tie + exhaustive differential correspondence",
    "level_text": "Coq theorems for all modes, header classes, inner behaviours and identities over the model; the program "
    "the theorems are about (require_all.authenticate, gate pre-checks, mode guard, allow-mode claims, chain guards, "
    "swallowed exception classes, exception bases) is regenerated from the source on every run and proved equal "
    "to the modelled one; the interpreter and the verify_proof classes are tied by running the real functions on "
    "the full decision grid (direct call and through the Falcon app).",
    "level_note": "Trusted: Coq kernel, t_c24_gates translator (AST shapes -> program), harness encodings; modelled not "
    "verified: verify_proof outcomes per header class (C22), dict key order (claims compared as maps), Falcon "
    "header handling (checked by the HTTP leg only for the classes in the grid).",
    "design_ref": "§5 C24",
}

SECRET = b"\x11" * 32
OTHER_SECRET = b"\x22" * 32
KID = "prod-use1"
KID_B = "partner-1"  # key id of the second proxy in the multi-gate chains (its secret is OTHER_SECRET)
LABEL = "edge-proxy-A"
ORIGIN = "origin-1"
NOW = 1_700_000_000
SKEW = 30

REASON_CODE = {"no_proof": 1, "malformed": 2, "unknown_kid": 3, "expired": 4, "not_yet_valid": 5, "bad_mac": 6, "replayed": 7}
REASON_COQ = {1: "RNoProof", 2: "RMalformed", 3: "RUnknownKid", 4: "RExpired", 5: "RNotYetValid", 6: "RBadMac", 7: "RReplayed"}
AUTH_REASONS = ["missing_credential", "invalid_credential", "expired_credential", "insufficient_scope", "proxy_required", "unauthorized"]

_SEEN: list[Any] = []


class C24Service(Protocol):
    def whoami(self) -> str: ...


class _C24Impl:
    def whoami(self, ctx: CallContext) -> str:
        _SEEN.append(ctx.auth)
        return "ok"


class _Intern:
    """strings / values <-> small numbers shared by the model input and the encoded observation"""

    def __init__(self) -> None:
        self.t: dict[str, int] = {}

    def __call__(self, v: Any) -> int:
        return self.t.setdefault(repr(v), len(self.t) + 1)


def translate(ctx: Any) -> None:
    from translate import t_c24_gates

    ctx.gen("G_Gates", lambda: t_c24_gates.generate(ctx.repo))
    # verify_proof statement by statement (C22's translator; read-only use): tie/T_Gates.v proves over this term that
    # the replay-cache lookup is the LAST check, the source obligation behind the history model (hist_step)
    from translate import t_c22_verify

    ctx.gen("G_Proof", lambda: t_c22_verify.proof_module(ctx.repo / "vgi_rpc" / "http" / "_proof.py"))


def run(ctx: Any) -> None:  # noqa: C901 - one linear script
    translate(ctx)
    # two builds, so that a broken tie (source changed) does not hide that the theorems about the model still hold
    ctx.prove(
        ["prop/P_C24.vo", "refuted/R_C24.vo"],
        {
            "P_C24": [
                "C24_authenticated_only_if_verified_or_inner", "C24_any_gate_authenticated_only_if",
                "C24_allow_unproven_is_anonymous", "C24_require_never_calls_inner_after_fail", "C24_any_gate_failure_stops",
                "C24_proven_inner_decides", "C24_gate_raises_iff", "C24_gate_not_in_chain", "C24_chain_ctor_iff",
                "C24_chain_cannot_bypass_required_gate", "C24_refused_presentation_leaves_no_trace",
                "C24_refused_traffic_changes_no_verdict", "C24_replay_detected_despite_refused_traffic",
            ],
            "R_C24": ["C24_old_allow_unproven_authenticated_refuted"],
        },
    )
    ctx.prove(
        ["tie/T_Gates.vo"],
        {
            "T_Gates": [
                "ra_body_tie", "gate_pre_tie", "required_tie", "off_guard_tie", "fail_claims_tie", "chain_guards_tie", "chain_swallows_tie",
                "proof_error_base_tie", "auth_failure_base_tie", "constructible_iff", "C24_source_authenticated_only_if",
                "C24_source_allow_unproven_is_anonymous", "C24_source_require_never_calls_inner",
                "C24_source_gate_not_in_chain", "C24_source_gate_failure_not_swallowed", "verify_proof_cache_check_is_last",
            ],
        },
    )

    import falcon.testing
    import pyarrow as pa
    from harness.rawrpc import error_of, read_streams, request_bytes
    from vgi_rpc.http import AuthFailure, PreconditionGate, ProxyProofConfig, chain_authenticate, make_wsgi_app, proxy_proof_gate, require_all
    from vgi_rpc.http._common import PROOF_HEADER
    from vgi_rpc.http._proof import ProofError, mint_proof
    from vgi_rpc.http._unauthorized import AuthReason
    from vgi_rpc.rpc import AuthContext
    from vlib.coqterm import cN, cbool, clist, copt

    logging.getLogger("vgi_rpc").setLevel(logging.CRITICAL)
    ctx.obligation("env:AuthReason-order", "environment", [m.value for m in AuthReason] == AUTH_REASONS, str([m.value for m in AuthReason]))
    ctx.obligation(
        "env:exception-hierarchy", "environment",
        not issubclass(PermissionError, ValueError) and not issubclass(ValueError, PermissionError) and not issubclass(TypeError, (ValueError, PermissionError)),
        "builtin exception classes are not disjoint as the model assumes",
    )
    intern = _Intern()
    rng = ctx.rng
    thorough = ctx.tier != "quick"

    # ------------------------------------------------------------------ real objects
    def make_gate(mode: str, log: list[Any]) -> Any:
        g = proxy_proof_gate(
            ProxyProofConfig(mode=mode, origin_id=ORIGIN, secrets={KID: (SECRET, LABEL)}, skew_seconds=SKEW), now=lambda: NOW
        )
        orig = g._fn

        def logged(req: Any) -> Any:
            log.append("gate")
            return orig(req)

        g._fn = logged
        return g

    def nonce() -> str:
        return base64.urlsafe_b64encode(bytes(rng.getrandbits(8) for _ in range(16))).rstrip(b"=").decode()

    def mint(secret: bytes = SECRET, kid: str = KID, origin: str = ORIGIN, now: int = NOW) -> str:
        return mint_proof(secret, kid, origin, now=now, nonce=nonce())

    def tamper(tok: str) -> str:
        i = tok.rindex(".") + 1  # first character of the MAC (the last one carries two unused bits)
        return tok[:i] + ("A" if tok[i] != "A" else "B") + tok[i + 1 :]

    def sub_field(field: int, pos: int, ch: str) -> str:
        """a freshly minted valid token with one character of one '.'-separated field replaced"""
        parts = mint().split(".")
        f = list(parts[field])
        f[pos] = ch
        parts[field] = "".join(f)
        return ".".join(parts)

    TRICKY = "\u00b2\u00b3\u00b9\u00bc\u00aa\u00ba\u00b5\u00e9\u00df\u00fc\u00a0\u0085\u00ad\u0663\u06f3\u0967\uff13\uff41\u2460\u2170\u0131\u212a"

    # header classes: name -> (Coq hdr, maker() -> header value | None, presend?)
    F = "HToken (Some {})".format
    H: list[tuple[str, str, Any, bool]] = [
        ("absent", "HAbsent", lambda: None, False),
        ("empty", "HEmpty", lambda: "", False),
        ("multi-valid", "HMulti", lambda: f"{mint()}, {mint()}", False),
        ("multi-short", "HMulti", lambda: "a,b", False),
        ("comma-only", "HMulti", lambda: ",", False),
        ("malformed-4-fields", F("RMalformed"), lambda: ".".join(mint().split(".")[:4]), False),
        ("malformed-version", F("RMalformed"), lambda: "v2" + mint()[2:], False),
        ("malformed-too-long", F("RMalformed"), lambda: "v1." + "a" * 600 + mint()[2 + 1 + len(KID):], False),
        ("malformed-kid-charset", F("RMalformed"), lambda: mint().replace(KID, "bad!kid", 1), False),
        ("malformed-ts-charset", F("RMalformed"), lambda: mint().replace(str(NOW), "17e8", 1), False),
        ("malformed-nonce-short", F("RMalformed"), lambda: (lambda p: ".".join(p[:3] + [p[3][:-1]] + p[4:]))(mint().split(".")), False),
        ("malformed-mac-short", F("RMalformed"), lambda: mint()[:-1], False),
        ("malformed-garbage", F("RMalformed"), lambda: "not a proof", False),
        # a real token with ONE field character replaced by a look-alike: str.isdigit()/isalnum()-true but outside the ASCII classes
        ("malformed-ts-superscript-2", F("RMalformed"), lambda: sub_field(2, -1, "\u00b2"), False),
        ("malformed-ts-superscript-3-first", F("RMalformed"), lambda: sub_field(2, 0, "\u00b3"), False),
        ("malformed-ts-superscript-1-mid", F("RMalformed"), lambda: sub_field(2, 4, "\u00b9"), False),
        ("malformed-ts-arabic-indic", F("RMalformed"), lambda: sub_field(2, -1, "\u0663"), False),
        ("malformed-ts-fullwidth", F("RMalformed"), lambda: sub_field(2, -1, "\uff13"), False),
        ("malformed-ts-circled-digit", F("RMalformed"), lambda: sub_field(2, -1, "\u2460"), False),
        ("malformed-kid-latin1-letter", F("RMalformed"), lambda: sub_field(1, 1, "\u00e9"), False),
        ("malformed-kid-sharp-s", F("RMalformed"), lambda: sub_field(1, -1, "\u00df"), False),
        ("malformed-nonce-latin1-letter", F("RMalformed"), lambda: sub_field(3, 5, "\u00e9"), False),
        ("malformed-mac-latin1-letter", F("RMalformed"), lambda: sub_field(4, 7, "\u00fc"), False),
        ("malformed-mac-micro-sign", F("RMalformed"), lambda: sub_field(4, -1, "\u00b5"), False),
        ("malformed-version-fullwidth", F("RMalformed"), lambda: sub_field(0, 0, "\uff56"), False),
        ("malformed-ts-nbsp", F("RMalformed"), lambda: sub_field(2, 3, "\u00a0"), False),
        ("unknown-kid", F("RUnknownKid"), lambda: mint(kid="someone-else"), False),
        ("expired-by-1", F("RExpired"), lambda: mint(now=NOW - SKEW - 1), False),
        ("expired-epoch", F("RExpired"), lambda: mint(now=0), False),
        ("not-yet-valid", F("RNotYetValid"), lambda: mint(now=NOW + SKEW + 1), False),
        ("bad-mac-other-secret", F("RBadMac"), lambda: mint(secret=OTHER_SECRET), False),
        ("bad-mac-tampered", F("RBadMac"), lambda: tamper(mint()), False),
        ("bad-mac-other-origin", F("RBadMac"), lambda: mint(origin="origin-2"), False),
        ("replayed", F("RReplayed"), lambda: mint(), True),
        ("valid", "HToken None", lambda: mint(), False),
        ("valid-oldest", "HToken None", lambda: mint(now=NOW - SKEW), False),
        ("valid-newest", "HToken None", lambda: mint(now=NOW + SKEW), False),
    ]
    VALID = {"valid", "valid-oldest", "valid-newest"}

    def make_req(value: str | None) -> Any:
        return falcon.testing.create_req(headers={} if value is None else {PROOF_HEADER: value})

    GKEY = "vgi_proxy_proof"
    user = AuthContext(domain="jwt", authenticated=True, principal="alice", claims={"sub": "alice", "n": 1})
    # inner behaviours: name -> outcome (AuthContext to return | exception instance to raise)
    INNER: list[tuple[str, Any]] = [
        ("accept-user", user),
        ("accept-anonymous", AuthContext.anonymous()),
        ("accept-unauthenticated-named", AuthContext(domain="guest", authenticated=False, principal="nobody")),
        ("accept-no-claims", AuthContext(domain="mtls", authenticated=True, principal="CN=x")),
        ("accept-spoofed-gate-claims", AuthContext(domain="jwt", authenticated=True, principal="mallory", claims={"a": 1, GKEY: {"verified": "true", "proxy": LABEL}})),
        ("accept-gate-domain", AuthContext(domain=GKEY, authenticated=True, principal=LABEL)),
        ("accept-empty-principal", AuthContext(domain="jwt", authenticated=True, principal="")),
        *[(f"reject-{r}", AuthFailure(AuthReason(r), "no")) for r in AUTH_REASONS],
        ("raise-ValueError", ValueError("bad")),
        ("raise-PermissionError", PermissionError("forbidden")),
        ("raise-ProofError", ProofError("bad_mac", "x")),
        ("raise-TypeError", TypeError("t")),
        ("raise-RuntimeError", RuntimeError("boom")),
        ("raise-KeyError", KeyError("k")),
    ]

    def make_inner(ident: int, outcome: Any, log: list[Any]) -> Any:
        def inner(req: Any) -> Any:
            log.append(("inner", ident))
            if isinstance(outcome, BaseException):
                raise outcome
            return outcome

        return inner

    # ------------------------------------------------------------------ encodings (mirror M_Gates.enc_*)
    def enc_gclaims(d: Any) -> list[int] | None:
        if not isinstance(d, dict) or set(d) - {"verified", "proxy", "kid", "origin_id", "reason"} or d.get("origin_id") != ORIGIN:
            return None
        v = {"true": 1, "false": 0}.get(d.get("verified"), 2)
        if "proxy" not in d:
            p = 2
        else:
            p = {LABEL: 1, "": 0}.get(d["proxy"], 99)
        k = {KID: 1, KID_B: 1, "": 0}.get(d.get("kid"), 99)
        r = 0 if d.get("reason") == "ok" else REASON_CODE.get(d.get("reason"), 99)
        return [v, p, k, r]

    def coq_gclaims(e: list[int]) -> str:
        return "{{| gc_verified := {}; gc_proxy := {}; gc_kid := {}; gc_reason := {} |}}".format(
            {1: "VTrue", 0: "VFalse", 2: "VOther"}[e[0]], {1: "PxLabel", 0: "PxEmpty", 2: "PxNone"}[e[1]], cbool(e[2] == 1),
            "None" if e[3] == 0 else f"(Some {REASON_COQ[e[3]]})",
        )

    def dict_of_gclaims(e: list[int]) -> dict[str, str]:
        d = {"kid": KID if e[2] else "", "origin_id": ORIGIN, "reason": "ok" if e[3] == 0 else {v: k for k, v in REASON_CODE.items()}[e[3]]}
        if e[0] != 2:
            d["verified"] = "true" if e[0] == 1 else "false"
        if e[1] != 2:
            d["proxy"] = LABEL if e[1] == 1 else ""
        return d

    def split_ctx(c: Any, gate_record: bool) -> tuple[Any, Any, Any, list[tuple[Any, Any]]]:
        """(domain, authenticated, principal, claims as ordered pairs with the gate key last).
        gate_record: values under the gate key that look like the gate's record are decoded as such."""
        items = [(k, v) for k, v in c.claims.items() if k != GKEY] + [(k, v) for k, v in c.claims.items() if k == GKEY]
        return c.domain, c.authenticated, c.principal, items

    def enc_dom(d: Any) -> list[int]:
        return [0] if d is None else [1] if d == GKEY else [2, intern(("dom", d))]

    def enc_prin(p: Any) -> list[int]:
        return [0] if p is None else [1] if p == "" else [2] if p == LABEL else [3, intern(("prin", p))]

    def enc_kv(k: Any, v: Any, gate_record: bool) -> list[int]:
        ke = [0] if k == GKEY else [1, intern(("key", k))]
        g = enc_gclaims(v) if (k == GKEY and gate_record) else None
        return ke + ([0, *g] if g is not None else [1, intern(("val", v))])

    def enc_ctx(c: Any, gate_record: bool = True) -> list[int]:
        if not isinstance(c, AuthContext) or not isinstance(c.authenticated, bool):
            return [99]
        d, a, p, items = split_ctx(c, gate_record)
        out = enc_dom(d) + [1 if a else 0] + enc_prin(p) + [len(items)]
        for k, v in items:
            out += enc_kv(k, v, gate_record)
        return out

    def enc_exn(e: BaseException) -> list[int]:
        if isinstance(e, ProofError):
            ok = isinstance(e, PermissionError) and not isinstance(e, ValueError)
            return [1, REASON_CODE.get(getattr(e, "reason", None), 99)] if ok else [99]
        if isinstance(e, AuthFailure):
            r = getattr(e, "reason", None)
            return [2, AUTH_REASONS.index(r.value)] if isinstance(r, AuthReason) and isinstance(e, ValueError) else [99]
        if isinstance(e, ValueError):
            return [3]
        if isinstance(e, PermissionError):
            return [4]
        if isinstance(e, TypeError):
            return [5]
        return [6]

    def enc_log(log: list[Any]) -> list[int]:
        out: list[int] = []
        for ev in log:
            out += [20] if (ev == "gate" or ev[0] == "g") else [21, ev[1]]
        return out

    def enc_out(result: Any, exc: BaseException | None, log: list[Any]) -> list[int]:
        head = [11, *enc_exn(exc)] if exc is not None else [12] if result is None else [10, *enc_ctx(result)]
        return head + [255] + enc_log(log)

    # ------------------------------------------------------------------ Coq renderings of inputs
    def coq_exn(e: BaseException) -> str:
        x = enc_exn(e)
        return {1: lambda: f"(XProof {REASON_COQ[x[1]]})", 2: lambda: f"(XAuthFailure {cN(x[1])})", 3: lambda: "XValue", 4: lambda: "XPerm", 5: lambda: "XType", 6: lambda: "XOther"}[x[0]]()

    def coq_ctx(c: Any) -> str:
        d, a, p, items = split_ctx(c, False)
        de = enc_dom(d)
        pe = enc_prin(p)
        ds = ["DNone", "DGate", None][de[0]] or f"(DUser {cN(de[1])})"
        ps = ["PNone", "PEmpty", "PLabel", None][pe[0]] or f"(PUser {cN(pe[1])})"
        kvs = []
        for k, v in items:
            ks = "KGate" if k == GKEY else f"(KUser {cN(intern(('key', k)))})"
            kvs.append(f"({ks}, CVUser {cN(intern(('val', v)))})")
        return f"{{| a_domain := {ds}; a_auth := {cbool(a)}; a_principal := {ps}; a_claims := {clist(kvs)} |}}"

    def coq_ires(outcome: Any) -> str:
        return f"(IRaise {coq_exn(outcome)})" if isinstance(outcome, BaseException) else f"(ICtx {coq_ctx(outcome)})"

    def coq_inner(ident: int | None, outcome: Any) -> str:
        return "None" if ident is None else f"(Some ({cN(ident)}, {coq_ires(outcome)}))"

    MODE_COQ = {"off": "MOff", "allow": "MAllow", "require": "MRequire"}
    cases: list[tuple[str, str]] = []
    replays: list[dict[str, Any]] = []

    def add_case(term: str, obs: list[int], replay: dict[str, Any]) -> None:
        cases.append((term, "[" + ";".join(str(x) for x in obs) + "]%N"))
        replays.append({**replay, "impl_encoded": obs})
        ctx.count("impl_runs")

    def call(fn: Any, req: Any) -> tuple[Any, BaseException | None]:
        try:
            return fn(req), None
        except Exception as e:  # noqa: BLE001 - the exception class is the observation
            return None, e

    ctx.rule = (
        "exhaustive grid: gate mode {allow, require} x header class (37: absent, empty, repeated, 8 malformed shapes, 13 real tokens with one field character replaced by a Latin-1 / Unicode "
        "look-alike (superscript / Arabic-Indic / fullwidth digits in ts, non-ASCII letters in kid / nonce / mac / version), unknown kid, "
        "expired, not-yet-valid, 3 bad-mac, replayed, 3 valid incl. both window edges; real minted tokens, injected clock, fresh "
        "replay cache per case) x inner authenticator (none + 19 behaviours: 7 accepted contexts, 6 AuthFailure codes, 6 other "
        "exception classes); custom PreconditionGates (claims / exception grid) x inner; constructor grids (gate at every position of "
        "chains up to length 3/4, require_all on non-gates, proxy_proof_gate per mode); chains of up to 3 plain authenticators; "
        "chain(require_all(gate, a), b); chains of 2-3 require_all wrappers around DISTINCT gates (proxy gates with different key maps / "
        "modes sharing the claims key; custom gates with equal and with different claims keys) x token {none, valid for A, valid for B, "
        "garbage} x inner {accept, reject, ValueError, none} evaluated within ONE request with a per-gate invocation log; "
        "HISTORIES on one gate instance with replay_capacity 1..8: valid P, then k in {cap-1, cap, cap+1, 2cap+1} refused tokens with fresh "
        "nonces (3 forged-MAC kinds, unknown kid, out of window, malformed), replays of P and 0 / cap-1 / cap other accepted proofs, then P again "
        "(last step through require_all), each also re-run with the refused presentations deleted; the same requests through the Falcon app. Non-trivial = not a constructor-only case."
    )

    # ------------------------------------------------------------------ 1. the gate alone, and constructor
    for mode in ("off", "allow", "require"):
        try:
            proxy_proof_gate(ProxyProofConfig(mode=mode, origin_id=ORIGIN, secrets={KID: (SECRET, LABEL)}))  # type: ignore[arg-type]
            obs = [30]
        except Exception as e:  # noqa: BLE001
            obs = [31, *enc_exn(e)]
        add_case(f"CaseGateCtor {MODE_COQ[mode]}", obs, {"kind": "gate-ctor", "mode": mode})
        ctx.case(["gate-ctor", mode], nontrivial=False)

    def is_proof_error(e: BaseException) -> bool:
        return isinstance(e, ProofError) and isinstance(e, PermissionError) and not isinstance(e, ValueError)

    def header_value(hname: str, maker: Any, presend: bool, gate: Any) -> str | None:
        value = maker()
        if presend:
            first = gate(make_req(value))
            assert first.get("verified") == "true", "replay setup: first presentation must verify"
        return value

    for mode in ("allow", "require"):
        for hname, hcoq, maker, presend in H:
            log: list[Any] = []
            gate = make_gate(mode, log)
            value = header_value(hname, maker, presend, gate)
            r, e = call(gate, make_req(value))
            g = enc_gclaims(r) if e is None else None
            obs = [41, *enc_exn(e)] if e is not None else [40, *(g or [99])]
            add_case(f"CaseGate {MODE_COQ[mode]} ({hcoq})", obs, {"kind": "gate", "mode": mode, "header_class": hname, "header": value})
            ctx.case(["gate", mode, hname])
            if e is not None and not is_proof_error(e):
                ctx.violation("gate-raised-non-proof-error", f"the {mode}-mode gate raised {type(e).__name__}, not a ProofError-derived PermissionError",
                              {"mode": mode, "header_class": hname, "header": value, "exception": repr(e)})
            if mode == "allow" and e is not None:
                ctx.violation("allow-gate-denies", "the allow-mode gate raised", {"mode": mode, "header_class": hname, "header": value, "exception": repr(e)})
            if mode == "require" and hname not in VALID and not (isinstance(e, PermissionError) and not isinstance(e, ValueError)):
                ctx.violation("require-unproven-not-refused", "the require-mode gate did not raise a PermissionError for an unproven request",
                              {"mode": mode, "header_class": hname, "header": value, "result": repr(r), "exception": repr(e)})

    # seeded look-alike substitutions anywhere in a real token (separators included): always malformed, never anything but a ProofError
    FUZZ: list[tuple[str, str]] = []
    for k in range(300 if thorough else 60):
        tok = list(mint())
        pos = rng.randrange(len(tok))
        ch = rng.choice(TRICKY)
        tok[pos] = ch
        FUZZ.append((f"fuzz-{k}-pos{pos}-U+{ord(ch):04X}", "".join(tok)))
    for mode in ("allow", "require"):
        for fname, value in FUZZ:
            log = []
            gate = make_gate(mode, log)
            r, e = call(gate, make_req(value))
            g = enc_gclaims(r) if e is None else None
            obs = [41, *enc_exn(e)] if e is not None else [40, *(g or [99])]
            add_case(f"CaseGate {MODE_COQ[mode]} ({F('RMalformed')})", obs, {"kind": "gate", "mode": mode, "header_class": fname, "header": value, "exception": repr(e)})
            ctx.case(["gate-fuzz", mode, fname])
            ctx.count("lookalike_fuzz")
            if e is not None and not is_proof_error(e):
                ctx.violation("gate-raised-non-proof-error", f"the {mode}-mode gate raised {type(e).__name__}, not a ProofError-derived PermissionError",
                              {"mode": mode, "header_class": fname, "header": value, "exception": repr(e)})
            elif mode == "allow" and e is not None:
                ctx.violation("allow-gate-denies", "the allow-mode gate raised", {"mode": mode, "header_class": fname, "header": value, "exception": repr(e)})
            elif mode == "require" and e is None:
                ctx.violation("require-unproven-not-refused", "the require-mode gate did not raise for an unproven request", {"mode": mode, "header_class": fname, "header": value, "result": repr(r)})

    # ------------------------------------------------------------------ 2. require_all(proxy_proof_gate, inner): the grid of the property
    def same_modulo_gate(c: Any, c0: Any) -> bool:
        strip = lambda x: {k: v for k, v in x.claims.items() if k != GKEY}  # noqa: E731
        return (c.domain, c.authenticated, c.principal) == (c0.domain, c0.authenticated, c0.principal) and strip(c) == strip(c0)

    inner_specs: list[tuple[str, Any, int | None]] = [("none", None, None)] + [(n, o, i + 1) for i, (n, o) in enumerate(INNER)]
    for mode in ("allow", "require"):
        for hname, hcoq, maker, presend in H:
            for iname, outcome, ident in inner_specs:
                log = []
                gate = make_gate(mode, log)
                value = header_value(hname, maker, presend, gate)
                del log[:]
                inner = None if ident is None else make_inner(ident, outcome, log)
                auth = require_all(gate, inner)
                r, e = call(auth, make_req(value))
                obs = enc_out(r, e, log)
                repl = {"kind": "require_all", "mode": mode, "header_class": hname, "header": value, "inner": iname,
                        "result": repr(r) + (" claims=" + repr(dict(r.claims)) if isinstance(r, AuthContext) else ""), "exception": repr(e), "log": list(log)}
                add_case(f"CaseRA {MODE_COQ[mode]} ({hcoq}) {coq_inner(ident, outcome)}", obs, repl)
                ctx.case(["ra", mode, hname, iname])
                ctx.tally("mode", mode)
                ctx.tally("header", hcoq)
                ctx.tally("inner", "none" if ident is None else "raises" if isinstance(outcome, BaseException) else "accepts")
                proven = hname in VALID
                inner_calls = [x for x in log if x != "gate"]
                # --- the property's own predicate on what the real code did
                if isinstance(r, AuthContext) and r.authenticated:
                    ok = (ident is None and proven) or (ident is not None and isinstance(outcome, AuthContext) and outcome.authenticated and inner_calls == [("inner", ident)])
                    if not ok:
                        key = "allow-unproven-authenticated-no-inner" if (mode == "allow" and ident is None and not proven) else "authenticated-without-verified-proof-or-inner"
                        ctx.violation(key, "require_all handed out an authenticated context although neither the proof verified nor an inner authenticator accepted", repl)
                    elif ident is not None and (r.domain, r.principal) != (outcome.domain, outcome.principal):
                        ctx.violation("identity-not-inner", "authenticated context does not carry the inner authenticator's identity", repl)
                if mode == "allow" and not proven:
                    if ident is None:
                        anon = AuthContext.anonymous()
                        if e is not None or not isinstance(r, AuthContext) or not same_modulo_gate(r, anon):
                            if not (isinstance(r, AuthContext) and r.authenticated):  # the authenticated case is reported above
                                ctx.violation("allow-unproven-differs-from-anonymous", "allow-mode unproven request does not proceed as AuthContext.anonymous()", repl)
                    else:
                        r0, e0 = call(make_inner(ident, outcome, []), make_req(value))
                        same = (e is e0) if e0 is not None else (isinstance(r, AuthContext) and same_modulo_gate(r, r0))
                        if not same or inner_calls != [("inner", ident)]:
                            ctx.violation("allow-unproven-differs-from-ungated", "allow-mode unproven request is not treated as the ungated worker treats it", repl)
                if e is not None and not inner_calls and not is_proof_error(e):
                    ctx.violation("gate-raised-non-proof-error", f"require_all: the {mode}-mode gate raised {type(e).__name__}, not a ProofError-derived PermissionError", repl)
                if mode == "require" and not proven:
                    if inner_calls:
                        ctx.violation("require-inner-consulted-after-gate-failure", "inner authenticator was invoked although the gate failed", repl)
                    if not (isinstance(e, PermissionError) and not isinstance(e, ValueError)):
                        ctx.violation("require-unproven-not-refused", "require mode did not refuse an unproven request with a PermissionError", repl)
                if log[:1] != ["gate"]:
                    ctx.violation("gate-not-first", "the gate did not run first", repl)
    ctx.sample({"mode": "allow", "header": "absent", "inner": None, "expected": "anonymous identity + verified=false record"})
    ctx.sample({"mode": "require", "header": "replayed", "inner": "accept-user", "expected": "ProofError(replayed), inner never called"})

    # ------------------------------------------------------------------ 3. custom gates
    custom: list[tuple[str, Any]] = [("raise-PermissionError", PermissionError("no")), ("raise-ProofError", ProofError("expired", "x")),
                                     ("raise-ValueError", ValueError("v")), ("raise-RuntimeError", RuntimeError("r"))]
    for v, p, k, rs in itertools.product((0, 1, 2), (0, 1, 2), (0, 1), (0, 4)):
        custom.append((f"claims-{v}{p}{k}{rs}", [v, p, k, rs]))
    custom_inner = [s for s in inner_specs if s[0] in ("none", "accept-user", "accept-anonymous", "accept-spoofed-gate-claims", "reject-invalid_credential", "raise-PermissionError", "raise-RuntimeError")]
    for (gname, gout), (iname, outcome, ident) in itertools.product(custom, custom_inner):
        log = []

        def gfn(req: Any, gout: Any = gout, log: list[Any] = log) -> Any:
            log.append("gate")
            if isinstance(gout, BaseException):
                raise gout
            return dict_of_gclaims(gout)

        gate = PreconditionGate(gfn, name=GKEY, claims_key=GKEY)
        inner = None if ident is None else make_inner(ident, outcome, log)
        r, e = call(require_all(gate, inner), make_req(None))
        gcoq = f"(GRaise {coq_exn(gout)})" if isinstance(gout, BaseException) else f"(GClaims {coq_gclaims(gout)})"
        repl = {"kind": "require_all-custom-gate", "gate": gname, "inner": iname, "result": repr(r), "exception": repr(e), "log": list(log)}
        add_case(f"CaseRACustom {gcoq} {coq_inner(ident, outcome)}", enc_out(r, e, log), repl)
        ctx.case(["ra-custom", gname, iname])
        if isinstance(gout, BaseException) and (e is not gout or log != ["gate"]):
            ctx.violation("require-inner-consulted-after-gate-failure", "a failed custom gate did not end the request with its own exception before inner", repl)
        if isinstance(r, AuthContext) and r.authenticated and ident is None and not isinstance(gout, BaseException) and gout[0] == 0:
            ctx.violation("allow-unproven-authenticated-no-inner", "a gate that recorded verified=false authenticated the request (no inner authenticator)", repl)

    for is_gate, obj in ((True, make_gate("allow", [])), (True, make_gate("require", [])), (False, lambda req: user), (False, None), (False, require_all(make_gate("allow", [])))):
        try:
            require_all(obj)  # type: ignore[arg-type]
            obs = [30]
        except Exception as e:  # noqa: BLE001
            obs = [31, *enc_exn(e)]
        add_case(f"CaseRACtor {cbool(is_gate)}", obs, {"kind": "require_all-ctor", "object": repr(obj)[:60]})
        ctx.case(["ra-ctor", is_gate, repr(type(obj))], nontrivial=False)

    # ------------------------------------------------------------------ 4. chain_authenticate: constructor and run
    maxlen = 4 if thorough else 3
    plain = lambda req: user  # noqa: E731
    for n in range(0, maxlen + 1):
        for shape in itertools.product("GA", repeat=n):
            for gmode in ("allow", "require"):
                if "G" not in shape and gmode == "require":
                    continue
                members = [make_gate(gmode, []) if s == "G" else (require_all(make_gate(gmode, []), plain) if i % 2 else plain) for i, s in enumerate(shape)]
                try:
                    chain_authenticate(*members)
                    built, err = True, None
                except Exception as e:  # noqa: BLE001
                    built, err = False, e
                obs = [30] if built else [31, *enc_exn(err)]  # type: ignore[arg-type]
                add_case("CaseChainCtor " + clist("MemGate" if s == "G" else "MemAuth" for s in shape), obs, {"kind": "chain-ctor", "shape": "".join(shape), "gate_mode": gmode})
                ctx.case(["chain-ctor", shape, gmode], nontrivial=False)
                if "G" in shape and built:
                    ctx.violation("gate-accepted-in-chain", "chain_authenticate accepted a PreconditionGate", {"shape": "".join(shape), "gate_mode": gmode})
                if "G" not in shape and n > 0 and not built:
                    ctx.violation("chain-refuses-plain-authenticators", "chain_authenticate refused a gate-free chain", {"shape": "".join(shape), "error": repr(err)})

    chain_outcomes = [s for s in inner_specs if s[0] in ("accept-user", "accept-anonymous", "reject-missing_credential", "reject-invalid_credential", "raise-ValueError", "raise-PermissionError", "raise-ProofError", "raise-RuntimeError")]
    for n in (1, 2, 3):
        combos = list(itertools.product(chain_outcomes, repeat=n))
        if not thorough and n == 3:
            combos = rng.sample(combos, 150)
        for combo in combos:
            log = []
            fns = [make_inner(i + 1, o, log) for i, (_, o, _) in enumerate(combo)]
            r, e = call(chain_authenticate(*fns), make_req(None))
            term = "CaseChain " + clist(f"({cN(i + 1)}, {coq_ires(o)})" for i, (_, o, _) in enumerate(combo))
            add_case(term, enc_out(r, e, log), {"kind": "chain", "members": [c[0] for c in combo], "result": repr(r), "exception": repr(e), "log": list(log)})
            ctx.case(["chain", [c[0] for c in combo]])

    hsub = [h for h in H if h[0] in ("absent", "empty", "multi-short", "malformed-garbage", "unknown-kid", "expired-by-1", "not-yet-valid", "bad-mac-tampered", "replayed", "valid",
                                       "malformed-ts-superscript-2", "malformed-ts-superscript-3-first", "malformed-ts-arabic-indic", "malformed-ts-fullwidth",
                                       "malformed-kid-latin1-letter", "malformed-nonce-latin1-letter", "malformed-mac-latin1-letter")]
    hsub += [(n, F("RMalformed"), (lambda v=v: v), False) for n, v in FUZZ[: (60 if thorough else 12)]]
    a_specs = [s for s in inner_specs if s[0] in ("accept-user", "accept-anonymous", "reject-invalid_credential", "raise-PermissionError", "raise-RuntimeError")]
    b_specs = [s for s in inner_specs if s[0] in ("accept-no-claims", "reject-missing_credential", "raise-ValueError", "raise-RuntimeError")]
    for mode, (hname, hcoq, maker, presend), (an, ao, _), (bn, bo, _) in itertools.product(("allow", "require"), hsub, a_specs, b_specs):
        log = []
        gate = make_gate(mode, log)
        value = header_value(hname, maker, presend, gate)
        del log[:]
        ch = chain_authenticate(require_all(gate, make_inner(1, ao, log)), make_inner(2, bo, log))
        r, e = call(ch, make_req(value))
        repl = {"kind": "chain(require_all(gate,a),b)", "mode": mode, "header_class": hname, "header": value, "a": an, "b": bn, "result": repr(r), "exception": repr(e), "log": list(log)}
        add_case(f"CaseChainRA {MODE_COQ[mode]} ({hcoq}) ({cN(1)}, {coq_ires(ao)}) ({cN(2)}, {coq_ires(bo)})", enc_out(r, e, log), repl)
        ctx.case(["chain-ra", mode, hname, an, bn])
        if mode == "require" and hname not in VALID:
            if any(x != "gate" for x in log):
                ctx.violation("chain-member-consulted-after-require-gate-failure", "chain(require_all(require-gate, a), b): a member was consulted although the gate failed for this request", repl)
            elif log != ["gate"] or not isinstance(e, PermissionError) or isinstance(e, ValueError):
                ctx.violation("gate-failure-swallowed-by-chain", "a failed required gate did not end chain(require_all(gate, a), b)", repl)
        if mode == "allow" and hname not in VALID and log[:2] != ["gate", ("inner", 1)]:
            ctx.violation("allow-gate-denies", "chain(require_all(allow-gate, a), b): the allow-mode gate kept an unproven request from reaching a", repl)

    # ------------------------------------------------------------------ 4b. several require_all wrappers around DISTINCT gates, ONE request
    # chain(require_all(gate_1, inner_1), ..., require_all(gate_n, inner_n)): every wrapper must evaluate ITS OWN gate for
    # this request before its inner authenticator is consulted; gates differ in key map / mode but share the claims key.
    def make_gate_i(mode: str, which: str, log: list[Any], idx: int) -> Any:
        secrets = {KID: (SECRET, LABEL)} if which == "A" else {KID_B: (OTHER_SECRET, LABEL)}
        g = proxy_proof_gate(ProxyProofConfig(mode=mode, origin_id=ORIGIN, secrets=secrets, skew_seconds=SKEW), now=lambda: NOW)
        orig = g._fn

        def logged(req: Any) -> Any:
            try:
                out = orig(req)
            except BaseException:
                log.append(("g", idx, False))
                raise
            log.append(("g", idx, out.get("verified") == "true" or mode == "allow"))
            return out

        g._fn = logged
        return g

    # what each kind of gate answers for each kind of token (model input; the correspondence checks it)
    TOKENS: dict[str, tuple[Any, dict[str, str]]] = {
        "none": (lambda: None, {"A": "HAbsent", "B": "HAbsent"}),
        "valid-for-A": (lambda: mint(), {"A": "HToken None", "B": F("RUnknownKid")}),
        "valid-for-B": (lambda: mint(secret=OTHER_SECRET, kid=KID_B), {"A": F("RUnknownKid"), "B": "HToken None"}),
        "garbage": (lambda: "not a proof", {"A": F("RMalformed"), "B": F("RMalformed")}),
        "ts-superscript": (lambda: sub_field(2, -1, "\u00b2"), {"A": F("RMalformed"), "B": F("RMalformed")}),
    }
    GATE_KINDS = [("allow", "A"), ("require", "A"), ("allow", "B"), ("require", "B")]
    W_INNER: list[tuple[str, Any]] = [("accept", None), ("reject-invalid", AuthFailure(AuthReason.INVALID_CREDENTIAL, "no")), ("raise-ValueError", ValueError("v")), ("no-inner", "NONE")]

    def check_multi(log: list[Any], inners: list[Any], gate_modes: list[str | None], r: Any, e: Any, repl: dict[str, Any]) -> None:
        """The property's predicate for a chain of wrappers, from the per-gate invocation log alone."""
        for pos, ev in enumerate(log):
            if ev[0] == "inner":
                i = ev[1] - 1
                if ("g", i, True) not in log[:pos]:
                    ran = [x for x in log[:pos] if x[0] == "g" and x[1] == i]
                    key = "chain-inner-consulted-after-own-gate-failed" if ran else "chain-inner-consulted-without-own-gate"
                    if not ran and gate_modes[i] == "require":
                        key = "chain-require-gate-skipped"
                    ctx.violation(key, f"wrapper {i}: inner authenticator consulted although this wrapper's own gate "
                                  + ("failed" if ran else "was never evaluated") + " for this request", repl)
        if isinstance(r, AuthContext) and e is None:
            last = log[-1] if log else None
            ok = last is not None and (
                (last[0] == "inner" and isinstance(inners[last[1] - 1], AuthContext))
                or (last[0] == "g" and last[2] and inners[last[1]] == "NONE")
            )
            if not ok:
                ctx.violation("chain-context-from-wrapper-whose-gate-never-ran", "the chain returned a context that no wrapper with an evaluated, passing gate produced", repl)

    def multi_cases() -> Any:
        for n in (2, 3):
            combos = list(itertools.product(itertools.product(GATE_KINDS, repeat=n), TOKENS, itertools.product(range(len(W_INNER)), repeat=n)))
            # the seeded-change class first: every 2-wrapper combination; 3-wrapper ones sampled in the quick tier
            if n == 3 and not thorough:
                combos = rng.sample(combos, 400)
            yield from combos

    for kinds, tname, inner_ix in multi_cases():
        log = []
        maker, seen = TOKENS[tname]
        value = maker()
        wrappers, terms, inners = [], [], []
        for i, ((gmode, which), ix) in enumerate(zip(kinds, inner_ix)):
            iname, spec = W_INNER[ix]
            outcome: Any = "NONE" if spec == "NONE" else (AuthContext(domain="cred", authenticated=True, principal=f"user-{i}") if spec is None else spec)
            inners.append(outcome)
            gate = make_gate_i(gmode, which, log, i)
            wrappers.append(require_all(gate, None if outcome == "NONE" else make_inner(i + 1, outcome, log)))
            terms.append(f"({MODE_COQ[gmode]}, {seen[which]}, {coq_inner(None if outcome == 'NONE' else i + 1, outcome)})")
        r, e = call(chain_authenticate(*wrappers), make_req(value))
        repl = {"kind": "chain of require_all wrappers around distinct gates, one request", "gates": [f"{m}:{w}" for m, w in kinds], "token": tname, "header": value,
                "inners": [W_INNER[ix][0] for ix in inner_ix], "result": repr(r), "exception": repr(e), "log": [list(x) for x in log]}
        add_case("CaseChainMulti " + clist(terms), enc_out(r, e, log), repl)
        ctx.case(["chain-multi", kinds, tname, inner_ix])
        ctx.count("multi_gate_chains")
        check_multi(log, inners, [m for m, _ in kinds], r, e, repl)
    ctx.sample({"chain": "require_all(require:A, reject) | require_all(require:B, accept)", "token": "valid-for-A", "expected": "gate B runs, raises unknown_kid; B's inner never consulted"})

    # the same with distinct custom PreconditionGates: equal claims key (also against the model) and different claims keys (oracle only)
    for same_key in (True, False):
        for n in (2, 3):
            for passes, inner_ix in itertools.product(itertools.product((True, False), repeat=n), itertools.product(range(len(W_INNER)), repeat=n)):
                if n == 3 and not thorough and rng.random() < 0.6:
                    continue
                log = []
                wrappers, terms, inners = [], [], []
                for i, (p, ix) in enumerate(zip(passes, inner_ix)):
                    spec = W_INNER[ix][1]
                    outcome = "NONE" if spec == "NONE" else (AuthContext(domain="cred", authenticated=True, principal=f"user-{i}") if spec is None else spec)
                    inners.append(outcome)

                    def gfn(req: Any, p: bool = p, i: int = i, log: list[Any] = log) -> Any:
                        log.append(("g", i, p))
                        if not p:
                            raise PermissionError(f"gate {i} refuses")
                        return dict_of_gclaims([1, 1, 1, 0])

                    gate = PreconditionGate(gfn, name=GKEY, claims_key=GKEY if same_key else f"gate-{i}")
                    wrappers.append(require_all(gate, None if outcome == "NONE" else make_inner(i + 1, outcome, log)))
                    gcoq = f"(GClaims {coq_gclaims([1, 1, 1, 0])})" if p else "(GRaise XPerm)"
                    terms.append(f"({gcoq}, {coq_inner(None if outcome == 'NONE' else i + 1, outcome)})")
                r, e = call(chain_authenticate(*wrappers), make_req(None))
                repl = {"kind": "chain of require_all wrappers around distinct custom gates, one request", "same_claims_key": same_key, "gate_passes": list(passes),
                        "inners": [W_INNER[ix][0] for ix in inner_ix], "result": repr(r), "exception": repr(e), "log": [list(x) for x in log]}
                if same_key:
                    add_case("CaseChainMultiCustom " + clist(terms), enc_out(r, e, log), repl)
                ctx.case(["chain-multi-custom", same_key, passes, inner_ix])
                ctx.count("multi_gate_chains")
                check_multi(log, inners, ["require" if not p else None for p in passes], r, e, repl)

    # ------------------------------------------------------------------ 5. through the Falcon app: the AuthContext the method sees
    server = RpcServer(C24Service, _C24Impl())
    body = request_bytes("whoami", pa.schema([]), None)
    http_inner = [s for s in inner_specs if s[0] in ("none", "accept-user", "accept-anonymous", "accept-spoofed-gate-claims", "reject-invalid_credential", "raise-PermissionError")]
    http_h = H if thorough else [h for h in H if h[0] in ("absent", "empty", "multi-valid", "malformed-garbage", "unknown-kid", "expired-by-1", "not-yet-valid", "bad-mac-other-secret", "replayed", "valid", "valid-oldest",
                                                   "malformed-ts-superscript-2", "malformed-kid-latin1-letter")]
    for mode, (hname, hcoq, maker, presend), (iname, outcome, ident) in itertools.product(("allow", "require"), http_h, http_inner):
        log = []
        gate = make_gate(mode, log)
        value = header_value(hname, maker, presend, gate)
        log2: list[Any] = []
        gate2 = make_gate(mode, log2)
        value2 = header_value(hname, maker, presend, gate2)
        del log[:], log2[:]
        r, e = call(require_all(gate, None if ident is None else make_inner(ident, outcome, log)), make_req(value))
        app = make_wsgi_app(server, authenticate=require_all(gate2, None if ident is None else make_inner(ident, outcome, log2)), prefix="", token_key=b"k" * 32,
                            enable_landing_page=False, enable_not_found_page=False, enable_describe_page=False)
        del _SEEN[:]
        headers = {"Content-Type": "application/vnd.apache.arrow.stream"}
        if value2 is not None:
            headers[PROOF_HEADER] = value2
        resp = falcon.testing.TestClient(app).simulate_post("/whoami", body=body, headers=headers)
        ctx.count("http_runs")
        ctx.case(["http", mode, hname, iname])
        repl = {"kind": "http", "mode": mode, "header_class": hname, "header": value2, "inner": iname, "status": resp.status_code,
                "method_saw": repr(_SEEN[:1]), "direct_result": repr(r), "direct_exception": repr(e)}
        if e is None:
            ok = resp.status_code == 200 and len(_SEEN) == 1 and enc_ctx(_SEEN[0]) == enc_ctx(r) and log2 == log
            if ok:
                try:
                    st = read_streams(resp.content)
                    ok = bool(st) and error_of(st[0]) is None
                except Exception:  # noqa: BLE001
                    ok = False
        elif isinstance(e, (ValueError, PermissionError)):
            ok = resp.status_code == 401 and not _SEEN and log2 == log
        else:
            ok = resp.status_code >= 500 and not _SEEN
        if not ok:
            ctx.violation("http-identity-differs", "the Falcon app does not hand the method the context require_all returned (or does not refuse when it raised)", repl)

    # ------------------------------------------------------------------ 6. HISTORIES on one gate instance with a small replay cache
    # [valid P] + noise (forged / bad-mac / unknown-kid / malformed / out-of-window tokens with fresh nonces, replays of P,
    # and a bounded number of other valid proofs) + [replay P].  A refused request must leave no trace: P's replay is
    # answered `replayed` unless >= capacity OTHER proofs were ACCEPTED in between, and the verdicts of a history are those of
    # the same history with the refused presentations deleted.
    def make_gate_cap(mode: str, cap: int, record: list[Any]) -> Any:
        g = proxy_proof_gate(ProxyProofConfig(mode=mode, origin_id=ORIGIN, secrets={KID: (SECRET, LABEL)}, skew_seconds=SKEW, replay_capacity=cap), now=lambda: NOW)
        orig = g._fn

        def logged(req: Any) -> Any:
            try:
                out = orig(req)
            except BaseException as exc:
                record.append(exc)
                raise
            record.append(out)
            return out

        g._fn = logged
        return g

    def verdict(x: Any) -> list[int]:
        if isinstance(x, BaseException):
            return [41, *enc_exn(x)]
        return [40, *(enc_gclaims(x) or [99])]

    def nonce_of(tok: str) -> str:
        return tok.split(".")[3]

    NOISE: dict[str, tuple[Any, str]] = {  # kind -> (token maker, Coq hdr as the UNCACHED verifier sees it)
        "forged-random-mac": (lambda: tamper(mint()), F("RBadMac")),
        "forged-other-secret": (lambda: mint(secret=OTHER_SECRET), F("RBadMac")),
        "forged-other-origin": (lambda: mint(origin="origin-2"), F("RBadMac")),
        "unknown-kid": (lambda: mint(kid="someone-else"), F("RUnknownKid")),
        "expired": (lambda: mint(now=NOW - SKEW - 1), F("RExpired")),
        "not-yet-valid": (lambda: mint(now=NOW + SKEW + 1), F("RNotYetValid")),
        "malformed-mac-short": (lambda: mint()[:-1], F("RMalformed")),
        "other-valid": (lambda: mint(), "HToken None"),
    }
    REFUSED_KINDS = [k for k in NOISE if k != "other-valid"]

    def run_history(mode: str, cap: int, toks: list[tuple[str, str | None]], final_via_require_all: bool) -> tuple[list[Any], Any, Any, list[Any]]:
        """toks: (kind, header value).  Returns (gate verdict per presentation, result / exception of the last
        presentation through require_all, inner log)."""
        record: list[Any] = []
        gate = make_gate_cap(mode, cap, record)
        ilog: list[Any] = []
        r = e = None
        for j, (_, value) in enumerate(toks):
            if j == len(toks) - 1 and final_via_require_all:
                inner = make_inner(1, user, ilog) if mode == "require" else None
                r, e = call(require_all(gate, inner), make_req(value))
            else:
                call(gate, make_req(value))
        return record, r, e, ilog

    hist_specs: list[tuple[str, int, list[str]]] = []
    caps = (1, 2, 3, 4, 8) if not thorough else (1, 2, 3, 4, 5, 6, 7, 8)
    for mode in ("allow", "require"):
        for cap in caps:
            for k in sorted({max(cap - 1, 0), cap, cap + 1, 2 * cap + 1}):
                for kind in REFUSED_KINDS:                       # k refused tokens of one kind
                    hist_specs.append((mode, cap, [kind] * k))
                hist_specs.append((mode, cap, [rng.choice(REFUSED_KINDS) for _ in range(k)]))       # mixed refused
                for a in sorted({0, cap - 1, cap} - {-1}):           # a OTHER accepted proofs mixed with refused ones
                    seq = ["other-valid"] * a + [rng.choice(REFUSED_KINDS) for _ in range(k)]
                    rng.shuffle(seq)
                    hist_specs.append((mode, cap, seq))
                hist_specs.append((mode, cap, [rng.choice(REFUSED_KINDS + ["replay-P"]) for _ in range(k + 1)]))
    for mode, cap, kinds in hist_specs:
        p_tok = mint()
        toks: list[tuple[str, str | None]] = [("P", p_tok)]
        for kind in kinds:
            toks.append(("replay-P", p_tok) if kind == "replay-P" else (kind, NOISE[kind][0]()))
        toks.append(("replay-P", p_tok))
        record, r, e, ilog = run_history(mode, cap, toks, True)
        ids: dict[str, int] = {}
        terms = []
        for kind, value in toks:
            hc = "HToken None" if kind in ("P", "replay-P") else NOISE[kind][1]
            n_id = ids.setdefault(nonce_of(value) if value and value.count(".") == 4 else value or "", len(ids) + 1)
            terms.append(f"({hc}, {cN(n_id)})")
        obs = [x for v in record for x in verdict(v)]
        accepted_between = sum(1 for kd in kinds if kd == "other-valid")
        repl = {"kind": "history on one gate instance", "mode": mode, "replay_capacity": cap, "presentations": [kd for kd, _ in toks], "tokens": [v for _, v in toks],
                "other_accepted_between": accepted_between, "gate_verdicts": [repr(v)[:90] for v in record],
                "final_through_require_all": repr(r) + (" claims=" + repr(dict(r.claims)) if isinstance(r, AuthContext) else ""), "final_exception": repr(e), "inner_log": list(ilog)}
        add_case(f"CaseHist {cap}%nat {MODE_COQ[mode]} " + clist(terms), obs, repl)
        ctx.case(["hist", mode, cap, kinds])
        ctx.count("gate_histories")
        ctx.tally("history_capacity", cap)
        # --- oracle, independent of the model
        first, last = record[0], record[-1]
        if not (isinstance(first, dict) and first.get("verified") == "true"):
            ctx.violation("history-fresh-proof-refused", "the first presentation of a valid proof was not accepted", repl)
        if accepted_between <= cap - 1:
            replayed = (isinstance(last, ProofError) and last.reason == "replayed") if mode == "require" else (isinstance(last, dict) and last.get("verified") == "false" and last.get("reason") == "replayed")
            if not replayed:
                ctx.violation("replay-accepted-after-refused-traffic", f"a proof accepted once verified again on replay although only {accepted_between} other proof(s) "
                              f"were accepted in between (capacity {cap}): refused presentations consumed replay slots", repl)
            if mode == "require" and (ilog or not is_proof_error(e) if e is not None else True):
                ctx.violation("replayed-proof-served", "require mode: a replayed proof reached the inner authenticator / was served", repl)
            if mode == "allow" and not (isinstance(r, AuthContext) and not r.authenticated and r.domain is None and r.principal is None):
                ctx.violation("replayed-proof-served", "allow mode: a replayed proof was attributed instead of proceeding as anonymous", repl)
        # "a refused request leaves no trace": same verdicts with the refused presentations deleted
        keep = [j for j, (kd, _) in enumerate(toks) if kd in ("P", "replay-P", "other-valid")]
        if len(keep) != len(toks):
            record2, _, _, _ = run_history(mode, cap, [toks[j] for j in keep], True)
            if [verdict(record[j]) for j in keep] != [verdict(v) for v in record2]:
                ctx.violation("refused-presentation-changes-later-verdict", "deleting the refused presentations from a history changes the verdict of a later presentation", 
                              {**repl, "verdicts_without_refused": [repr(v)[:90] for v in record2], "kept_positions": keep})
    ctx.sample({"history": "capacity 2: valid P, 3 forged tokens with fresh nonces (refused), P again", "expected": "replayed (require: ProofError, inner not consulted; allow: anonymous)"})

    # ------------------------------------------------------------------ model side
    header = "From Coq Require Import List NArith Bool.\nFrom VGI Require Import M_Gates Corr.\nImport ListNotations.\nOpen Scope N_scope."
    ok, bad, clog = ctx.coq_mismatches(header, "run_case", "bytes_eqb", cases, "case", "list N")
    ctx.count("model_cases", len(cases))
    ctx.obligation("correspondence:M_Gates.run_case", "correspondence", ok and not bad, clog if not ok else f"{len(bad)} of {len(cases)} cases disagree")
    for i in bad[:5]:
        shown = ctx.coq_show(header, f"run_case ({cases[i][0]})")
        ctx.violation("model-impl-disagree", "implementation and model decide differently", {**replays[i], "model_case": cases[i][0], "model": shown[-400:]})
    ctx.exhaustive = True
    ctx.assumptions += [
        "verify_proof's answer per header class is an input of the model (C22 verifies the verifier); classes are built from real minted tokens",
        "claims are compared as maps (gate key moved last on both sides); strings are interned to numbers shared by model input and observation",
        "inner authenticators are stubs that log their invocation and return / raise a fixed outcome",
    ]
