"""C41 Concurrent socket connections are isolated.

proof         : coq/prop/P_C41.v over model/M_ConnIso.v -- (1) a generic small-step system: any number of connections,
                each with a private deterministic machine, interleaved by an arbitrary schedule (list of connection ids
                of any length), sharing only the max_connections semaphore; (2) the private machine of one client
                connection over the wire core (M_Wire.run_pipe and its parts), one step per client action.
                Lemmas in proof/L_ConnIso.v (frame lemma, isolation and semaphore invariants, induction on the schedule)
                proof/L_ConnIsoWire.v (the machine run alone = the calls run one after the other on run_pipe) and
                proof/L_ConnIsoLive.v (every reachable state can be continued to all-Done).
regenerated   : the shape of _serve_socket_threaded._handle and of the accept loop (semaphore created iff
                max_connections is not None with that many permits; acquire before the transport is built and before
                serve; release in the finally of the try around serve; one thread per accepted connection started
                unconditionally) -> gen/G_ConnIso.v; tie/T_ConnIso.v proves it equal to the shape the model was written
                against and restates the bound over the regenerated permit expression.
correspondence: the REAL serve_unix / serve_tcp (threaded=True, max_connections in {None,1,2}) with 2-3 client
                connections stepping generated call scripts under seeded client-side schedules (harness/c41_driver.py);
                a gauge wrapped around RpcServer.serve counts the connections being served.  The observed linearisation
                (client steps + the server-side enter/exit events where they occurred) is replayed on the Coq model:
                per-connection traces, final phases, the number of served connections after EVERY step and the
                high-water mark must agree.  Oracle on the implementation itself: every connection's traces equal the
                traces of the same script run alone on the same server; gauge high-water <= max_connections; nobody
                is dropped; all connections leave serve() once their clients are gone.

Readings adopted.  "Served alone" = the same threaded server, same max_connections, this client only.  "The same
results" = per call: ordered log messages, result / header / data batches (rows, tag, application metadata), the
error (type + message) or exhaustion -- the wire core's client observation; ids, timing, tracebacks are not observed.
The shared implementation object is assumed to keep no mutable state that calls of different connections share (the
docstring of serve_unix puts thread-safety of the implementation on the caller); the interpreter service used here
has none.  A connection that finds all slots taken WAITS (documented: "accepted but queued until a slot is free"): its
client observes the same results later, which is what the theorem says (its private run is a solo run of as many
steps as it was allowed to take; once it is Done it is the complete solo run).  "None is dropped" is checked on the
implementation (every connection is served to the end of its script in every run) and proved in the form
C41_waiting_not_dropped and C41_all_can_complete (every run can be continued to one where all connections are Done,
proof/L_ConnIsoLive.v).
Scripts: calls after which the connection is reusable (unary, iterate stop/close/cancel, exchange close/cancel);
abandon only as a connection's last call; a stream whose init fails (raises, returns a non-Stream) is ALWAYS called through
its *_h method: with a headerless method the error is only seen at the first read, and what the client sends meanwhile (a
tick, or the end-of-input of close()) is taken for the next request -- the next call gets a protocol error, or serve() ends
the connection while its client is still connected (reproduced alone: exchange(init raises) + close() with zero reads, then
any call -> TransportError).  That is a single-connection matter (C04 "headerless stream init error desyncs the
connection", C01 key socket-headerless-init-outcome-unobserved-until-first-read) outside what run_pipe composes call by
call.  The controller reports a serve() that returns while its client is still connected as
threaded-server:serve-ended-before-client-disconnected.
First bind: RpcServer.serve binds the transport (RpcServer._notify_transport, one-shot on_serve_start hook) at the start of
every connection.  The served implementation (harness/c41_driver.C41Impl) creates its worker store in that hook and kv
programs put / get in it; on FRESH servers the hook is a scheduling point (it parks until the controller lets it finish)
and 2-3 connections arrive while the first bind is still running.  Oracle unchanged (results = alone-run); if the hook ran
more than once for the one bind and a connection's results differ, the key is serve-start-hook-refired-under-live-connection
(C42 owns "exactly once" itself; here it is the isolation consequence).
Shared memory: RpcServer.serve keeps a per-connection _ConnectionShm (dynamic attach of the client segment a request
advertises).  Scenario one-client-shm-segment-on-several-connections: 3 connections wrap their socket in a client-side
ShmPipeTransport over ONE client-owned segment (SHM_MIN_BATCH_BYTES = 0 for the scenario), and a sibling connection comes,
calls and closes between the shm-routed calls of another; oracle unchanged, key
shared-client-shm-segment-broken-by-sibling-connection.
The except/finally path of _handle (serve() raising) is exercised by an injected fault: the gauge wrapper raises after
the inner serve() returned for chosen connections; their slots must be released all the same.
"""
from __future__ import annotations

import json
import shutil
import tempfile
import time
from typing import Any

META = {
    "id": "C41",
    "technique": "Coq proof (small-step interleaving system over per-connection machines, frame lemma + invariants by induction on the "
    "schedule; machine-vs-run_pipe refinement) + regenerated _handle shape tie + schedule-controlled differential correspondence "
    "on the real threaded unix/tcp servers",
    "level_text": "Coq theorems for every schedule of any length and any number of connections: each connection's private state "
    "(its whole client observation) equals a solo run of its own script, equals the complete solo run once the connection is "
    "done, which equals its calls run one after the other on the wire core (run_pipe); at most max_connections connections are "
    "inside serve() at any point of any run; a waiting connection keeps its script untouched and waits only while max_connections "
    "others are served; every run can be continued until all connections are Done with their complete solo traces.  The model is tied to /repo by regenerating the semaphore/try-finally shape of "
    "_serve_socket_threaded and by replaying the observed linearisation of real concurrent runs (unix + tcp, max_connections "
    "None/1/2, 2-3 connections) on the model step by step.",
    "level_note": "Not proved from source: that RpcServer.serve touches only per-call/per-connection state (stack locals, thread-local "
    "contextvars, the connection's _ConnectionShm) -- this is the frame assumption of the model, validated by the correspondence "
    "runs (same program on several connections with interleaved stream steps) and by the solo-vs-concurrent oracle. "
    "Trusted: Coq kernel/vm_compute, the translator, the harness (controller + gauge), CPython's threading.Semaphore.",
    "design_ref": "§5 C41",
}

LEVELS = ["ERROR", "WARN", "INFO", "DEBUG", "TRACE"]
COQ_LEVEL = {"EXCEPTION": "EXC", "ERROR": "ERR", "WARN": "WARN", "INFO": "INFO", "DEBUG": "DEBUG", "TRACE": "TRACE"}
EXCS = ["ValueError", "RuntimeError", "KeyError", "InterpUserError", "InterpKindError"]


# --------------------------------------------------------------------------- generators
def gen_logs(rng: Any) -> list[Any]:
    out = []
    for _ in range(rng.choice([0, 0, 1, 1, 2])):
        extra = {rng.choice(["k", "detail", "tag"]): rng.choice(["v", "", "7", "ü"])} if rng.random() < 0.3 else {}
        out.append([rng.choice(LEVELS), rng.choice(["m", "", "héllo ☃", "l1\nl2", "log"]) + str(rng.randrange(100)), extra])
    return out


def gen_exc(rng: Any) -> list[str]:
    return [rng.choice(EXCS), rng.choice(["boom", "", "bad ünicode", "k"])]


def gen_step(rng: Any, kind: str) -> dict[str, Any]:
    meta = None if rng.random() < 0.7 else {rng.choice(["k", "app.key"]): rng.choice(["v", "", "ü"])}
    st: dict[str, Any] = {"logs": gen_logs(rng), "emit": {"rows": rng.choice([0, 1, 1, 3, 40]), "meta": meta}, "finish": False, "raise": None}
    if kind == "raise":
        st["raise"] = gen_exc(rng)
        if rng.random() < 0.5:
            st["emit"] = None
    elif kind == "finish":
        st["emit"], st["finish"] = None, True
    elif kind == "emit_finish":
        st["finish"] = True
    elif kind == "logonly":
        st["emit"] = None
    return st


def gen_program(rng: Any, kind: str) -> dict[str, Any]:
    if kind == "unary":
        res = {"ok": rng.choice([0, 1, -5, 2**40])} if rng.random() < 0.75 else {"raise": gen_exc(rng)}
        return {"logs": gen_logs(rng), "result": res}
    n = rng.choice([1, 2, 3, 4])
    steps = [gen_step(rng, rng.choices(["emit", "raise", "finish", "emit_finish", "logonly"], [80, 6, 5, 5, 4])[0]) for _ in range(n)]
    prog = {"init_logs": gen_logs(rng), "init": "ok", "header": rng.randrange(-3, 100), "steps": steps}
    r = rng.random()
    if r < 0.08:
        prog["init"] = {"raise": gen_exc(rng)}
    elif r < 0.13:
        prog["init"] = "bad_return"  # implementation fault: answered as a TypeError init error since repo 735475d
    elif r < 0.18:
        prog["header"] = None  # a *_h method then omits its declared header: also answered as a TypeError init error
    return prog


def gen_call(rng: Any, pool: dict[str, list[int]], progs: dict[int, dict[str, Any]], last: bool) -> list[Any]:
    kind = rng.choices(["unary", "producer", "exchange"], [25, 40, 35])[0]
    pid = rng.choice(pool[kind])
    if kind == "unary":
        return ["unary", pid]
    n = len(progs[pid]["steps"])
    h = "_h" if rng.random() < 0.4 else ""
    if progs[pid]["init"] != "ok":
        # a headerless stream whose init failed is only noticed at the first read: what the client sends meanwhile (a tick, or
        # the end-of-input of close()) is taken for the next request -- the next call is answered with a protocol error, or
        # serve() ends the connection while the client is still connected.  Single-connection matter (C04: "headerless
        # stream init error desyncs the connection"; C01 key socket-headerless-init-outcome-unobserved-until-first-read),
        # outside what run_pipe composes call by call: such programs are called through their *_h method.
        h = "_h"
    k = rng.choice([0, 1, 2, n, n + 1])
    afters = ["close", "cancel"] + (["abandon"] if last else [])
    if kind == "producer":
        return ["iterate", "producer" + h, pid, k, "stop" if rng.random() < 0.45 else rng.choice(afters)]
    return ["exchange", "exchange" + h, pid, k, rng.choice(afters)]


def gen_case(rng: Any, pid0: int, nconn: int) -> tuple[dict[int, dict[str, Any]], list[list[list[Any]]]]:
    """A pool of programs shared by the connections (the same stream program is often open on several at once)."""
    progs: dict[int, dict[str, Any]] = {}
    pool: dict[str, list[int]] = {"unary": [], "producer": [], "exchange": []}
    pid = pid0
    for kind in ("unary", "producer", "exchange", rng.choice(["producer", "exchange"])):
        pid += 1
        progs[pid] = gen_program(rng, "unary" if kind == "unary" else "stream")
        pool[kind].append(pid)
    scripts = []
    for _ in range(nconn):
        ncall = rng.choice([1, 2, 2, 3])
        scripts.append([gen_call(rng, pool, progs, last=(j == ncall - 1)) for j in range(ncall)])
    return progs, scripts


# --------------------------------------------------------------------------- Coq rendering (wire-core syntax, cf. props/C01.py)
def _s(x: str) -> str:
    from vlib.coqterm import cstr

    return cstr(x)


def _kv(d: dict[str, str] | None) -> str:
    return "[" + "; ".join(f"({_s(k)}, {_s(v)})" for k, v in (d or {}).items()) + "]"


def c_log(l: list[Any]) -> str:
    return f"{{| lvl := {COQ_LEVEL[l[0]]}; text := {_s(l[1])}; extra := {_kv(l[2])} |}}"


def c_exn(e: list[str]) -> str:
    from harness.interp import exc_kind, exc_text

    k = exc_kind(e[0])
    return f"{{| cls := {_s(e[0])}; emsg := {_s(exc_text(e[0], e[1]))}; kind := {'None' if k is None else '(Some ' + _s(k) + ')'} |}}"


def c_batch(rows: int, tag: int, meta: dict[str, str] | None) -> str:
    return f"{{| rows := {rows}%N; tag := {(tag if rows else 0)}%N; meta := {_kv(meta)} |}}"


def c_prog(p: dict[str, Any]) -> str:
    from vlib.coqterm import cZ

    if "result" in p:
        r = p["result"]
        res = f"UOk {cZ(r['ok'])}" if "ok" in r else f"URaise {c_exn(r['raise'])}"
        return f"(PUnary {{| ulogs := [{'; '.join(c_log(l) for l in p['logs'])}]; ures_of := {res} |}})"
    steps = []
    for i, st in enumerate(p["steps"]):
        em = "None" if st["emit"] is None else f"(Some {c_batch(st['emit']['rows'], i, st['emit']['meta'])})"
        ra = "None" if not st["raise"] else f"(Some {c_exn(st['raise'])})"
        steps.append(f"{{| slogs := [{'; '.join(c_log(l) for l in st['logs'])}]; emit := {em}; fin := {'true' if st['finish'] else 'false'}; sraise := {ra} |}}")
    init = p["init"]
    ires = "InitOk" if init == "ok" else ("InitBadReturn" if init == "bad_return" else f"(InitRaise {c_exn(init['raise'])})")
    hd = "None" if p["header"] is None else f"(Some {cZ(p['header'])})"
    return f"(PStream {{| ilogs := [{'; '.join(c_log(l) for l in p['init_logs'])}]; ires := {ires}; hdr := {hd}; steps := [{'; '.join(steps)}] |}})"


def c_script(sc: list[Any]) -> str:
    if sc[0] == "unary":
        return "(SUnary CbRecord)"
    h = "true" if sc[1].endswith("_h") else "false"
    a = {"stop": "AStop", "close": "AClose", "cancel": "ACancel", "abandon": "AAbandon"}[sc[4]]
    return f"({'SIter' if sc[0] == 'iterate' else 'SExch'} {h} {sc[3]}%nat {a} CbRecord)"


def c_event(e: list[Any]) -> str:
    from vlib.coqterm import cZ

    t = e[0]
    if t == "log":
        return f"ELog {c_log([e[1], e[2], e[3]])}"
    if t == "result":
        return f"EResult {cZ(e[1])}"
    if t == "header":
        return f"EHeader {cZ(e[1] if e[1] is not None else -999999)}"
    if t == "batch":
        return f"EBatch {c_batch(e[1], e[3] if e[3] is not None and e[3] >= 0 else 0, e[2])}"
    if t == "error":
        return f"EError {_s(e[1])} {_s(e[2])}"
    if t == "done":
        return "EDone"
    if t in ("blocked", "conn_lost"):
        return "EBlocked"
    return f"EError {_s('client_exc:' + str(e[1]))} {_s(str(e[2]) if len(e) > 2 else '')}"


def c_traces(trs: list[list[list[Any]]]) -> str:
    return "[" + "; ".join("[" + "; ".join(c_event(e) for e in t) + "]" for t in trs) + "]"


def c_calls(progs: dict[int, dict[str, Any]], calls: list[list[Any]]) -> str:
    return "[" + "; ".join(f"({c_prog(progs[c[1] if c[0] == 'unary' else c[2]])}, {c_script(c)})" for c in calls) + "]"


def c_nats(xs: list[int]) -> str:
    return "[" + "; ".join(f"{x}%nat" for x in xs) + "]"


PHASE_CODE = {"fresh": 0, "queued": 1, "serving": 2, "zombie": 3, "done": 4}
HEADER = ("From Coq Require Import List NArith ZArith Bool.\nFrom VGI Require Import Corr M_Wire M_ConnIso.\nImport ListNotations.\nOpen Scope N_scope.\n")
OUT_TY = "list (list (list event)) * list N * list nat * nat"
CALLS_TY = "list (prog * script)"


def translate(ctx: Any) -> None:
    """Regenerated leg: shape of _serve_socket_threaded -> coq/gen/G_ConnIso.v"""
    from translate import t_c41_handle

    ctx.gen("G_ConnIso", lambda: t_c41_handle.module(ctx.repo))


# fixed scenarios: every arm of conn_step / cstep has one that reaches it
_OK = {"logs": [["INFO", "s", {}]], "emit": {"rows": 1, "meta": None}, "finish": False, "raise": None}
_P_UNARY = {"logs": [["INFO", "u", {}]], "result": {"ok": 7}}
_P_STREAM = {"init_logs": [["WARN", "i", {}]], "init": "ok", "header": 5, "steps": [_OK, _OK, _OK]}
_P_BAD = {"init_logs": [], "init": "bad_return", "header": 5, "steps": [_OK]}
_P_NOHDR = {"init_logs": [["INFO", "i6", {}]], "init": "ok", "header": None, "steps": [_OK]}
_P_RAISE = {"init_logs": [], "init": "ok", "header": 5, "steps": [_OK, {"logs": [], "emit": None, "finish": False, "raise": ["ValueError", "boom"]}]}


def fixed_scenarios() -> list[tuple[str, dict[int, dict[str, Any]], list[list[list[Any]]], list[int | None], list[int] | None, tuple[int, ...]]]:
    progs = {1: _P_UNARY, 2: _P_STREAM, 3: _P_RAISE, 5: _P_BAD, 6: _P_NOHDR}
    faults = [[["unary", 1], ["iterate", "producer_h", 5, 1, "close"], ["unary", 1]], [["exchange", "exchange_h", 6, 1, "close"], ["iterate", "producer", 6, 1, "close"]],
              [["exchange", "exchange_h", 5, 2, "cancel"], ["iterate", "producer", 2, 0, "stop"]]]
    same_stream = [[["iterate", "producer", 2, 0, "stop"]], [["iterate", "producer", 2, 0, "stop"]], [["exchange", "exchange", 2, 3, "close"]]]
    # strict alternation: every connection has the same stream program open and ticks it in turn
    rr = [0, 0, 1, 1, 2, 2] + [0, 1, 2] * 8
    three = [[["unary", 1], ["iterate", "producer_h", 2, 2, "close"]], [["exchange", "exchange", 2, 2, "cancel"], ["unary", 1]],
             [["iterate", "producer", 3, 0, "stop"], ["iterate", "producer", 2, 1, "abandon"]]]
    return [
        ("same-stream-program-interleaved", progs, same_stream, [None, 2, 1], rr, ()),
        ("queueing-three-connections", progs, three, [None, 1, 2], None, ()),
        # serve() of connections 0 and 2 raises when it ends (injected): _handle must still release their slots
        ("serve-raises-releases-slot", progs, three, [1, 2], None, (0, 2)),
        # implementation faults (non-Stream result, missing declared header) are answered and the connection goes on
        ("implementation-faults-answered", progs, faults, [None, 1, 2], None, ()),
        ("abandon-releases-slot", progs, [[["exchange", "exchange_h", 2, 1, "abandon"]], [["iterate", "producer", 2, 1, "abandon"]], [["unary", 1]]], [1, 2], None, ()),
    ]


_REPLAY: dict[str, Any] | None = None


def replay(ctx: Any, data: dict[str, Any]) -> None:
    """./check C41 --replay FILE: re-run exactly the recorded programs / scripts / transport / max_connections -- first under
    the recorded schedule, then under further seeded schedules -- with all oracles and the model correspondence."""
    global _REPLAY
    rp = data.get("replay", data)
    if not isinstance(rp, dict) or "scripts" not in rp or "programs" not in rp:
        run(ctx)
        return
    _REPLAY = rp
    try:
        run(ctx)
    finally:
        _REPLAY = None


def run(ctx: Any) -> None:
    translate(ctx)
    ctx.prove(
        ["prop/P_C41.vo", "tie/T_ConnIso.vo"],
        {
            "P_C41": ["C41_isolated", "C41_alone_is_solo", "C41_served_le_max_connections", "C41_waiting_not_dropped", "C41_all_can_complete"],
            "T_ConnIso": ["handle_shape_tie", "C41_source_served_le_max_connections"],
        },
    )

    from harness import c41_driver as D
    from harness import interp as I

    thorough = ctx.tier == "thorough"
    rng = ctx.rng
    tmp = tempfile.mkdtemp(prefix="c41-")
    handles: dict[tuple[str, int | None], Any] = {}

    def handle(kind: str, maxc: int | None) -> Any:
        if (kind, maxc) not in handles:
            handles[(kind, maxc)] = D.ServerHandle(kind, maxc, tmp)
        return handles[(kind, maxc)]

    ctx.rule = ("case = (transport kind unix|tcp, max_connections None|1|2, 2-3 connection scripts of 1-3 calls over a shared pool of generated "
                "programs, seeded client-side schedule incl. steps of waiting connections and requests sent while waiting); fixed scenarios reach "
                "every arm of the model's step functions; distinct by (max_connections, scripts+programs, observed schedule); non-trivial = at "
                "least two connections were inside their scripts at the same time (interleaved steps) or one had to wait for a slot")
    model_cases: list[tuple[str, str]] = []
    model_info: list[dict[str, Any]] = []
    solo_cases: dict[str, tuple[str, str]] = {}
    solo_cache: dict[tuple[str, int | None, str], list[list[list[Any]]]] = {}
    t_impl = time.time()
    case_no = 0

    def one_case(name: str, kind: str, maxc: int | None, progs: dict[int, dict[str, Any]], scripts: list[list[list[Any]]], fixed: list[int] | None,
                 serve_raises: tuple[int, ...] = (), first_bind: int = 0, seg: Any = None) -> None:
        nonlocal case_no
        case_no += 1
        h = handle(kind, maxc)
        if getattr(h, "broken", False):
            # a connection hung on this server before (already reported): its slots / threads are in an unknown state
            ctx.tally("skipped", f"{kind}/{maxc}: server hung earlier")
            return
        repl0 = {"scenario": name, "transport": kind, "max_connections": maxc, "programs": progs, "scripts": scripts,
                 "arrivals_during_first_bind": first_bind, "shared_client_shm_segment": seg is not None}
        # ---- the reference first: every connection script alone on the same server
        alone: list[list[list[list[Any]]]] = []
        for i, sc in enumerate(scripts):
            sk = json.dumps([sc, [progs[c[1] if c[0] == 'unary' else c[2]] for c in sc]], sort_keys=True)
            key = (kind, maxc, sk, seg is not None)
            if key not in solo_cache:
                rs = D.run_case(h, [sc], rng, f"k{case_no}s{i}", shm_segment=seg)
                ctx.count("impl_runs")
                ctx.count("solo_runs")
                if rs["anomalies"]:
                    ctx.violation("threaded-server:solo-run-anomaly", "; ".join(rs["anomalies"]), {**repl0, "connection": i})
                    h.broken = True
                    return
                solo_cache[key] = rs["traces"][0]
                solo_cases.setdefault(sk, (c_calls(progs, sc), c_traces(rs["traces"][0])))
            alone.append(solo_cache[key])
        if first_bind:
            # a FRESH server whose on_serve_start (it creates the worker store the kv programs use) is a scheduling point:
            # `first_bind` connections arrive while the hook of the very first bind is still running
            hc = D.ServerHandle(kind, maxc, tmp, park_hook=True)
            r = D.run_case(hc, scripts, rng, f"k{case_no}", fixed_schedule=fixed, serve_raises=serve_raises, arrivals_during_first_bind=first_bind)
            ctx.tally("on_serve_start_runs_per_fresh_server", r["hook_runs"])
        else:
            hc = h
            r = D.run_case(h, scripts, rng, f"k{case_no}", fixed_schedule=fixed, serve_raises=serve_raises, shm_segment=seg)
        ctx.count("impl_runs")
        repl = {**repl0, "schedule": r["schedule"]}
        sched = r["schedule"]
        interleaved = any(sched[j] != sched[j + 1] for j in range(len(sched) - 1))
        waited = maxc is not None and any(a == "enter" and any(b == "exit" for b, _ in r["gauge_events"][:idx]) for idx, (a, _) in enumerate(r["gauge_events"]))
        ctx.case([maxc, scripts, {str(k): v for k, v in progs.items()}, sched], nontrivial=interleaved or waited)
        ctx.tally("transport", kind)
        ctx.tally("max_connections", maxc)
        ctx.tally("connections", len(scripts))
        ctx.tally("scenario", name)
        ctx.tally("schedule_len", min(len(sched) // 10 * 10, 60))
        ctx.tally("some_connection_waited", waited)
        for sc in scripts:
            for c in sc:
                ctx.tally("call", c[0] + ("" if c[0] == "unary" else ":" + c[4]))
        # ---- anomalies of the run itself (hangs are observations, never harness hangs)
        if r["anomalies"]:
            hc.broken = True
            detail = {**repl, "serve_raises_injected_for": list(serve_raises), "gauge_events": r["gauge_events"], "phases_when_stopped": r["phases"],
                      "client_probes_after_the_hang": r["probes"]}
            named = False
            # (1) what the clients saw, against their alone-runs: a finished call that differs, or a connection that answers
            #     with EOF / reset where it answers with results when alone
            for i in range(len(scripts)):
                seen = r["probes"].get(i) if isinstance(r["probes"].get(i), list) else (r["traces"][i] + ([r["partial"][i]] if r["partial"][i] else []))
                lost = any(e[0] in ("conn_lost", "client_exc") for t in seen for e in t)
                lost_alone = any(e[0] in ("conn_lost", "client_exc") for t in alone[i] for e in t)
                done_calls = seen[:-1] if (seen and (isinstance(r["probes"].get(i), list) or r["partial"][i])) else seen
                if lost and not lost_alone:
                    named = True
                    ctx.violation("connection-lost-instead-of-results-it-gets-when-served-alone",
                                  f"connection {i} ({r['phases'][i]} when the run stopped) is answered with EOF / reset; alone it gets its results",
                                  {**detail, "connection": i, "concurrent": seen, "alone": alone[i]})
                elif done_calls != alone[i][: len(done_calls)]:
                    named = True
                    ctx.violation("shared-client-shm-segment-broken-by-sibling-connection" if seg is not None else "concurrent-trace-differs-from-solo-run",
                                  f"connection {i} observed something else than when served alone"
                                  + (" (all connections advertise one client-owned shared-memory segment; a sibling connection came, called and closed in between)" if seg is not None else ""),
                                  {**detail, "connection": i, "concurrent": seen, "alone": alone[i]})
            for a in r["anomalies"]:
                if a.startswith("hang") and "queued, but none entered" in a:
                    key = "queued-connection-never-served-although-a-slot-is-free"
                elif a.startswith("hang"):
                    key = "connection-hang"
                else:
                    key = a.split(":")[0]
                if key in ("peer-address-unavailable",) and named:
                    continue
                ctx.violation(f"threaded-server:{key}", a, detail)
            return
        # ---- oracle 1: no more than max_connections served at once (the gauge is in the implementation)
        if maxc is not None and r["hw"] > maxc:
            ctx.violation("more-than-max_connections-served-at-once", f"gauge high-water {r['hw']} > max_connections {maxc}", {**repl, "gauge_events": r["gauge_events"]})
        # ---- oracle 2: nobody dropped -- every connection ran its script to the end and left serve()
        if not r["anomalies"] and any(p != "done" for p in r["phases"]):
            ctx.violation("connection-not-served-to-completion", f"final phases {r['phases']}", repl)
        # ---- oracle 3: same results as alone
        for i in range(len(scripts)):
            if r["traces"][i] != alone[i]:
                if seg is not None:
                    ctx.violation("shared-client-shm-segment-broken-by-sibling-connection",
                                  f"connection {i} observed something else than when served alone: all connections advertise one client-owned "
                                  "shared-memory segment, and what a sibling connection did (e.g. closing) changed this connection's shm-routed calls",
                                  {**repl, "connection": i, "concurrent": r["traces"][i], "alone": alone[i]})
                elif first_bind and r["hook_runs"] > 1:
                    ctx.violation("serve-start-hook-refired-under-live-connection",
                                  f"connection {i} observed something else than when served alone: on_serve_start ran {r['hook_runs']} times for one bind and "
                                  "re-initialised the worker state under a connection that was already being served",
                                  {**repl, "connection": i, "concurrent": r["traces"][i], "alone": alone[i], "on_serve_start_runs": r["hook_runs"]})
                else:
                    ctx.violation("concurrent-trace-differs-from-solo-run", f"connection {i} observed something else than when served alone",
                                  {**repl, "connection": i, "concurrent": r["traces"][i], "alone": alone[i]})
        # ---- model input: the observed linearisation
        mc = "None" if maxc is None else f"(Some {maxc}%nat)"
        inp = f"({mc}, [{'; '.join(c_calls(progs, sc) for sc in scripts)}], {c_nats(sched)})"
        out = (f"([{'; '.join(c_traces(t) for t in r['traces'])}], [{'; '.join(str(PHASE_CODE[p]) + '%N' for p in r['phases'])}], "
               f"{c_nats(r['served'])}, {r['hw']}%nat)")
        if not r["anomalies"]:
            model_cases.append((inp, out))
            model_info.append({**repl, "impl": {"traces": r["traces"], "phases": r["phases"], "served": r["served"], "hw": r["hw"]}})
        if case_no <= 3:
            ctx.sample({"scenario": name, "transport": kind, "max_connections": maxc, "scripts": scripts, "schedule": sched, "served": r["served"], "hw": r["hw"]})

    if _REPLAY is not None:
        rp = _REPLAY
        progs = {int(k): v for k, v in rp["programs"].items()}
        for pid, p in progs.items():
            I.register(pid, p)
        raises = tuple(rp.get("serve_raises_injected_for", ()))
        kinds = [rp["transport"]] if rp.get("transport") in ("unix", "tcp") else ["unix", "tcp"]
        for kind in kinds:
            # the recorded linearisation first (its entries are taken as the controller's choices), then seeded schedules
            fb = int(rp.get("arrivals_during_first_bind") or 0)
            one_case("replay:" + str(rp.get("scenario")), kind, rp.get("max_connections"), progs, rp["scripts"], list(rp.get("schedule") or []) or None, raises, fb)
            for _ in range(6):
                one_case("replay:" + str(rp.get("scenario")), kind, rp.get("max_connections"), progs, rp["scripts"], None, raises, fb)
    for name, progs, scripts, maxcs, fixed, raises in ([] if _REPLAY is not None else fixed_scenarios()):
        for pid, p in progs.items():
            I.register(pid, p)
        for kind in ("unix", "tcp"):
            for maxc in maxcs:
                one_case(name, kind, maxc, progs, scripts, fixed if (fixed is not None and maxc is None) else None, raises)
    # ---- connections arriving during the very first bind of a fresh server (on_serve_start still running)
    if _REPLAY is None:
        kvp: dict[int, dict[str, Any]] = {}
        kv_scripts: list[list[list[Any]]] = []
        for ci in range(3):
            put, get = 40 + 2 * ci, 41 + 2 * ci
            kvp[put] = {"logs": [], "result": {"ok": 0}, "kv": ["put", f"key{ci}", 11 * (ci + 1)]}
            kvp[get] = {"logs": [["INFO", f"get{ci}", {}]], "result": {"ok": 11 * (ci + 1)}, "kv": ["get", f"key{ci}"]}
            kv_scripts.append([["unary", put], ["unary", get], [["iterate", "producer", 2, 0, "stop"], ["exchange", "exchange", 2, 2, "close"], ["unary", 1]][ci], ["unary", get]])
        kvp.update({1: _P_UNARY, 2: _P_STREAM})
        for pid, p in kvp.items():
            I.register(pid, p)
        for kind in ("unix", "tcp"):
            for maxc in (None, 2, 1) + ((3,) if thorough else ()):
                for arrivals in (2, 3):
                    for _ in range(3 if thorough else 1):
                        one_case("arrivals-during-first-bind", kind, maxc, kvp, kv_scripts, None, (), arrivals)
    # ---- several connections of one client advertising the SAME client-owned shared-memory segment (dynamic attach path)
    if _REPLAY is None:
        import vgi_rpc.shm as shm_module
        from vgi_rpc.shm import ShmSegment

        shm_scripts = [[["unary", 1], ["exchange", "exchange", 2, 3, "close"], ["unary", 1], ["iterate", "producer", 2, 0, "stop"]],
                       [["unary", 1]],
                       [["exchange", "exchange_h", 2, 1, "close"], ["unary", 1]]]
        # connection 1 comes, makes a call and goes between the calls of connection 0; then 2 likewise
        shm_fixed = [0, 0, 1, 1, 1, 0, 0, 2, 2, 0, 2, 2, 2, 2, 2, 0, 0]
        saved_min = shm_module.SHM_MIN_BATCH_BYTES
        shm_module.SHM_MIN_BATCH_BYTES = 0  # route even small batches through the segment
        try:
            for kind in ("unix", "tcp"):
                for maxc in ((None, 2, 3) if thorough else (None, 2)):
                    for fx in ((shm_fixed, None, None) if thorough else (shm_fixed, None)):
                        sg = ShmSegment.create(1 << 20)
                        try:
                            one_case("one-client-shm-segment-on-several-connections", kind, maxc, {1: _P_UNARY, 2: _P_STREAM}, shm_scripts, fx, (), 0, sg)
                        finally:
                            sg.unlink()
                            sg.close()
        finally:
            shm_module.SHM_MIN_BATCH_BYTES = saved_min
    n_random = 0 if _REPLAY is not None else (140 if thorough else 36)
    pid0 = 100
    for j in range(n_random):
        nconn = rng.choice([2, 3, 3] + ([4] if thorough else []))
        progs, scripts = gen_case(rng, pid0, nconn)
        pid0 += 10
        for pid, p in progs.items():
            I.register(pid, p)
        kind = ("unix", "tcp")[j % 2]
        maxc = (None, 1, 2, 1, 2, None)[(j // 2) % 6] if not thorough else rng.choice([None, 1, 2, 3])
        one_case("generated", kind, maxc, progs, scripts, None, tuple(i for i in range(nconn) if rng.random() < 0.1))
    ctx.log(f"implementation runs: {ctx.counters.get('impl_runs', 0)} in {time.time() - t_impl:.1f}s")
    for (kind, maxc), h in handles.items():
        if h.died:
            ctx.violation("threaded-server:acceptor-died", f"{kind}/{maxc}: {h.died[0]!r}", {"transport": kind, "max_connections": maxc})

    # ---- model side
    ok1, bad1, log1 = ctx.coq_mismatches(HEADER, "run_case", "case_eqb", model_cases, f"option nat * list ({CALLS_TY}) * list nat", OUT_TY, shard=12)
    ctx.obligation("correspondence:M_ConnIso.run_case", "correspondence", ok1 and not bad1 and bool(model_cases),
                   log1 if not ok1 else f"{len(bad1)} of {len(model_cases)} observed linearisations disagree with the model")
    for i in bad1[:3]:
        shown = ctx.coq_show(HEADER, f"run_case {model_cases[i][0]}")
        ctx.violation("model-impl-disagree:concurrent-run", "the model replaying the observed schedule gives other traces / phases / served counts than the implementation",
                      {**model_info[i], "model": shown[-2500:]})
    solos = list(solo_cases.values())
    # one evaluation for both readings of "alone": the machine run alone (solo_case) and the calls one after the other on run_pipe (seq_calls)
    hdr2 = HEADER + "Definition both (cs : list (prog * script)) := (solo_case cs, seq_calls cs).\n"
    ok2, bad2, log2 = ctx.coq_mismatches(hdr2, "both", "pair_eqb (list_eqb trace_eqb) (list_eqb trace_eqb)", [(a, f"({b}, {b})") for a, b in solos],
                                         CALLS_TY, "list (list event) * list (list event)", shard=40)
    ctx.obligation("correspondence:M_ConnIso.solo_case+seq_calls(run_pipe)", "correspondence", ok2 and not bad2 and bool(solos),
                   log2 if not ok2 else f"{len(bad2)} of {len(solos)} solo runs disagree with the machine run alone / with run_pipe call by call")
    for i in bad2[:2]:
        shown = ctx.coq_show(hdr2, f"both {solos[i][0]}")
        ctx.violation("model-impl-disagree:solo-run", "a connection served alone observes something else than the model (machine alone, run_pipe per call)",
                      {"calls": solos[i][0][:3000], "impl": solos[i][1][:3000], "model": shown[-2500:]})
    ctx.count("model_cases", len(model_cases) + 2 * len(solos))
    shutil.rmtree(tmp, ignore_errors=True)
    ctx.assumptions += [
        "frame assumption of the model: RpcServer.serve reads/writes only state private to its connection (stack locals, thread-local contextvars, "
        "the connection's _ConnectionShm) apart from the read-mostly RpcServer object; validated by the correspondence, not derived from the source",
        "the implementation object keeps no mutable state shared between connections (serve_unix's docstring puts that on the caller)",
        "code between two steps of the schedule is atomic w.r.t. the other connections as far as the OBSERVATIONS go: server threads run freely "
        "between client steps; the controller serialises client steps and waits for server-side enter/exit events",
        "client TransportError (EOF/EPIPE after serve() raised) is read as the wire core's EBlocked",
        "threading.Semaphore admits at most its initial value of holders (CPython)",
        "servers are long-lived per (transport, max_connections) and shared by the cases of a run; leaked daemon threads end with the process",
    ]
