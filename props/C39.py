"""C39 Introspection is faithful and the protocol hash is a stable identity.

proof         : coq/prop/P_C39.v over model/M_Introspect.v (describe rows, hashed payload, parse; the version-gate
                exemption of __describe__ is M_Version.gate ... true, proved for C09 and cited)
regenerated   : compute_protocol_hash (the h.update sequence), build_describe_batch (the per-method append table and the
                sorted iteration), _DESCRIBE_FIELDS, DESCRIBE_VERSION, REQUEST_VERSION, MethodType values
                -> gen/G_Introspect.v ; tie/T_Introspect.v proves them equal to the modelled tables and restates the
                theorems over the generated tables
correspondence: generated Protocol classes (<= 6 methods) and single-point edits of them; for each service the real
                build_describe_batch (methods mapping handed over in a shuffled order) / compute_protocol_hash (bytes fed
                to SHA-256 recorded) / parse_describe_batch against the model: payload bytes, rows, metadata, parsed
                description; for each (base, edit) pair real hash equality against model payload equality; __describe__
                under version mismatch (socket + HTTP) against the model's describe_call.
oracle        : independent of introspect.py: wire-equality of two services is decided on rpc_methods() output
                (name -> kind, has_return, params/result schema, header schema, is_exchange; schemas compared with
                check_metadata=True) and the protocol name; hash equal <=> wire-equal is demanded on every pair.  The
                ServiceDescription obtained through the real clients (introspect over a pipe, http_introspect) must list
                exactly those methods with exactly those values.  Hashes are recomputed in fresh interpreter processes
                with other PYTHONHASHSEEDs.

Readings adopted where the statement leaves room (choose the one under which a correct implementation passes):
* "wire-relevant detail" = what the first sentence enumerates (method names, kinds, has_return, parameter and result
  Arrow schemas, header schemas, exchange flags) plus the protocol name.  A parameter retyped between two Python types
  that map to the same Arrow type (two ArrowSerializableDataclass types -> binary, two Enums -> dictionary) does not
  change the hash and is not counted as a wire change; likewise a state class swapped for another of the same
  producer/exchange kind, a header class swapped for one with the same ARROW_SCHEMA, and the declared protocol_version
  (documented as "not part of the protocol_hash payload").  These pairs are run and tallied as notes, never alarms.
* "identical across processes": same source, fresh interpreter, different PYTHONHASHSEED.
* a header class whose ARROW_SCHEMA has no field (marker class, or Transient fields only) IS a header: the server writes
  a header stream and the client reads it, so `Stream[S]` vs `Stream[S, Marker]` is a wire-relevant difference
  (has_header must be True, header_schema the serialized empty schema, the hashes must differ).  The model carries the
  header as `option bytes`, so "absent" and "present with an empty schema" are different values.
"""
from __future__ import annotations

import copy
import hashlib
import io
import json
import os
import subprocess
import sys
import threading
from dataclasses import dataclass
from enum import Enum
from typing import Annotated, Any, Optional, Protocol  # noqa: F401  (names used by generated sources)

import pyarrow as pa

from vgi_rpc.rpc import (  # noqa: F401
    AnnotatedBatch,
    CallContext,
    ExchangeState,
    OutputCollector,
    ProducerState,
    RpcServer,
    Stream,
    StreamState,
)
from vgi_rpc.utils import ArrowSerializableDataclass, ArrowType, Transient  # noqa: F401

META = {
    "id": "C39",
    "technique": "Coq proof (payload injectivity over a separator/length-framed layout, canonical sorting, parse∘build) "
    "+ regenerated hash-update sequence and describe-row table + differential correspondence on generated services and edits",
    "level_text": "Coq theorems for all service descriptions: the hashed payload is injective on (protocol name, ordered rows: "
    "name, type, has_return, has_header, is_exchange, params, result, header schema); hence under SHA-256 collision-freeness "
    "equal hash <=> equal contract; the hash ignores method order, server id, protocol_version, docstrings, defaults, type "
    "names, param docs; parse(build(svc)) lists exactly the methods with their fields; __describe__ is answered whatever "
    "version the client sent. The payload layout and the row table in the theorems are regenerated from introspect.py on "
    "every run; the hand model is tied by running the real functions on generated services and single-point edits.",
    "level_note": "Trusted: Coq kernel (vm_compute), t_c39_hashseq translator, harness. Assumed, checked on every blob seen: "
    "schema.serialize() is an encapsulated IPC message ff ff ff ff | int32 len | metadata (self-delimiting). Assumed: names are "
    "identifiers (no 0x1e/0x1f), SHA-256 collision-free (explicit hypothesis), Arrow schema serialization deterministic and "
    "injective (validated by the oracle on every edit), UTF-8 preserves code-point order (sorting).",
    "design_ref": "§5 C39",
}

# ---------------------------------------------------------------------------
# module-level vocabulary of the generated services (type hints must resolve at module level)
# ---------------------------------------------------------------------------


@dataclass
class C39Prod(ProducerState):
    n: int = 0

    def produce(self, out: OutputCollector, ctx: CallContext) -> None:
        out.finish()


@dataclass
class C39Prod2(ProducerState):
    label: str = ""
    k: float = 0.0

    def produce(self, out: OutputCollector, ctx: CallContext) -> None:
        out.finish()


@dataclass
class C39Exch(ExchangeState):
    n: int = 0

    def exchange(self, input: AnnotatedBatch, out: OutputCollector, ctx: CallContext) -> None:
        out.emit(input.batch)


@dataclass
class C39Raw(StreamState):
    n: int = 0

    def process(self, input: AnnotatedBatch, out: OutputCollector, ctx: CallContext) -> None:
        out.finish()


@dataclass(frozen=True)
class C39H1(ArrowSerializableDataclass):
    a: int


@dataclass(frozen=True)
class C39H1b(ArrowSerializableDataclass):  # same ARROW_SCHEMA as C39H1
    a: int


@dataclass(frozen=True)
class C39H2(ArrowSerializableDataclass):
    a: int
    b: str


@dataclass(frozen=True)
class C39H3(ArrowSerializableDataclass):  # C39H1 with the field nullable
    a: int | None


@dataclass(frozen=True)
class C39H0(ArrowSerializableDataclass):  # marker header: no Arrow field at all (ARROW_SCHEMA is empty, hence falsy)
    pass


@dataclass(frozen=True)
class C39H0t(ArrowSerializableDataclass):  # only a Transient field: same empty ARROW_SCHEMA
    cache: Annotated[int, Transient()] = 0


@dataclass(frozen=True)
class C39D0(ArrowSerializableDataclass):  # zero-field dataclass as parameter / result / element type
    pass


@dataclass
class C39Prod0(ProducerState):  # producer state without any field
    def produce(self, out: OutputCollector, ctx: CallContext) -> None:
        out.finish()


@dataclass(frozen=True)
class C39D1(ArrowSerializableDataclass):
    x: int


@dataclass(frozen=True)
class C39D2(ArrowSerializableDataclass):
    y: str
    z: float


class C39E1(Enum):
    A = "a"


class C39E2(Enum):
    P = "p"
    Q = "q"


# type key -> annotation source.  Two keys in the same ARROW_CLASS map to the same Arrow field (type, nullability).
TYPES = [
    "int", "float", "str", "bytes", "bool", "list[int]", "list[str]", "dict[str, int]", "frozenset[float]",
    "int | None", "str | None", "float | None", "list[int] | None", "bytes | None",
    "Annotated[int, ArrowType(pa.int32())]", "Annotated[int, ArrowType(pa.uint8())]", "Annotated[str, ArrowType(pa.large_utf8())]",
    "list[list[int]]", "dict[str, list[float]]", "C39D1", "C39E1", "C39D0", "list[C39D0]",
]
SAME_ARROW = {"C39D1": "C39D2", "C39E1": "C39E2", "bytes": "C39D1", "list[int]": "frozenset[int]", "C39D0": "C39D1"}
BINARY_LIKE = {"bytes", "C39D0", "C39D1", "C39D2"}  # all of them are a `binary` parameter field
NO_NULL_FLIP = ("C39D0", "C39D1", "C39E1", "list[C39D0]")
STATES = ["C39Prod", "C39Exch", "C39Raw", "C39Prod0"]
STATE_KIND = {"C39Prod": "producer", "C39Prod0": "producer", "C39Prod2": "producer", "C39Exch": "exchange", "C39Raw": "raw"}
EMPTY_HEADERS = ["C39H0", "C39H0t"]  # header classes whose ARROW_SCHEMA has no field: still a header on the wire
HEADERS = [None, "C39H1", "C39H2", "C39H0", "C39H0t"]
RETS = [None, "int", "str", "float | None", "list[int]", "C39D1", "bool", "C39D0", "list[C39D0]"]
NAMES = ["a", "b", "c", "x", "y", "n", "key", "value", "limit", "data", "flag", "Z", "a1", "a_", "ab", "été", "名"]
MNAMES = ["add", "get", "put", "list_all", "scan", "a", "b", "B", "ab", "a_b", "a1", "zeta", "Alpha", "run", "close", "é", "naïve", "数"]
DOCS = [None, "Do it.", "Do it.\n\nArgs:\n    a: the first.\n    b: the second.\n", "x" * 40]
DEFAULTS = ["1", "None", "'s'", "0.5", "[]"]


def _nullable(t: str) -> str:
    return t[: -len(" | None")] if t.endswith(" | None") else t + " | None"


def gen_method(rng: Any, used: set[str]) -> dict[str, Any]:
    name = rng.choice([n for n in MNAMES if n not in used])
    used.add(name)
    kind = rng.choice(["unary", "unary", "stream"])
    pn = rng.sample(NAMES, rng.choice([0, 1, 1, 2, 2, 3]))
    params = [{"name": p, "type": rng.choice(TYPES), "default": rng.choice([None, None, rng.choice(DEFAULTS)])} for p in pn]
    m: dict[str, Any] = {"name": name, "kind": kind, "params": params, "doc": rng.choice(DOCS)}
    if kind == "unary":
        m["ret"] = rng.choice(RETS)
        m["state"], m["header"] = "C39Prod", None
    else:
        m["ret"] = None
        m["state"], m["header"] = rng.choice(STATES), rng.choice(HEADERS)
    return m


def gen_service(rng: Any, idx: int, nmethods: int | None = None) -> dict[str, Any]:
    used: set[str] = set()
    n = nmethods if nmethods is not None else rng.choice([0, 1, 1, 2, 2, 3, 3, 4, 5, 6])
    return {
        "pname": rng.choice(["Svc", "Calc", "S", "Svc2", "Store_v1", "Ünï"]),
        "version": rng.choice([None, None, "1.2.3", "0.1.0"]),
        "server_id": f"srv{idx}",
        "methods": [gen_method(rng, used) for _ in range(n)],
    }


def render(spec: dict[str, Any]) -> str:
    out = [f"class {spec['pname']}(Protocol):"]
    if spec.get("pdoc"):
        out.append(f"    {spec['pdoc']!r}")
    if spec["version"] is not None:
        out.append(f"    protocol_version = {spec['version']!r}")
    impl = [f"class {spec['pname']}Impl:", "    pass"]
    if not spec["methods"] and spec["version"] is None and not spec.get("pdoc"):
        out.append("    pass")
    for m in spec["methods"]:
        ps = ", ".join(f"{p['name']}: {p['type']}" + (f" = {p['default']}" if p["default"] is not None else "") for p in m["params"])
        seen_default = False
        for p in m["params"]:
            if p["default"] is None and seen_default:
                ps = "*, " + ps  # a required parameter after a defaulted one: keyword-only parameters
                break
            seen_default = seen_default or p["default"] is not None
        if m["kind"] == "unary":
            ret = "None" if m["ret"] is None else m["ret"]
        else:
            ret = f"Stream[{m['state']}]" if m["header"] is None else f"Stream[{m['state']}, {m['header']}]"
        out.append(f"    def {m['name']}(self{', ' if ps else ''}{ps}) -> {ret}:")
        if m["doc"] is not None:
            out.append(f"        {m['doc']!r}")
        out.append("        ...")
        ips = ", ".join(f"{p['name']}=None" for p in m["params"])
        impl.append(f"    def {m['name']}(self{', ' if ips else ''}{ips}):\n        raise NotImplementedError")
    return "\n".join(out) + "\n" + "\n".join(impl) + "\n"


def load(spec: dict[str, Any]) -> tuple[type, Any]:
    ns = dict(globals())
    exec(render(spec), ns)  # noqa: S102 - builds the Protocol class of this generated service
    return ns[spec["pname"]], ns[spec["pname"] + "Impl"]()


# ---------------------------------------------------------------------------
# single-point edits.  expect: True = the statement lists it as wire-relevant (hash must differ),
# False = the statement lists it as irrelevant (hash must be identical), None = decided by the oracle only.
# ---------------------------------------------------------------------------


def edits_of(rng: Any, base: dict[str, Any]) -> list[tuple[str, bool | None, dict[str, Any]]]:
    out: list[tuple[str, bool | None, dict[str, Any]]] = []

    def ed(kind: str, expect: bool | None, f: Any) -> None:
        s = copy.deepcopy(base)
        if f(s) is not False:
            out.append((kind, expect, s))

    ms = base["methods"]
    ed("server-id", False, lambda s: s.update(server_id=s["server_id"] + "-other"))
    ed("rename-protocol", True, lambda s: s.update(pname=s["pname"] + "X"))
    ed("protocol-version", None, lambda s: s.update(version="2.0.0" if s["version"] != "2.0.0" else "3.1.4"))
    ed("protocol-docstring", False, lambda s: s.update(pdoc="A service."))
    if len(ms) >= 2:
        ed("reorder-methods", None, lambda s: s["methods"].reverse())
    free = [n for n in MNAMES if n not in {m["name"] for m in ms}]
    if len(ms) < 7:
        def add(s: dict[str, Any]) -> None:
            s["methods"].insert(rng.randrange(len(ms) + 1), gen_method(rng, {m["name"] for m in ms}))
        ed("add-method", True, add)
    for i, m in enumerate(ms):
        def at(f: Any, i: int = i) -> Any:
            return lambda s: f(s["methods"][i])
        ed("remove-method", True, lambda s, i=i: s["methods"].pop(i) and None)
        ed("rename-method", True, at(lambda mm: mm.update(name=rng.choice(free))))
        ed("docstring", False, at(lambda mm: mm.update(doc="Changed." if mm["doc"] != "Changed." else None)))
        ed("docstring-args", False, at(lambda mm: mm.update(doc="T.\n\nArgs:\n    " + (mm["params"][0]["name"] if mm["params"] else "q") + ": described.\n")))
        if m["kind"] == "unary":
            ed("kind-unary-to-stream", True, at(lambda mm: mm.update(kind="stream", ret=None, state=rng.choice(STATES), header=None)))
            others = [r for r in [None, "int", "str", "float | None", "list[int]", "bool", "bytes", "list[C39D0]"]
                      if r != m["ret"] and not (r in BINARY_LIKE and m["ret"] in BINARY_LIKE)]
            new_ret = rng.choice(others)
            ed("retype-result" if (m["ret"] is not None and new_ret is not None) else "has-return-toggle", True, at(lambda mm, r=new_ret: mm.update(ret=r)))
            if m["ret"] is not None and m["ret"] not in NO_NULL_FLIP:
                ed("nullability-flip-result", True, at(lambda mm: mm.update(ret=_nullable(mm["ret"]))))
        else:
            ed("kind-stream-to-unary", True, at(lambda mm: mm.update(kind="unary", ret=rng.choice([None, "int"]), header=None)))
            if m["header"] is None:
                ed("header-add", True, at(lambda mm: mm.update(header=rng.choice(["C39H1", "C39H2"]))))
                # a header whose schema has no field is still a header: the server writes a header stream, the client reads it
                ed("header-add-empty", True, at(lambda mm: mm.update(header=rng.choice(EMPTY_HEADERS))))
            elif m["header"] in EMPTY_HEADERS:
                ed("header-remove-empty", True, at(lambda mm: mm.update(header=None)))
                ed("header-retype-from-empty", True, at(lambda mm: mm.update(header=rng.choice(["C39H1", "C39H2", "C39H3"]))))
                ed("header-class-same-schema", None, at(lambda mm: mm.update(header="C39H0t" if mm["header"] == "C39H0" else "C39H0")))
            else:
                ed("header-remove", True, at(lambda mm: mm.update(header=None)))
                ed("header-retype", True, at(lambda mm: mm.update(header="C39H2" if mm["header"] != "C39H2" else "C39H1")))
                ed("header-retype-to-empty", True, at(lambda mm: mm.update(header=rng.choice(EMPTY_HEADERS))))
                if m["header"] == "C39H1":
                    ed("header-nullability-flip", True, at(lambda mm: mm.update(header="C39H3")))
                    ed("header-class-same-schema", None, at(lambda mm: mm.update(header="C39H1b")))
            ed("state-class-kind", True, at(lambda mm: mm.update(state=rng.choice([x for x in STATES if STATE_KIND[x] != STATE_KIND[mm["state"]]]))))
            if STATE_KIND[m["state"]] == "producer":
                ed("state-class-same-kind", None, at(lambda mm: mm.update(state=rng.choice([x for x in ("C39Prod", "C39Prod0", "C39Prod2") if x != mm["state"]]))))
        unused = [n for n in NAMES if n not in {p["name"] for p in m["params"]}]
        ed("add-param", True, at(lambda mm: mm["params"].insert(rng.randrange(len(mm["params"]) + 1), {"name": rng.choice(unused), "type": rng.choice(TYPES), "default": None})))
        if len(m["params"]) >= 2:
            ed("reorder-params", True, at(lambda mm: mm["params"].reverse()))
        for j, p in enumerate(m["params"]):
            def atp(f: Any, i: int = i, j: int = j) -> Any:
                return lambda s: f(s["methods"][i]["params"][j])
            ed("remove-param", True, lambda s, i=i, j=j: s["methods"][i]["params"].pop(j) and None)
            ed("rename-param", True, atp(lambda pp: pp.update(name=rng.choice(unused))))
            ed("default-edit", False, atp(lambda pp: pp.update(default=rng.choice([d for d in DEFAULTS + [None] if d != pp["default"]]))))
            ed("nullability-flip-param", True, atp(lambda pp: pp.update(type=_nullable(pp["type"])) if pp["type"] not in NO_NULL_FLIP else False))
            base_t = p["type"][: -len(" | None")] if p["type"].endswith(" | None") else p["type"]
            cands = [t for t in TYPES if not t.endswith(" | None") and t != base_t and SAME_ARROW.get(t) != base_t and SAME_ARROW.get(base_t) != t
                     and not (t in BINARY_LIKE and base_t in BINARY_LIKE)]
            new_t = rng.choice(cands) + (" | None" if p["type"].endswith(" | None") else "")
            ed("retype-param", True, atp(lambda pp, t=new_t: pp.update(type=t)))
            if p["type"] in SAME_ARROW:
                ed("retype-param-same-arrow-type", None, atp(lambda pp: pp.update(type=SAME_ARROW[pp["type"]])))
    return out


# ---------------------------------------------------------------------------
# the real implementation
# ---------------------------------------------------------------------------


def wire_view(proto: type) -> tuple[str, dict[str, tuple[Any, ...]]]:
    """The contract of a Protocol class as rpc_methods() sees it -- independent of introspect.py."""
    from vgi_rpc.rpc import rpc_methods

    out: dict[str, tuple[Any, ...]] = {}
    for name, info in rpc_methods(proto).items():
        out[name] = (info.method_type.value, bool(info.has_return), info.params_schema, info.result_schema,
                     None if info.header_type is None else info.header_type.ARROW_SCHEMA, info.is_exchange)
    return proto.__name__, out


def _schema_eq(a: Any, b: Any) -> bool:
    if a is None or b is None:
        return a is None and b is None
    return bool(a.equals(b, check_metadata=True))


def wire_equal(a: tuple[str, dict[str, tuple[Any, ...]]], b: tuple[str, dict[str, tuple[Any, ...]]]) -> bool:
    if a[0] != b[0] or set(a[1]) != set(b[1]):
        return False
    for k, x in a[1].items():
        y = b[1][k]
        if (x[0], x[1], x[5]) != (y[0], y[1], y[5]) or not (_schema_eq(x[2], y[2]) and _schema_eq(x[3], y[3]) and _schema_eq(x[4], y[4])):
            return False
    return True


class _Recorder:
    """hashlib.sha256 stand-in that remembers every chunk it is fed."""

    last: "_Recorder | None" = None

    def __init__(self, *a: Any) -> None:
        self._h = _REAL_SHA256(*a)
        self.chunks: list[bytes] = [bytes(x) for x in a]
        _Recorder.last = self

    def update(self, b: Any) -> None:
        self.chunks.append(bytes(b))
        self._h.update(b)

    def hexdigest(self) -> str:
        return self._h.hexdigest()

    def digest(self) -> bytes:
        return self._h.digest()


_REAL_SHA256 = hashlib.sha256


def observe(spec: dict[str, Any], rng: Any) -> dict[str, Any]:
    """Run the real code on one generated service."""
    import importlib

    I = importlib.import_module("vgi_rpc.introspect")
    from vgi_rpc.rpc import rpc_methods

    proto, impl = load(spec)
    server = RpcServer(proto, impl, server_id=spec["server_id"], enable_describe=True)
    methods = dict(rpc_methods(proto))
    order = list(methods)
    rng.shuffle(order)
    shuffled = {k: methods[k] for k in order}
    hashlib.sha256 = _Recorder  # type: ignore[assignment,misc]
    _Recorder.last = None
    try:
        batch, md = I.build_describe_batch(proto.__name__, shuffled, spec["server_id"], spec["version"])
    finally:
        hashlib.sha256 = _REAL_SHA256  # type: ignore[assignment]
    rec = _Recorder.last
    chunks = rec.chunks if rec is not None else []
    sd = I.parse_describe_batch(batch, md)
    return {
        "spec": spec, "proto": proto, "server": server, "infos": shuffled, "batch": batch, "md": md, "chunks": chunks,
        "sd": sd, "wire": wire_view(proto), "hash": server.protocol_hash,
        "direct_hash": dict(md).get(b"vgi_rpc.protocol_hash", b"").decode(),
    }


def translate(ctx: Any) -> None:
    from translate import t_c39_hashseq

    ctx.gen("G_Introspect", lambda: t_c39_hashseq.coq_text(ctx.repo))


# ---------------------------------------------------------------------------
# Coq rendering
# ---------------------------------------------------------------------------


class Blobs:
    """Long byte strings are written once as named definitions; cases refer to them by name."""

    def __init__(self) -> None:
        self.names: dict[bytes, str] = {}

    def term(self, b: bytes) -> str:
        if len(b) < 24:
            return "[" + ";".join(str(x) for x in b) + "]"  # N_scope is open; casts make elaboration 4x slower
        if b not in self.names:
            self.names[b] = f"blob_{len(self.names)}"
        return self.names[b]

    def header(self) -> str:
        return "\n".join(f"Definition {n} : list N := [{';'.join(str(x) for x in b)}]." for b, n in self.names.items())


def _copt(x: str | None) -> str:
    return "None" if x is None else f"(Some {x})"


def _cbool(b: bool) -> str:
    return "true" if b else "false"


def svc_term(o: dict[str, Any], B: Blobs) -> str:
    ms = []
    for name, info in o["infos"].items():
        hdr = None if info.header_type is None else B.term(info.header_type.ARROW_SCHEMA.serialize().to_pybytes())
        pairs = lambda d: "[" + "; ".join(f"({B.term(str(k).encode())}, {B.term(repr(v).encode()[:60])})" for k, v in d.items()) + "]"  # noqa: E731
        ms.append(
            f"(MkInfo {B.term(name.encode())} {'Unary' if info.method_type.value == 'unary' else 'Stream'} {_cbool(info.has_return)} "
            f"{B.term(info.params_schema.serialize().to_pybytes())} {B.term(info.result_schema.serialize().to_pybytes())} {_copt(hdr)} "
            f"{_copt(None if info.is_exchange is None else _cbool(info.is_exchange))} {_copt(None if info.doc is None else B.term(info.doc.encode()))} "
            f"{pairs(info.param_defaults)} {pairs(info.param_types)} {pairs(info.param_docs)})"
        )
    sp = o["spec"]
    return f"(MkSvc {B.term(o['proto'].__name__.encode())} [{'; '.join(ms)}] {B.term(sp['server_id'].encode())} {_copt(None if sp['version'] is None else B.term(sp['version'].encode()))})"


MDKEYS = [b"vgi_rpc.protocol_name", b"vgi_rpc.request_version", b"vgi_rpc.describe_version", b"vgi_rpc.protocol_hash", b"vgi_rpc.server_id", b"vgi_rpc.protocol_version"]


def expected_val(o: dict[str, Any], B: Blobs) -> str:
    """What the real code produced, as an M_Introspect.val term: [payload; rows; metadata; parse(build)]."""
    VB = lambda b: f"VB {B.term(b)}"  # noqa: E731
    VN = lambda n: f"VN {int(n)}"  # noqa: E731
    VL = lambda xs: "VL [" + "; ".join(xs) + "]"  # noqa: E731
    vopt = lambda x: VL([]) if x is None else VL([x])  # noqa: E731
    payload = "VB (concat [" + "; ".join(B.term(c) for c in o["chunks"]) + "])"
    rows = []
    for r in o["batch"].to_pylist():
        rows.append(VL([VB(r["name"].encode()), VB(r["method_type"].encode()), VN(r["has_return"]), VB(r["params_schema_ipc"]), VB(r["result_schema_ipc"]),
                        VN(r["has_header"]), vopt(None if r["header_schema_ipc"] is None else VB(r["header_schema_ipc"])),
                        vopt(None if r["is_exchange"] is None else VN(r["is_exchange"]))]))
    md_items = []
    for k, v in sorted(dict(o["md"]).items(), key=lambda kv: MDKEYS.index(kv[0]) if kv[0] in MDKEYS else 99):
        md_items.append(VL([VN(MDKEYS.index(k) if k in MDKEYS else 99), VB(v)]))
    sd = o["sd"]
    descs = []
    for name, d in sd.methods.items():
        descs.append(VL([VB(name.encode()), VL([VB(d.name.encode()), VN(0 if d.method_type.value == "unary" else 1), VN(d.has_return),
                                                VB(d.params_schema.serialize().to_pybytes()), VB(d.result_schema.serialize().to_pybytes()), VN(d.has_header),
                                                vopt(None if d.header_schema is None else VB(d.header_schema.serialize().to_pybytes())),
                                                vopt(None if d.is_exchange is None else VN(d.is_exchange))])]))
    sdv = VL([VB(sd.protocol_name.encode()), VB(sd.request_version.encode()), VB(sd.describe_version.encode()), VB(sd.protocol_hash.encode()),
              VB(sd.server_id.encode()), VL(descs), VB(sd.protocol_version.encode())])
    return VL([payload, VL(rows), VL(md_items), VL([sdv])])


# ---------------------------------------------------------------------------
# the check
# ---------------------------------------------------------------------------

THEOREMS = {
    "P_C39": [
        "C39_payload_injective", "C39_hash_differs_when_contract_differs", "C39_hash_stable", "C39_hash_iff_contract",
        "C39_nonwire_fields", "C39_insensitive_to_doc_default_server_id", "C39_describe_faithful",
        "C39_describe_exactly_the_methods", "C39_describe_callable_under_mismatch",
    ],
    "T_Introspect": [
        "hash_table_tie", "build_table_tie", "describe_fields_tie", "method_type_tie",
        "C39_source_payload_injective", "C39_source_hash_iff_contract", "C39_source_describe_faithful",
    ],
}


def _framed(b: bytes) -> bool:
    return len(b) >= 8 and b[:4] == b"\xff\xff\xff\xff" and int.from_bytes(b[4:8], "little") == len(b) - 8


def _describe_oracle(ctx: Any, o: dict[str, Any], sd: Any, via: str, replay: dict[str, Any]) -> None:
    """The description a client obtained must list exactly the service's methods with exactly their values."""
    pname, wire = o["wire"]
    rp = {**replay, "via": via}
    if sd.protocol_name != pname:
        ctx.violation("describe-wrong-protocol-name", f"{via}: protocol_name {sd.protocol_name!r} != {pname!r}", rp)
    if sd.server_id != o["spec"]["server_id"]:
        ctx.violation("describe-wrong-server-id", f"{via}: server_id {sd.server_id!r}", rp)
    if sd.protocol_hash != o["hash"]:
        ctx.violation("describe-hash-differs-from-server-hash", f"{via}: {sd.protocol_hash} != {o['hash']}", rp)
    if sd.protocol_version != (o["spec"]["version"] or ""):
        ctx.violation("describe-wrong-protocol-version", f"{via}: {sd.protocol_version!r}", rp)
    for n in set(wire) - set(sd.methods):
        ctx.violation("describe-missing-method", f"{via}: method {n!r} of the service is not described", {**rp, "method": n})
    for n in set(sd.methods) - set(wire):
        ctx.violation("describe-extra-method", f"{via}: described method {n!r} is not a method of the service", {**rp, "method": n})
    for n in set(wire) & set(sd.methods):
        d, w = sd.methods[n], wire[n]
        got = {
            "name": d.name == n, "method_type": d.method_type.value == w[0], "has_return": d.has_return == w[1],
            "params_schema": _schema_eq(d.params_schema, w[2]), "result_schema": _schema_eq(d.result_schema, w[3]),
            "has_header": d.has_header == (w[4] is not None), "header_schema": _schema_eq(d.header_schema, w[4]), "is_exchange": d.is_exchange == w[5],
        }
        for field, ok in got.items():
            if not ok:
                ctx.violation(f"describe-field-mismatch:{field}", f"{via}: {n}.{field} is described wrongly", {**rp, "method": n})


def run(ctx: Any) -> None:
    from vlib.coqterm import cN, cbytes

    translate(ctx)
    ctx.prove(["prop/P_C39.vo", "tie/T_Introspect.vo"], THEOREMS)

    from harness.rawrpc import error_of, read_streams, request_bytes, serve_bytes
    import importlib

    I = importlib.import_module("vgi_rpc.introspect")
    from vgi_rpc.http import http_introspect
    from vgi_rpc.http._testing import make_sync_client
    from vgi_rpc.rpc import make_pipe_pair

    quick = ctx.tier == "quick"
    rng = ctx.rng
    nbases = 14 if quick else 40
    max_edits = 14 if quick else 40
    bases = [gen_service(rng, i) for i in range(nbases)]
    # make sure the extremes are present: no method, six methods, one stream with header, one unary
    bases[0] = gen_service(rng, 0, nmethods=0)
    bases[1] = gen_service(rng, 1, nmethods=6)
    # empty schemas in every position the describe row carries: no parameter, no result, header classes without any
    # Arrow field (marker / Transient-only), zero-field dataclasses as parameter, result and list element, field-less state
    bases[2] = {
        "pname": "Empties", "version": "1.2.3", "server_id": "srv2",
        "methods": [
            {"name": "marked", "kind": "stream", "params": [], "ret": None, "state": "C39Prod0", "header": "C39H0", "doc": None},
            {"name": "cached", "kind": "stream", "params": [{"name": "a", "type": "C39D0", "default": None}], "ret": None, "state": "C39Exch", "header": "C39H0t", "doc": "Do it."},
            {"name": "plain", "kind": "stream", "params": [], "ret": None, "state": "C39Prod", "header": None, "doc": None},
            {"name": "headed", "kind": "stream", "params": [], "ret": None, "state": "C39Raw", "header": "C39H1", "doc": None},
            {"name": "nothing", "kind": "unary", "params": [], "ret": None, "state": "C39Prod", "header": None, "doc": None},
            {"name": "unit", "kind": "unary", "params": [{"name": "x", "type": "C39D0", "default": None}, {"name": "y", "type": "list[C39D0]", "default": None}],
             "ret": "C39D0", "state": "C39Prod", "header": None, "doc": None},
        ],
    }
    ctx.rule = ("base services: 0..6 generated methods (unary/stream x producer/exchange/raw state x header none / one field / two fields / no field (marker) / Transient-only, field-less state, 0..3 params over "
                f"{len(TYPES)} annotations incl. optional/Annotated/dataclass/zero-field dataclass/enum, defaults, docstrings, declared version or none); "
                "cases = (base, single-point edit) pairs; distinct by rendered sources; non-trivial = the base has at least one method")

    obs_cache: dict[str, dict[str, Any]] = {}
    groups: list[dict[str, list[Any]]] = []  # per base: the services first seen with it, and its (base, edit) pairs

    def obs(spec: dict[str, Any]) -> dict[str, Any]:
        key = json.dumps(spec, sort_keys=True)
        if key not in obs_cache:
            obs_cache[key] = observe(spec, rng)
            ctx.count("impl_runs")
        return obs_cache[key]

    nsvc = 0
    unframed = 0
    bad_ident = 0
    process_jobs: list[tuple[str, str, str]] = []  # (source, pname, expected hash)
    seen_svc: set[str] = set()

    def add_service(o: dict[str, Any]) -> None:
        src = render(o["spec"]) + o["spec"]["server_id"]
        if src in seen_svc:
            return
        seen_svc.add(src)
        nonlocal unframed, bad_ident, nsvc
        nsvc += 1
        for info in o["infos"].values():
            blobs = [info.params_schema.serialize().to_pybytes(), info.result_schema.serialize().to_pybytes()]
            if info.header_type is not None:
                blobs.append(info.header_type.ARROW_SCHEMA.serialize().to_pybytes())
            unframed += sum(1 for b in blobs if not _framed(b))
            bad_ident += sum(1 for c in info.name.encode() if c in (0x1E, 0x1F))
        bad_ident += sum(1 for c in o["proto"].__name__.encode() if c in (0x1E, 0x1F))
        payload = b"".join(o["chunks"])
        replay = {"service_source": render(o["spec"]), "server_id": o["spec"]["server_id"]}
        if _REAL_SHA256(payload).hexdigest() != o["direct_hash"]:
            ctx.violation("hash-is-not-sha256-of-recorded-payload", "the digest is not the SHA-256 of the bytes fed to the hash object", replay)
        if o["hash"] != o["direct_hash"]:
            ctx.violation("server-hash-differs-from-describe-hash", "RpcServer.protocol_hash differs from the hash of build_describe_batch on the same methods in another order", replay)
        _describe_oracle(ctx, o, o["sd"], "parse(build)", replay)
        groups[-1]["svc"].append(o)
        process_jobs.append((render(o["spec"]), o["spec"]["pname"], o["hash"]))

    npairs = 0
    for bi, base in enumerate(bases):
        groups.append({"svc": [], "pairs": []})
        ob = obs(base)
        add_service(ob)
        eds = edits_of(rng, base)
        if len(eds) > max_edits:
            # keep one of every kind first, then fill up
            by_kind: dict[str, list[Any]] = {}
            for e in eds:
                by_kind.setdefault(e[0], []).append(e)
            pick = [rng.choice(v) for v in by_kind.values()]
            rest = [e for e in eds if e not in pick]
            rng.shuffle(rest)
            eds = (pick + rest)[:max(max_edits, len(pick))]
        for kind, expect, spec2 in eds:
            try:
                oe = obs(spec2)
            except Exception as e:  # noqa: BLE001 - a generated edit the framework refuses is not a case
                ctx.count("edits_rejected_by_framework")
                ctx.notes.append(f"edit {kind} rejected: {type(e).__name__}: {str(e)[:80]}") if len(ctx.notes) < 5 else None
                continue
            add_service(oe)
            npairs += 1
            weq = wire_equal(ob["wire"], oe["wire"])
            heq = ob["hash"] == oe["hash"]
            ctx.case([render(base), base["server_id"], render(spec2), spec2["server_id"]], nontrivial=bool(base["methods"]))
            ctx.tally("edit", kind)
            ctx.tally("hash", "equal" if heq else "different")
            replay = {"edit": kind, "base_source": render(base), "base_server_id": base["server_id"], "edited_source": render(spec2),
                      "edited_server_id": spec2["server_id"], "base_hash": ob["hash"], "edited_hash": oe["hash"], "wire_equal_by_rpc_methods": weq}
            if expect is not None and expect == weq:
                # the generator promised a wire-relevant (resp. irrelevant) edit and rpc_methods disagrees: harness defect, not a finding
                ctx.obligation(f"harness:edit-classification:{kind}", "harness", False, json.dumps(replay)[:600])
            if heq != weq:
                ctx.violation(("hash-unchanged-by-wire-edit:" if not weq else "hash-changed-by-nonwire-edit:") + kind,
                              f"edit {kind}: wire contract {'equal' if weq else 'different'} but protocol_hash {'equal' if heq else 'different'}", replay)
            if expect is None:
                ctx.tally("unlisted-edit-outcome", f"{kind}: hash {'equal' if heq else 'different'}")
            groups[-1]["pairs"].append((ob, oe, heq, replay))
    ctx.count("pairs", npairs)
    ctx.count("services", nsvc)
    ctx.sample({"base": render(bases[1])[:300], "edits": sorted({k for k, _, _ in edits_of(rng, bases[1])})})
    ctx.obligation("env:schema-blob-framed", "environment", unframed == 0, f"{unframed} serialized schemas are not ff ff ff ff | int32 len | metadata")
    ctx.obligation("env:names-are-identifiers", "environment", bad_ident == 0, f"{bad_ident} separator bytes inside generated names")

    ctx.log(f"{nsvc} services, {npairs} pairs observed")
    # ---- row-level sweep: compute_protocol_hash on hand-edited batches (witness search for C39_payload_injective) ----
    nrow = 0
    for o in list(obs_cache.values())[: (25 if quick else 200)]:
        rows = o["batch"].to_pylist()
        if not rows:
            continue
        h0 = I.compute_protocol_hash(o["proto"].__name__, o["batch"])
        for colname in I._DESCRIBE_SCHEMA.names:
            i = rng.randrange(len(rows))
            new = copy.deepcopy(rows)
            v = new[i][colname]
            if colname in ("name", "method_type"):
                new[i][colname] = v + "x"
            elif colname in ("has_return", "has_header"):
                new[i][colname] = not v
            elif colname == "is_exchange":
                new[i][colname] = {None: True, True: False, False: None}[v]
            elif colname == "header_schema_ipc":
                new[i][colname] = None if v is not None else rng.choice([C39H1, C39H0]).ARROW_SCHEMA.serialize().to_pybytes()
            else:
                other = pa.schema([pa.field("q", pa.int8())]).serialize().to_pybytes()
                new[i][colname] = other if v != other else pa.schema([]).serialize().to_pybytes()
            b2 = pa.RecordBatch.from_pylist(new, schema=I._DESCRIBE_SCHEMA)
            nrow += 1
            if I.compute_protocol_hash(o["proto"].__name__, b2) == h0:
                ctx.violation(f"payload-not-injective:{colname}", f"changing column {colname} of one describe row leaves compute_protocol_hash unchanged",
                              {"service_source": render(o["spec"]), "row": i, "column": colname})
        # swapping two adjacent rows / dropping the last row must change it as well
        if len(rows) >= 2:
            b3 = pa.RecordBatch.from_pylist([rows[1], rows[0]] + rows[2:], schema=I._DESCRIBE_SCHEMA)
            if I.compute_protocol_hash(o["proto"].__name__, b3) == h0:
                ctx.violation("payload-not-injective:row-order", "swapping two describe rows leaves compute_protocol_hash unchanged", {"service_source": render(o["spec"])})
        b4 = pa.RecordBatch.from_pylist(rows[:-1], schema=I._DESCRIBE_SCHEMA)
        if I.compute_protocol_hash(o["proto"].__name__, b4) == h0:
            ctx.violation("payload-not-injective:row-count", "dropping a describe row leaves compute_protocol_hash unchanged", {"service_source": render(o["spec"])})
    ctx.count("row_level_edits", nrow)

    ctx.log("row-level sweep done")
    # ---- faithful description through the real clients; callable under version mismatch ----
    desc_cases: list[tuple[str, str]] = []
    client_values: list[bytes | None] = [None, b"1.2.3", b"1.2.9", b"1.3.0", b"0.9.0", b"2.0.0", b"9.9.9", b"", b"1.2", b"v1.2.3", b"1.2.3\n", b"\xff", b"01.2.3"]
    for bi, base in enumerate(bases):
        o = obs(base)
        replay = {"service_source": render(base), "server_id": base["server_id"]}
        server = o["server"]
        # (a) the pipe client: introspect() sends no protocol version at all
        ct, st = make_pipe_pair()
        th = threading.Thread(target=lambda: server.serve(st), daemon=True)  # noqa: B023
        th.start()
        box: dict[str, Any] = {}

        def call() -> None:
            try:
                box["sd"] = I.introspect(ct)  # noqa: B023
            except BaseException as e:  # noqa: BLE001
                box["err"] = e

        tc = threading.Thread(target=call, daemon=True)
        tc.start()
        tc.join(20)
        hung = tc.is_alive()
        ct.close()
        th.join(5)
        st.close()
        ctx.count("impl_runs")
        if hung or "err" in box:
            ctx.violation("describe-refused-under-version-mismatch" if base["version"] else "describe-call-failed",
                          f"introspect() over a pipe {'hung' if hung else 'raised ' + type(box['err']).__name__ + ': ' + str(box['err'])[:120]} (declared version {base['version']!r}, client sends none)", {**replay, "via": "introspect/pipe"})
        else:
            _describe_oracle(ctx, o, box["sd"], "introspect/pipe", replay)
        # (b) the HTTP client
        try:
            client = make_sync_client(server, token_key=b"k" * 32)
            try:
                sd_http = http_introspect(client=client)
            finally:
                client.close()
            ctx.count("impl_runs")
            _describe_oracle(ctx, o, sd_http, "http_introspect", replay)
        except Exception as e:  # noqa: BLE001
            ctx.violation("describe-refused-under-version-mismatch" if base["version"] else "describe-call-failed",
                          f"http_introspect raised {type(e).__name__}: {str(e)[:120]} (declared version {base['version']!r})", {**replay, "via": "http_introspect"})
        # (c) raw requests carrying every kind of client version
        if base["version"] is not None and bi < (6 if quick else 1000):
            import falcon.testing
            from vgi_rpc.http import make_wsgi_app

            app = make_wsgi_app(server, prefix="", token_key=b"k" * 32, enable_landing_page=False, enable_not_found_page=False, enable_describe_page=False)
            tclient = falcon.testing.TestClient(app)
            for value in client_values:
                mdv = {} if value is None else {b"vgi_rpc.protocol_version": value}
                data = request_bytes("__describe__", pa.schema([]), None, mdv)
                out, exc = serve_bytes(server, data)
                answered_s = False
                if exc is None:
                    sts = read_streams(out)
                    if sts and error_of(sts[0]) is None and sts[0] and sts[0][-1][2] is not None:
                        try:
                            sd_raw = I.parse_describe_batch(sts[0][-1][2], pa.KeyValueMetadata(sts[0][-1][1]))
                            answered_s = sd_raw.protocol_hash == o["hash"] and set(sd_raw.methods) == set(o["wire"][1])
                        except Exception:  # noqa: BLE001
                            answered_s = False
                r = tclient.simulate_post("/__describe__", body=data, headers={"Content-Type": "application/vnd.apache.arrow.stream"})
                answered_h = False
                if r.status_code == 200:
                    sts = read_streams(r.content)
                    if sts and error_of(sts[0]) is None and sts[0] and sts[0][-1][2] is not None:
                        answered_h = sts[0][-1][2].num_rows == len(o["wire"][1])
                ctx.count("impl_runs", 2)
                for path, ok in (("socket", answered_s), ("http", answered_h)):
                    if not ok:
                        ctx.violation("describe-refused-under-version-mismatch", f"{path}: __describe__ not answered for client version {value!r} on a server declaring {base['version']!r}",
                                      {**replay, "client_version_hex": None if value is None else value.hex(), "path": path})
                parts = tuple(int(x) for x in base["version"].split("."))
                d = f"(Some ({cN(parts[0])}, {cN(parts[1])}, {cN(parts[2])}))"
                desc_cases.append((f"({d}, {_copt(None if value is None else cbytes(value))})", _cbool(answered_s and answered_h)))
    desc_cases = list(dict.fromkeys(desc_cases))

    ctx.log("client describe calls done")
    # ---- identical across processes ----
    jobs = process_jobs if not quick else process_jobs[:: max(1, len(process_jobs) // 40)]
    for seed in ("1", "4242"):
        env = dict(os.environ, PYTHONHASHSEED=seed)
        try:
            p = subprocess.run([sys.executable, "-c", "import json,sys\nfrom props import C39\nC39._child(json.load(sys.stdin))"], input=json.dumps([(s, n) for s, n, _ in jobs]),
                               capture_output=True, text=True, env=env, timeout=300, cwd=os.path.dirname(os.path.dirname(os.path.abspath(__file__))))
            got = json.loads(p.stdout.strip().splitlines()[-1]) if p.returncode == 0 and p.stdout.strip() else None
        except Exception as e:  # noqa: BLE001
            got = None
            p = None  # type: ignore[assignment]
            ctx.notes.append(f"child process failed: {e}")
        ctx.obligation(f"harness:child-process-seed-{seed}", "harness", got is not None and len(got) == len(jobs), "" if got is not None else (p.stderr[-600:] if p is not None else "no output"))
        if got is None:
            continue
        ctx.count("impl_runs", len(jobs))
        for (src, pname, h), g in zip(jobs, got):
            if g != h:
                ctx.violation("hash-differs-across-processes", f"PYTHONHASHSEED={seed}: {g} != {h}", {"service_source": src, "hashseed": seed})

    ctx.log("child processes done")
    # ---- model correspondence ----
    imports = "From Coq Require Import List NArith Bool.\nFrom VGI Require Import Bytes M_Introspect.\nImport ListNotations.\nOpen Scope N_scope.\n"
    dv_t, rv_t = "[" + ";".join(str(x) for x in I.DESCRIBE_VERSION.encode()) + "]", "[" + ";".join(str(x) for x in _request_version()) + "]"

    def group_file(g: dict[str, list[Any]]) -> tuple[str, list[tuple[str, str]], list[tuple[str, Any]]]:
        B = Blobs()
        names: dict[int, str] = {}
        defs: list[str] = []

        def sv(o: dict[str, Any]) -> str:
            if id(o) not in names:
                names[id(o)] = f"svc_{len(names)}"
                defs.append(f"Definition {names[id(o)]} : service := {svc_term(o, B)}.")
            return names[id(o)]

        cases: list[tuple[str, str]] = []
        meta: list[tuple[str, Any]] = []
        for o in g["svc"]:
            cases.append((f"inl ({dv_t}, {rv_t}, {sv(o)}, {B.term(o['direct_hash'].encode())})", expected_val(o, B)))
            meta.append(("svc", o))
        for ob_, oe_, heq_, replay_ in g["pairs"]:
            cases.append((f"inr ({dv_t}, {rv_t}, {sv(ob_)}, {sv(oe_)})", f"VN {1 if heq_ else 0}"))
            meta.append(("pair", replay_))
        return imports + B.header() + "\n" + "\n".join(defs), cases, meta

    from concurrent.futures import ThreadPoolExecutor

    files = [group_file(g) for g in groups]
    in_ty = "(bytes * bytes * service * bytes) + (bytes * bytes * service * service)"
    with ThreadPoolExecutor(max_workers=12) as pool:
        results = list(pool.map(lambda f: ctx.coq_mismatches(f[0], "run_any", "val_eqb", f[1], in_ty, "val", shard=100000), files))
    all_ok = all(r[0] for r in results)
    nbad = sum(len(r[1]) for r in results)
    ncases = sum(len(f[1]) for f in files)
    ctx.count("model_cases", ncases)
    ctx.obligation("correspondence:M_Introspect.run_any", "correspondence", all_ok and nbad == 0,
                   "\n".join(r[2] for r in results if not r[0])[-1500:] if not all_ok else f"{nbad} of {ncases} cases (services: payload/rows/metadata/parse; pairs: hash equality) disagree")
    shown_n = 0
    for (hdr, cases, meta), (ok_, bad_, _) in zip(files, results):
        for i in bad_:
            if shown_n >= 4:
                break
            shown_n += 1
            if meta[i][0] == "svc":
                shown = ctx.coq_show(hdr, f"run_any ({cases[i][0]})")
                ctx.violation("model-impl-disagree:describe", "payload / rows / metadata / parsed description differ between implementation and model",
                              {"service_source": render(meta[i][1]["spec"]), "model": shown[-1500:], "impl": cases[i][1][:1500]})
            else:
                ctx.violation("model-impl-disagree:hash-equality", "real hashes and model payloads disagree on equal/different", meta[i][1])
    ctx.log("run_any correspondence done")
    hdr3 = "From Coq Require Import List NArith Bool.\nFrom VGI Require Import M_Introspect.\nImport ListNotations.\nOpen Scope N_scope."
    ok3, bad3, log3 = ctx.coq_mismatches(hdr3, "run_describe_call", "Bool.eqb", desc_cases, "option (N * N * N) * option (list N)", "bool")
    ctx.count("model_cases", len(desc_cases))
    ctx.obligation("correspondence:M_Introspect.run_describe_call", "correspondence", ok3 and not bad3, log3 if not ok3 else f"{len(bad3)} of {len(desc_cases)} cases disagree")

    ctx.assumptions += [
        "schema.serialize() yields an encapsulated Arrow IPC message ff ff ff ff | int32 LE length | metadata, no body (checked on every schema generated in this run)",
        "method and protocol names are Python identifiers: their UTF-8 bytes contain neither 0x1e nor 0x1f (side condition ident_ok of the theorems)",
        "SHA-256 is collision free (explicit hypothesis collision_free H of the theorems that need it)",
        "Arrow schema serialization is deterministic and injective on schemas (validated by the rpc_methods-level oracle on every generated edit)",
        "Python str ordering (code points) equals the byte ordering of the UTF-8 encodings (non-ASCII names are among the generated ones)",
        "reading: wire-relevant = name, kind, has_return, Arrow params/result schema, header schema, is_exchange, protocol name; "
        "Python-level retypes that keep the Arrow field, same-kind state classes, same-schema header classes and protocol_version are not",
    ]


def _request_version() -> bytes:
    from vgi_rpc.metadata import REQUEST_VERSION

    return bytes(REQUEST_VERSION)


def _child(jobs: list[list[str]]) -> None:
    """Runs in a fresh interpreter: hash of every (source, protocol name)."""
    out = []
    for src, pname in jobs:
        ns = dict(globals())
        exec(src, ns)  # noqa: S102
        out.append(RpcServer(ns[pname], ns[pname + "Impl"](), enable_describe=False).protocol_hash)
    print(json.dumps(out))
