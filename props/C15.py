"""C15 HTTP status codes and body shapes follow the mapping.

proof         : coq/prop/P_C15.v over model/M_HttpStatus.v (the request pipeline as a function of a configuration and a
                request descriptor).  The request space of the property is finite (168480 descriptors); every theorem is
                decided over the whole space by vm_compute and lifted with forallb_forall + completeness of the enumeration.
regenerated   : translate/t_c15_status.py -> gen/G_HttpStatus.v (middleware order; the statuses each rejecting middleware
                raises; the error serializer's Arrow-rendered statuses; _resolve_method order; method-kind checks; the
                500 -> 200 + X-VGI-RPC-Error rule; the ordered except clauses around reading the request in the unary, init and
                exchange shells; every status of the token layer; the trace-context guard of _read_request).
                tie/T_HttpStatus.v proves gen_cfg = cfg_model and restates the theorems over the source's own tables.
correspondence: the REAL Falcon apps (auth off/on x request cap off/on) on the descriptor grid -- thorough: the whole product,
                quick: every single-dimension deviation from every baseline plus a seeded sample -- each descriptor realised by
                one of four concrete variants; observed (status, marker, content type, body class) against
                run_with gen_cfg (the model under the tables regenerated from the tree under test).
oracle        : the statement's own predicate on what the real app answered, independent of the model (see _oracle).

Readings adopted where the statement leaves room
  * "oversize" is relative to max_request_bytes; a server without a cap has no oversize bodies.
  * precedence between simultaneous defects is not fixed by the statement: the oracle only demands that a non-200 status is one
    the statement assigns to SOME defect the request has (the Coq theorem C15_total_mapping additionally pins the order).
  * an /exchange request carries no call metadata (method name, request version, trace context): only the IPC framing and
    the tokens can be defective there.  An input batch whose schema the stream does not accept makes the dispatched turn
    fail (200 + marker), it is not a "parameter rejection".
  * a body whose Content-Encoding does not decode is "malformed" (400).
  * "decodable Arrow IPC body": one or more back-to-back IPC streams, every batch readable and valid, nothing left over,
    labelled application/vnd.apache.arrow.stream.
  * an unsupported Content-Encoding (unknown token, or a known coding the server has disabled) is answered 415 whatever the
    body is, the empty body included: the body cannot be interpreted, so no body- or method-dependent verdict (400, 404, 200)
    may take its place; only the size cap (413) and authentication (401), which do not look at the body, may come first.
    Beyond the grid, every body class is crossed with eight unsupported tokens and with zstd on a zstd-disabled server.
  * a "bad token" is any token text the server did not mint in exactly that form, wherever the server reads it; beyond the
    grid's three token states, _token_cross presents ~20 named mutations (non-canonical base64 included) of the cursor and of
    the call token on exchange, continuation and cancel requests, with the call-state cache warm and disabled.  A defective
    call token under a warm cache is not read (C14's subject): only "no 5xx" and "Arrow body" are demanded there.
  * Content-Encoding "identity" is not in the grid (its handling belongs to C17 and is changing).
"""
from __future__ import annotations

import itertools
import logging
import re
import time
import warnings
from typing import Any

META = {
    "id": "C15",
    "technique": "Coq proof over the whole finite request space (vm_compute + forallb_forall) + regenerated status tables tie + exhaustive differential correspondence on the real Falcon app",
    "level_text": "Coq theorems over all 168480 request descriptors of the property's quantifier: the modelled pipeline equals the "
    "table of the statement, answers 200 exactly for defect-free (dispatched) requests with the marker exactly when the call "
    "fails, answers every defective request with a status the statement assigns to one of its defects, never answers 5xx, and "
    "every non-401/415 response is a decodable Arrow IPC body.  The tables the model runs on (middleware order, raised "
    "statuses, serializer, except clauses, marker rule) are regenerated from the source on every run and proved equal to the "
    "modelled ones; the pipeline shape and the exception each defective body raises are tied by running the real app on the grid.",
    "level_note": "Trusted: Coq kernel (vm_compute), t_c15_status translator, the harness's realisation of each descriptor class "
    "(four variants per class), pyarrow's classification of damaged streams (checked as environment facts); modelled not "
    "verified: Falcon's routing and middleware semantics (first raising process_request wins; HTTPError -> serializer; uncaught "
    "exception -> 500 through the serializer), which the correspondence exercises.",
    "design_ref": "§5 C15",
}

ALLOWED = (200, 400, 401, 404, 413, 415)


def translate(ctx: Any) -> None:
    from translate import t_c15_status

    ctx.gen("G_HttpStatus", lambda: t_c15_status.coq_text(ctx.repo))


# ---------------------------------------------------------------------------------------------- the statement, in Python
def _defects(d: dict[str, str]) -> list[int]:
    """Statuses the statement assigns to the defects of a request (a direct transcription of its list)."""
    out = []
    if d["auth"] in ("bad", "missing"):
        out.append(401)
    if d["cap"] == "on" and d["body"] == "oversize":
        out.append(413)
    if d["ctype"] != "ok" or d["cenc"] == "unknown":
        out.append(415)
    if d["method"] == "unknown":
        out.append(404)
    framing = d["body"] in ("corrupt", "corrupt_io", "truncated", "empty", "no_batch")
    call_md = d["route"] != "exchange" and d["body"] in ("no_method", "method_mismatch", "no_reqversion", "bad_reqversion", "bad_traceparent", "bad_params")
    tok = d["route"] == "exchange" and d["token"] != "valid"
    if d["method"] == "mismatch" or d["cenc"] == "corrupt" or framing or call_md or tok:
        out.append(400)
    return out


def _key_for(d: dict[str, str], o: dict[str, Any], kind: str, cause: str | None = None) -> str:
    if kind == "5xx":
        return f"5xx-{d['route']}-{cause or _causes(d)[0]}"
    if kind == "body":
        c = cause or ("oversize" if o["status"] == 413 else ("undecodable-content-encoding" if d["cenc"] == "corrupt" else d["body"]))
        return f"non-arrow-body-{o['status']}-{c}"
    if kind == "200":
        return "200-without-dispatch-" + (cause or _causes(d)[0])
    return kind


def _causes(d: dict[str, str]) -> list[str]:
    """Names of the defects of a request, most specific first (only used to build violation keys)."""
    out = []
    if d["body"] in ("corrupt", "corrupt_io", "truncated", "empty", "no_batch"):
        out.append(d["body"])
    if d["route"] != "exchange" and d["body"] in ("no_method", "method_mismatch", "no_reqversion", "bad_reqversion", "bad_traceparent", "bad_params"):
        out.append(d["body"])
    if d["route"] == "exchange" and d["token"] != "valid":
        out.append(f"token-{d['token']}")
    if d["method"] in ("mismatch", "unknown"):
        out.append(f"method-{d['method']}")
    if d["cenc"] in ("corrupt", "unknown"):
        out.append(f"content-encoding-{d['cenc']}")
    if d["ctype"] != "ok":
        out.append(f"content-type-{d['ctype']}")
    if d["cap"] == "on" and d["body"] == "oversize":
        out.append("oversize")
    if d["auth"] in ("bad", "missing"):
        out.append(f"auth-{d['auth']}")
    return out or ["no-defect"]


def _oracle(ctx: Any, d: dict[str, str], o: dict[str, Any], replay: dict[str, Any], cause: str | None = None, cancel: bool = False) -> None:
    """The statement's predicate on one response.  ``cause`` names the defect in the violation key when the descriptor's
    class is realised by a specific named variant (token crosses); ``cancel`` = a cancel request (answered without process())."""
    st = o["status"]
    defects = _defects(d)
    if st >= 500 or st not in ALLOWED:
        ctx.violation(_key_for(d, o, "5xx", cause) if st >= 500 else f"status-{st}-outside-the-mapping", f"client-controlled request answered with HTTP {st}", replay)
        return
    if d["cenc"] == "unknown" and st != 415 and not (st == 413 and 413 in defects) and not (st == 401 and 401 in defects):
        # an unsupported (unknown or disabled) coding means the body cannot be interpreted at all: whatever the body is -- empty
        # included -- the answer is 415 (only the size cap and authentication, which do not look at the body, may come first)
        ctx.violation("unsupported-content-encoding-not-415", f"unsupported Content-Encoding answered {st} (body class {d['body']}, method {d['method']})", replay)
    if st not in (401, 415) and not (o["body"] in ("arrow_ok", "arrow_err") and o["ctype"] == "arrow"):
        ctx.violation(_key_for(d, o, "body", cause), f"HTTP {st} response is not a decodable Arrow IPC body (content type {o['ctype']}, body {o['body']})", replay)
    ran = [c for c in o["calls"] if not c.endswith("!")]
    raised = any(c.endswith("!") for c in o["calls"])
    if st == 200:
        # the exchange turn whose input batch the stream refuses fails before process() (reading adopted, see module docstring)
        turn_refused = d["route"] == "exchange" and d["method"] == "known" and d["body"] == "bad_params"
        describe = d["route"] == "unary" and d["method"] == "known_alt"
        if defects:
            ctx.violation(_key_for(d, o, "200", cause), f"a request with defects {defects} was answered 200 (marker={o['marker']}, implementation ran {ran})", replay)
            return
        if cancel:
            if o["marker"] or o["body"] != "arrow_ok" or o["calls"]:
                ctx.violation("cancel-answer-shape", f"cancel answered marker={o['marker']} body={o['body']} calls={o['calls']}", replay)
            return
        if not (ran or describe or turn_refused):
            ctx.violation("200-but-nothing-dispatched", "200 although the implementation was not reached", replay)
        failed = raised or turn_refused
        if o["marker"] != failed:
            ctx.violation("marker-missing-on-failed-call" if failed else "marker-on-successful-call", f"marker={o['marker']} but the call failed={failed}", replay)
        if o["marker"] and o["marker_value"] != "true":
            ctx.violation("marker-value-not-true", f"X-VGI-RPC-Error: {o['marker_value']!r}", replay)
        if (o["body"] == "arrow_err") != failed:
            ctx.violation("error-batch-vs-failure-mismatch", f"body={o['body']} but the call failed={failed}", replay)
    else:
        if st not in defects:
            ctx.violation(f"status-{st}-not-justified-{d['route']}-{cause or d['body']}-{d['cenc']}", f"HTTP {st} but the request's defects justify {defects or 'none (should be 200)'}", replay)
        if o["marker"]:
            ctx.violation(f"marker-on-{st}", "error marker on a refusal", replay)
        if o["calls"]:
            ctx.violation(f"implementation-ran-on-{st}", f"refused with {st} but the implementation ran {o['calls']}", replay)
        if o["body"] == "arrow_ok":
            ctx.violation(f"refusal-{st}-without-error-batch", "refusal body carries no error batch", replay)


def _coding_cross(ctx: Any, D: Any, world: Any) -> list[tuple[tuple[int, ...], int, dict[str, Any]]]:
    """Every body class x every unsupported coding token (and zstd on a server where it is disabled), on every route and
    method class, in every tier: the {bodies} x {unsupported encodings} cell of the quantifier, explicitly.
    Returns (descriptor with cenc = unknown, observed code, replay) for the comparison with the model."""
    out = []
    unk = D.CENCS.index("unknown")
    for route, method, body in itertools.product(range(len(D.ROUTES)), range(len(D.METHODS)), range(len(D.BODIES))):
        d = (route, method, body, 0, unk, 0, 0, 0, 0)
        dd = D.describe(d)
        base = world.build((route, method, body, 0, 0, 0, 0, 0, 0), body % D.N_VARIANTS)
        runs = [(tok, None, base["body"]) for tok in D.ALL_UNKNOWN_CENCS]
        import zstandard

        # known-but-disabled: zstd on the app built under VGI_HTTP_DISABLE_ZSTD=1 (a real zstd frame, or the raw/empty body)
        runs.append(("zstd", world.zstd_disabled_client, zstandard.ZstdCompressor().compress(base["body"]) if base["body"] else b""))
        runs.append(("zstd", world.zstd_disabled_client, base["body"]))
        for tok, client, wire in runs:
            req = dict(base, body=wire, headers={**base["headers"], "Content-Encoding": tok})
            o = world.observe(req, client=client)
            ctx.count("impl_runs")
            ctx.count("coding_cross_runs")
            replay = {"descriptor": dd, "content_encoding": tok, "zstd_disabled_server": client is not None, "path": req["path"], "headers": req["headers"],
                      "body_hex": wire[:4096].hex(), "body_len": len(wire), "observed": {k: o[k] for k in ("status", "marker", "ctype", "body", "error", "calls")}}
            _oracle(ctx, dd, o, replay)
            out.append((d, _code(o), replay))
    return out


def _token_cross(ctx: Any, D: Any, world: Any) -> list[tuple[tuple[int, ...], int, dict[str, Any]]]:
    """Every named way of presenting a token the server did not mint in that form (harness token_mutations: non-canonical
    base64 by trailing-bit flip of a minted token, forged non-canonical, garbage in valid base64, wrong padding, foreign
    characters, empty, absent, bit flip, truncation, another key's token, ...), for the CURSOR token and for the CALL token,
    on exchange turns, producer continuations and cancel requests; on the normal (warm call-state cache) apps and on an
    app whose cache is disabled (so that the presented call token is really opened).
    A defective cursor token is the statement's "bad token" everywhere: 400.  A defective call token is a bad token
    where it is read (cold cache): 400; where the cache answers (warm) it is not consulted -- that is C14's subject -- and
    only the statement's global clauses apply (no 5xx, Arrow body, 200 shape)."""
    out = []
    ix = {n: D.DIMS[i].index for i, n in enumerate(D.DIM_NAMES)}
    for method_cls, name in (("known", "e"), ("known_alt", "p")):
        other = world.tokens(False, False, name, 1, client=world._other)
        for app_name, client, auth_on, cap_on in (("warm", None, False, False), ("warm-auth-cap", None, True, True), ("cold", world.cold_client, False, False)):
            if client is None:
                cur, call = world.tokens(auth_on, cap_on, name, 1)
                cl = world.clients[(auth_on, cap_on)]
            else:
                cur, call = world.tokens(False, False, name, 1, client=client)
                cl = client
            hdr = {"Content-Type": D.ARROW_CT}
            if auth_on:
                hdr["Authorization"] = D.GOOD_CRED
            for which in ("cursor", "call"):
                muts = D.token_mutations(cur if which == "cursor" else call, other[0] if which == "cursor" else other[1])
                muts["valid"] = cur if which == "cursor" else call
                if which == "cursor":
                    muts["call-token-as-cursor"] = call
                else:
                    muts["cursor-token-as-call"] = cur
                for mname, tok in muts.items():
                    for cancel in (False, True):
                        c, k = (tok, call) if which == "cursor" else (cur, tok)
                        body = D.exchange_body(name, c, k, cancel=cancel)
                        req = {"app": (auth_on, cap_on), "path": f"/{name}/exchange", "headers": hdr, "body": body}
                        o = world.observe(req, client=cl)
                        ctx.count("impl_runs")
                        ctx.count("token_cross_runs")
                        read = which == "cursor" or app_name == "cold"     # is the mutated token one the server opens?
                        defective = mname != "valid" and read
                        d = (ix["route"]("exchange"), ix["method"](method_cls), 0, 0, 0, ix["token"]("tampered" if defective else "valid"),
                             ix["auth"]("good" if auth_on else "off"), ix["cap"]("on" if cap_on else "off"), 0)
                        dd = D.describe(d)
                        cause = None if mname == "valid" else f"{mname}-{which}-token" + ("-on-cancel" if cancel else "")
                        replay = {"descriptor": dd, "token": which, "mutation": mname, "cancel": cancel, "call_state_cache": app_name, "stream": name,
                                  "token_text": None if tok is None else tok[:80].decode("latin-1"), "path": req["path"], "body_hex": body[:4096].hex(),
                                  "observed": {k2: o[k2] for k2 in ("status", "marker", "ctype", "body", "error", "calls")}}
                        if mname != "valid" and not read:
                            # warm cache: the call token is not consulted; only the global clauses of the statement apply
                            if o["status"] >= 500 or o["status"] not in ALLOWED:
                                ctx.violation(f"5xx-exchange-{cause}" if o["status"] >= 500 else f"status-{o['status']}-outside-the-mapping", f"client-controlled request answered with HTTP {o['status']}", replay)
                            elif o["status"] not in (401, 415) and not (o["body"] in ("arrow_ok", "arrow_err") and o["ctype"] == "arrow"):
                                ctx.violation(f"non-arrow-body-{o['status']}-{cause}", f"HTTP {o['status']} response is not a decodable Arrow IPC body", replay)
                            continue
                        _oracle(ctx, dd, o, replay, cause=cause, cancel=cancel and not defective)
                        if not cancel or defective:
                            out.append((d, _code(o), replay))
    return out


def _code(o: dict[str, Any]) -> int:
    ct = {"arrow": 0, "json": 1}.get(o["ctype"], 2)
    bd = {"arrow_ok": 0, "arrow_err": 1}.get(o["body"], 2)
    return o["status"] * 100 + (10 if o["marker"] else 0) + ct + 3 * bd


def _env_facts(ctx: Any, D: Any, world: Any) -> None:
    """What pyarrow raises for each damaged-body class (a library difference must not look like a repo change)."""
    import pyarrow as pa
    from pyarrow import ipc

    expect = {"corrupt": "ArrowInvalid", "corrupt_io": "OSError", "truncated": "ArrowInvalid", "empty": "ArrowInvalid", "no_batch": "StopIteration"}
    bad = []
    for body, exp in expect.items():
        for v in range(D.N_VARIANTS):
            d = (0, 0, D.BODIES.index(body), 0, 0, 2, 0, 0, 0)
            data = world.build(d, v)["body"]
            try:
                ipc.open_stream(pa.BufferReader(data)).read_next_batch_with_custom_metadata()
                got = "none"
            except BaseException as e:  # noqa: BLE001
                got = "ArrowInvalid" if isinstance(e, pa.ArrowInvalid) else ("OSError" if isinstance(e, OSError) else type(e).__name__)
            if got != exp:
                bad.append(f"{body}/v{v}: {got} (model assumes {exp})")
    ctx.obligation("env:pyarrow-damaged-stream-exceptions", "environment", not bad, "; ".join(bad))


def run(ctx: Any) -> None:
    warnings.filterwarnings("ignore")
    translate(ctx)
    translated = ctx.obligations[-1]["ok"]
    # the theorems about the model do not depend on the regenerated tables: built and checked on their own, so that a
    # source change that breaks the tie does not hide that they still hold
    ctx.prove(
        ["prop/P_C15.vo", "refuted/R_C15.vo"],
        {
            "P_C15": [
                "C15_total_mapping", "C15_200_iff_dispatched", "C15_marker_iff_call_failed", "C15_refusal_status_justified",
                "C15_no_5xx_client_controlled", "C15_decodable_body_unless_401_415", "C15_marker_only_on_failed_200", "C15_space_is_complete",
            ],
            "R_C15": ["C15_old_total_mapping_partial"],
        },
    )
    ctx.prove(
        ["tie/T_HttpStatus.vo"],
        {"T_HttpStatus": ["cfg_tie", "C15_source_total_mapping", "C15_source_no_5xx", "C15_source_decodable_body_unless_401_415", "C15_source_200_iff_dispatched"]},
    )

    logging.disable(logging.CRITICAL)  # the app logs every refused request; Falcon logs escaped exceptions with tracebacks
    try:
        from harness import c15_driver as D

        world = D.World()
        _env_facts(ctx, D, world)

        sizes = [len(x) for x in D.DIMS]
        total = 1
        for s in sizes:
            total *= s
        # ---- case selection ------------------------------------------------------------------------------------------
        if ctx.tier == "thorough":
            chosen = list(itertools.product(*[range(s) for s in sizes]))
            ctx.exhaustive = True
        else:
            picked: dict[tuple[int, ...], None] = {}
            # baselines: every (route, method, auth, cap, outcome) with everything else good; then every single deviation
            # and every pair of deviations among (body, ctype, cenc, token)
            for route, method, auth, cap, outcome in itertools.product(range(3), range(4), range(4), range(2), range(3)):
                base = [route, method, 0, 0, 0, 0, auth, cap, outcome]
                picked[tuple(base)] = None
                for dim in (2, 3, 4, 5):
                    for val in range(sizes[dim]):
                        c = list(base)
                        c[dim] = val
                        picked[tuple(c)] = None
                if auth in (0, 2) and outcome == 0:
                    for d1, d2 in itertools.combinations((2, 3, 4, 5), 2):
                        for v1 in range(sizes[d1]):
                            for v2 in range(sizes[d2]):
                                c = list(base)
                                c[d1], c[d2] = v1, v2
                                picked[tuple(c)] = None
            n_random = 30000
            for _ in range(n_random):
                picked[tuple(ctx.rng.randrange(s) for s in sizes)] = None
            chosen = list(picked)
            ctx.exhaustive = False
        ctx.rule = (
            "cases = request descriptors (route x method class x body class x content type x content coding x token state x "
            "auth state x cap x implementation outcome), each realised by one of 4 concrete variants (seeded); thorough = the whole "
            f"product ({total}); quick = all baselines, all single and (for two auth states) pairwise deviations in body/ctype/cenc/token, "
            "plus 30000 seeded random descriptors; distinct by descriptor; non-trivial = at least one defect or a failing call"
        )
        # ---- run the real app --------------------------------------------------------------------------------------------
        t0 = time.time()
        observed: dict[tuple[int, ...], int] = {}
        variant_of: dict[tuple[int, ...], int] = {}
        for d in chosen:
            v = ctx.rng.randrange(D.N_VARIANTS)
            req = world.build(d, v)
            o = world.observe(req)
            dd = D.describe(d)
            ctx.count("impl_runs")
            ctx.case(list(d), nontrivial=bool(_defects(dd)) or dd["outcome"] != "ok")
            for n in ("route", "body", "cenc", "auth"):
                ctx.tally(n, dd[n])
            ctx.tally("status", o["status"])
            replay = {"descriptor": dd, "variant": v, "path": req["path"], "headers": req["headers"], "body_hex": req["body"][:4096].hex(),
                      "body_len": len(req["body"]), "app": {"auth": req["app"][0], "max_request_bytes": D.CAP if req["app"][1] else None},
                      "observed": {k: o[k] for k in ("status", "marker", "ctype", "body", "error", "calls")}}
            _oracle(ctx, dd, o, replay)
            observed[d] = _code(o)
            variant_of[d] = v
            ctx.sample({"descriptor": dd, "observed": {k: o[k] for k in ("status", "marker", "ctype", "body")}})
        # all four variants of a sample of descriptors must agree with each other (the classes are well defined)
        disagree = []
        for d in ctx.rng.sample(chosen, min(len(chosen), 3000 if ctx.tier == "quick" else 20000)):
            for v in range(D.N_VARIANTS):
                if v == variant_of[d]:
                    continue
                req = world.build(d, v)
                o = world.observe(req)
                ctx.count("impl_runs")
                ctx.count("variant_runs")
                dd = D.describe(d)
                _oracle(ctx, dd, o, {"descriptor": dd, "variant": v, "path": req["path"], "headers": req["headers"], "body_hex": req["body"][:4096].hex(),
                                     "observed": {k: o[k] for k in ("status", "marker", "ctype", "body", "error", "calls")}})
                if _code(o) != observed[d]:
                    disagree.append((dd, variant_of[d], observed[d], v, _code(o)))
        cross = _coding_cross(ctx, D, world) + _token_cross(ctx, D, world)
        ctx.obligation("harness:variants-of-a-class-agree", "correspondence", not disagree, f"{len(disagree)} descriptors whose variants differ, e.g. {disagree[:2]}")
        ctx.log(f"real app: {ctx.counters.get('impl_runs', 0)} requests in {time.time() - t0:.1f}s")
    finally:
        logging.disable(logging.NOTSET)

    # ---- model side: the whole table of run_with gen_cfg, once ----------------------------------------------------------
    header = "From Coq Require Import List NArith Bool.\nFrom VGI Require Import M_HttpStatus" + (" G_HttpStatus" if translated else "") + ".\nImport ListNotations.\nOpen Scope N_scope."
    cfg = "gen_cfg" if translated else "cfg_model"
    # printed run-length encoded (code * 100000 + run length): 168480 plain entries overflow Coq's printer stack
    body = (
        "Set Printing Width 200.\n"
        "Fixpoint c15_rle (cur n : N) (l : list N) : list N :=\n"
        "  match l with [] => [cur * 100000 + n] | x :: r => if x =? cur then c15_rle cur (n + 1) r else (cur * 100000 + n) :: c15_rle x 1 r end.\n"
        f"Eval vm_compute in (c15_rle 0 0 (map (fun r => code_of (run_with {cfg} r)) all_reqs))."
    )
    ok, out = ctx.coq_eval(header, body, timeout=900)
    m = re.search(r"=\s*\[(.*?)\]\s*:\s*list N", out, flags=re.S)
    table: list[int] = []
    if ok and m:
        for x in re.findall(r"\d+", m.group(1)):
            code, n = divmod(int(x), 100000)
            table += [code] * n
    bad = []
    if len(table) != total:
        ctx.obligation(f"correspondence:M_HttpStatus.run_with {cfg}", "correspondence", False, f"model table has {len(table)} entries, expected {total}: {out[-400:]}")
    else:
        strides = []
        acc = 1
        for s in reversed(sizes):
            strides.append(acc)
            acc *= s
        strides.reverse()
        for d, code in observed.items():
            idx = sum(i * st for i, st in zip(d, strides))
            if table[idx] != code:
                bad.append((d, code, table[idx]))
        for d, code, replay in cross:
            idx = sum(i * st for i, st in zip(d, strides))
            if table[idx] != code:
                bad.append((d, code, table[idx]))
                variant_of.setdefault(d, -1)
        ctx.count("model_cases", len(observed))
        ctx.obligation(f"correspondence:M_HttpStatus.run_with {cfg}", "correspondence", not bad, f"{len(bad)} of {len(observed)} descriptors disagree")
        for d, code, mcode in bad[:5]:
            ctx.violation(
                "model-impl-disagree",
                "implementation and model answer differently",
                {"descriptor": D.describe(d), "variant": variant_of[d], "impl_code": code, "model_code": mcode,
                 "code": "status*100 + marker*10 + ctype(0 arrow,1 json,2 other) + 3*body(0 ok,1 err,2 not arrow)"},
            )
    ctx.assumptions += [
        "Falcon semantics modelled: process_request hooks run in list order and the first HTTPError wins; an HTTPError goes through the app's error serializer; an exception escaping a responder becomes a 500 through the same serializer (exercised by the correspondence)",
        "each descriptor class is realised by four concrete variants (harness/c15_driver.py); classes outside the grid (Content-Encoding identity, chunked bodies without Content-Length, external-location pointers, sticky sessions, CORS, OAuth routes) are not covered",
        "authentication failures are ValueError from the authenticate callback (401); AuthUnavailableError (503) is the operator's authority being down, not client-controlled input",
        "an /exchange input batch of a schema the stream refuses is read as a failed dispatched turn (200 + marker), not as a parameter rejection",
    ]
