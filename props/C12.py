"""C12 Stream state tokens are unforgeable, identity-bound and opaque.

proof        : coq/prop/P_C12.v over model/M_Token.v (lib/Layout.v for the byte layouts).  The AEAD, zstd and SHA-256
               enter as Section parameters; "unforgeable" is the premise that a presented ciphertext which opens under
               the server's key and the caller's AAD was sealed by a key holder (INT-CTXT as an inversion principle).
regenerated  : translate/t_c12_layout.py -> gen/G_Token.v: AAD layouts of _compute_aad/_compute_call_aad, plaintext layouts
               of _seal_cursor_token/_seal_call_token, all length/version/codec constants, the envelope slicing of
               crypto.open_bytes, the armour decoding (canonical or not), AAD function and key handed to every seal/open
               call site, call order inside _unpack_and_recover_state, every raise site (message, HTTP status).
               tie/T_Token.v proves generated = modelled and restates the theorems over the generated layouts;
               proof/L_TokenArmourTie.v (built separately) ties the canonical-armour check, so a source without it
               breaks exactly that obligation while everything else stays checked.
correspondence: real tokens harvested from real streams through the Falcon app (exchange stream with call state,
               producer stream; anonymous + authenticated identities; keys of several lengths), presented back through
               POST /{method}/exchange: every single-bit flip of the token text and of the sealed envelope, byte
               substitutions, every truncation, extensions, base64 re-encodings, cursor<->call swaps, cross-stream and
               cross-identity swaps (incl. concatenation-colliding identities), foreign keys, clock offsets around the
               TTL (logical clock patched into _state_token), well-sealed but malformed payloads, cancel.  Status,
               message class and the hook log (deserialize / bind_call_state / rehydrate / process / on_cancel) are
               compared with M_Token.run_case, whose AEAD is the lookup table of what the key holders sealed.

Readings adopted where the statement leaves room
  * "same caller identity": identities are compared as the token layer sees them, ((domain or ""), (principal or ""))
    for authenticated callers, one anonymous identity otherwise.  Domains are NUL-free (QUANTIFIER); R_C12 shows the
    collision that exists otherwise -- AuthContext itself does not forbid a NUL.
  * "same key": equal after crypto.normalize_key AS SPECIFIED (32 bytes: as is, otherwise SHA-256; the oracle computes it
    itself): distinct keys are different keys unless one is the 32-byte SHA-256 digest of the other
    (C12_normalize_key_injective, under collision-freeness of the hash).
  * "no detail distinguishing which check failed": every rejection is HTTP 400 with the same envelope, and all
    authenticity failures (foreign key, other identity, other token kind, wrong version byte, any modification of the
    envelope) yield ONE message per token kind, as docs/WIRE_PROTOCOL.md specifies.  The remaining messages depend
    only on facts the caller can compute itself (the text is not base64) or on an authentic token of the caller's own
    (expired, belongs to another of its streams).  The message classes are enumerated in C12_reject_classes.
  * the call token is only judged on the cache-miss path (call_state_cache_entries=0 apps); what a warm cache does with
    a bad call token is property C14, method binding is C13.
  * "re-encoded / modified token is rejected": a text that differs from the minted text must be refused even if it
    decodes to the same envelope (base64 with non-zero unused trailing bits) -- key served-noncanonical-base64.
"""
from __future__ import annotations

import base64
import hashlib
import struct
from typing import Any

META = {
    "id": "C12",
    "technique": "Coq proof over an executable model with an ideal-AEAD section (Layout injectivity, parser = layout decoder) "
    "+ regenerated layouts/constants/raise sites tie + differential correspondence on exhaustive mutations of real tokens",
    "level_text": "Coq theorems for all byte strings / identities / clocks: AAD injective (NUL-free domains) and kind-disjoint; "
    "served => cursor (and, on a cache miss, call) token sealed by a key holder for this identity and kind, not older "
    "than TTL, same stream; rejected => no deserialization or hook; every rejection 400, authenticity failures share "
    "one message; the plaintext parsers never fault and accept exactly the layout encodings.  Layouts, constants and "
    "raise sites are regenerated from the source on every run; the hand model of the open/resolve functions is tied "
    "by running the real Falcon app on every single-bit flip / truncation / swap of real tokens.",
    "level_note": "partial: cryptographic strength (unforgeability, confidentiality) of XChaCha20-Poly1305 is a premise, checked "
    "only empirically against the real cipher on the mutation set; zstd and SHA-256 are parameters; base64 is modelled "
    "from CPython's strict decoder and validated by correspondence (decode . encode = id is a theorem for all byte "
    "strings); call token judged on the cache-miss path only (C14).",
    "design_ref": "§5 C12",
}

T0 = 1_700_000_000
TTL = 100

MSG = {
    "Malformed state token": 1,
    "State token signature verification failed": 2,
    "Malformed token payload": 3,
    "State token expired": 4,
    "Malformed call token": 5,
    "Call token signature verification failed": 6,
    "Call token expired": 7,
    "Missing call token in exchange request": 8,
    "State token does not belong to the supplied call token": 9,
    "Missing state token in exchange request": 10,
}
HOOK = {"deserialize_call": 1, "deserialize_state": 2, "bind_call_state": 3, "rehydrate": 4, "process": 5, "on_cancel": 6}

IDENTS: list[Any] = [
    None,
    ("a", "bc"),
    ("ab", "c"),
    ("", "anonymous"),
    (None, "anonymous"),
    ("jwt", "alice"),
    ("jwt", "bob"),
    ("mtls", "alice"),
    ("jwt", ""),
    ("jwt", None),
    ("", ""),
    ("a", "b\x00c"),
    ("dom", "é-ü"),
    ("abc", ""),
    ("", "abc"),
]


def translate(ctx: Any) -> None:
    from translate import t_c12_layout

    ctx.gen("G_Token", lambda: t_c12_layout.generate(ctx.repo))


def _norm_ident(i: Any) -> Any:
    """The identity as the token layer sees it: None | (domain bytes, principal bytes)."""
    if i is None:
        return None
    return ((i[0] or "").encode(), (i[1] or "").encode())


class World:
    """Real apps, real tokens, and the book-keeping of who sealed what."""

    def __init__(self, ctx: Any) -> None:
        import falcon.testing

        from harness import c12_service as S

        self.ctx = ctx
        self.S = S
        self.clk = S.install_clock()
        # the call-state cache lives on the clock of _app_stream; its TTL is the token TTL (100 s here), so a run longer
        # than that would lose its warm entries in REAL time.  Pinned: an entry put by /init stays live for the whole run.
        self.cache_clk = S.install_cache_clock(T0)
        self.falcon_testing = falcon.testing
        self.apps: dict[str, Any] = {}
        self.app_cfg: dict[str, tuple[bytes, int, bool]] = {}
        self.aead_rows: dict[tuple[bytes, bytes, bytes, bytes], bytes] = {}
        self.zstd_rows: dict[bytes, bytes] = {}
        self.sha_rows: dict[bytes, bytes] = {}
        self.cache_rows: set[tuple[bytes, bytes]] = set()
        self.minted: dict[bytes, dict[str, Any]] = {}  # raw envelope -> facts
        self.servers: dict[str, Any] = {}

    # -- apps ---------------------------------------------------------------
    def app(self, name: str, key: bytes, ttl: int, warm: bool) -> None:
        srv = self.S.make_server()
        self.servers[name] = srv
        app = self.S.make_app(srv, key, ttl, 4096 if warm else 0, max_response_bytes=4096)
        self.apps[name] = self.falcon_testing.TestClient(app)
        self.app_cfg[name] = (key, ttl, warm)
        if len(key) != 32:
            self.sha_rows[key] = hashlib.sha256(key).digest()

    @staticmethod
    def norm_key(key: bytes) -> bytes:
        return key if len(key) == 32 else hashlib.sha256(key).digest()

    def auth_of(self, ident: Any) -> Any:
        from vgi_rpc.rpc import AuthContext

        if ident is None:
            return AuthContext.anonymous()
        return AuthContext(domain=ident[0], authenticated=True, principal=ident[1])

    def aad(self, kind: str, ident: Any) -> bytes:
        from vgi_rpc.http.server import _state_token as T

        return (T._compute_aad if kind == "cursor" else T._compute_call_aad)(self.auth_of(ident))

    # -- recording what key holders seal ---------------------------------------
    def record(self, tok: bytes, kind: str, key: bytes, ident: Any, **facts: Any) -> None:
        from vgi_rpc import crypto
        from vgi_rpc.http.server import _state_token as T

        raw = base64.b64decode(tok, validate=True)
        aad = self.aad(kind, ident)
        payload = crypto.open_bytes(raw, key, aad=aad, version=raw[0])
        self.aead_rows[(self.norm_key(key), aad, raw[1:25], raw[25:])] = payload
        pl = None
        if payload[:1] == b"\x01":
            try:
                import zstandard

                pl = zstandard.ZstdDecompressor().decompress(payload[1:], max_output_size=T._MAX_TOKEN_PLAINTEXT_BYTES)
                self.zstd_rows[payload[1:]] = pl
            except Exception:  # noqa: BLE001 - crafted garbage frames stay out of the table
                pl = None
        elif payload[:1] == b"\x00":
            pl = payload[1:]
        self.minted[raw] = {"kind": kind, "key": self.norm_key(key), "ident": _norm_ident(ident), "payload": payload, "plaintext": pl, "text": tok, **facts}

    def craft(self, kind: str, key: bytes, ident: Any, payload: bytes, version: int | None = None, **facts: Any) -> bytes:
        """The harness acting as a (possibly buggy) holder of the key: seal an arbitrary payload with the real cipher."""
        from vgi_rpc import crypto

        ver = (5 if kind == "cursor" else 1) if version is None else version
        raw = crypto.seal_bytes(payload, key, aad=self.aad(kind, ident), version=ver)
        tok = base64.b64encode(raw)
        self.record(tok, kind, key, ident, crafted=True, **facts)
        return tok

    # -- driving the real app ---------------------------------------------------
    def init(self, app: str, method: str, row: dict[str, Any], ident: Any, now: int) -> tuple[bytes, bytes]:
        from harness.rawrpc import read_streams, request_bytes
        from vgi_rpc.metadata import CALL_STATE_KEY, STATE_KEY

        S = self.S
        self.clk.script = [float(now)]
        srv = self.servers[app]
        body = request_bytes(method, srv._methods[method].params_schema, row)
        r = self.apps[app].simulate_post(f"/{method}/init", body=body, headers={"Content-Type": S.ARROW_CT, **S.ident_header(ident)})
        md: dict[bytes, bytes] = {}
        for s in read_streams(r.content):
            for _, m, _b in s:
                md.update(m)
        if r.status_code != 200 or STATE_KEY not in md or CALL_STATE_KEY not in md:
            raise RuntimeError(f"init of {method} failed: {r.status_code} {sorted(md)}")
        key, _, warm = self.app_cfg[app]
        cur, call = md[STATE_KEY], md[CALL_STATE_KEY]
        self.record(cur, "cursor", key, ident, created=now, method=method, app=app)
        self.record(call, "call", key, ident, created=now, method=method, app=app)
        if warm:
            from vgi_rpc.http.server._state_token import _CallStateCache

            cid = self.minted[base64.b64decode(cur)]["plaintext"][8:24]
            self.cache_rows.add((cid, _CallStateCache._identity(self.auth_of(ident)).encode()))
        return cur, call

    def exchange(self, app: str, method: str, cur: bytes | None, call: bytes | None, ident: Any, now1: int, now2: int, cancel: bool = False) -> tuple[int, str | None, list[str], bytes | None]:
        import pyarrow as pa

        from harness.rawrpc import error_of, read_streams, request_bytes
        from vgi_rpc.metadata import CALL_STATE_KEY, CANCEL_KEY, STATE_KEY

        S = self.S
        md: dict[bytes, bytes] = {}
        if cur is not None:
            md[STATE_KEY] = cur
        if call is not None:
            md[CALL_STATE_KEY] = call
        if cancel:
            md[CANCEL_KEY] = b"1"
        if method == "ex":
            body = request_bytes(None, S.IN_SCHEMA, {"x": 1}, md, request_version=None)
        else:
            body = request_bytes(None, pa.schema([]), None, md, request_version=None, n_rows=0)
        self.clk.script = [float(now1), float(now2)]
        del S.LOG[:]
        r = self.apps[app].simulate_post(f"/{method}/exchange", body=body, headers={"Content-Type": S.ARROW_CT, **S.ident_header(ident)})
        log = list(S.LOG)
        msg = None
        new_cur = None
        try:
            st = read_streams(r.content)
            err = error_of(st[0]) if st else None
            if err is not None:
                msg = err[1]
            for s in st:
                for _, m, _b in s:
                    if STATE_KEY in m:
                        new_cur = m[STATE_KEY]
        except Exception as e:  # noqa: BLE001
            msg = f"<unparseable body: {type(e).__name__}>"
        return r.status_code, msg, log, new_cur


def _flip_text(tok: bytes, i: int, bit: int) -> bytes:
    b = bytearray(tok)
    b[i] ^= 1 << bit
    return bytes(b)


def run(ctx: Any) -> None:
    from vlib.coqterm import cZ, cbool, copt

    translate(ctx)
    ctx.prove(
        ["prop/P_C12.vo", "tie/T_Token.vo", "refuted/R_C12.vo"],
        {
            "P_C12": [
                "C12_aad_injective", "C12_cursor_call_not_interchangeable", "C12_layout_total", "C12_parse_cursor_exact",
                "C12_parse_call_exact", "C12_cursor_served_only_if_minted", "C12_call_served_only_if_minted_cold",
                "C12_reject_before_hooks", "C12_uniform_400", "C12_reject_classes", "C12_auth_failures_indistinguishable",
                "C12_served_text_is_canonical", "C12_canonical_texts_exactly_encodings", "C12_armour_roundtrip",
                "C12_normalize_key_injective",
            ],
            "T_Token": ["layouts_tie", "constants_tie", "raise_sites_tie", "C12_source_aad_injective", "C12_source_plaintexts_decodable"],
        },
    )
    # separate build: a source whose armour check is not canonical breaks exactly these obligations
    ctx.prove(["proof/L_TokenArmourTie.vo"], {"L_TokenArmourTie": ["armour_tie", "C12_source_served_text_is_canonical", "C12_source_text_unique"]})

    ctx.log("proofs checked; harvesting tokens")
    W = World(ctx)
    rng = ctx.rng
    quick = ctx.tier == "quick"
    K1 = bytes(range(1, 33))
    K2 = bytes(range(101, 133))
    K3 = b"short"
    K4 = bytes(range(64))
    K5 = hashlib.sha256(K3).digest()
    K6 = b""
    W.app("cold", K1, TTL, False)
    W.app("warm", K1, TTL, True)
    W.app("nottl", K1, 0, False)
    W.app("foreign", K2, TTL, False)
    W.app("k3", K3, TTL, False)
    W.app("k4", K4, TTL, False)
    W.app("k5", K5, TTL, False)
    W.app("k6", K6, TTL, False)
    # distinct operator keys that are close to each other: sharing their first 32 bytes (a 32-byte key and the same key
    # plus a suffix; two 64-byte keys differing in the tail; prefix + "/east" vs "/west"), or differing only inside them
    PFX = b"operator-master-key-material-0123456789"
    NEAR_KEYS: dict[str, bytes] = {
        "kx_ext": K1 + b"-suffix",                      # K1 (apps cold / warm) is its first 32 bytes
        "kx_64b": K4[:60] + b"TAIL",                    # K4 (app k4) with another tail
        "kx_east": PFX + b"/east",
        "kx_west": PFX + b"/west",
        "kx_in32": K1[:31] + bytes([K1[31] ^ 1]),       # 32 bytes, last byte differs from K1
        "kx_in40a": b"A" + PFX,
        "kx_in40b": b"B" + PFX,                         # differ only in byte 0
    }
    for nm, kk in NEAR_KEYS.items():
        W.app(nm, kk, TTL, False)
    W.app("kx_ext_warm", NEAR_KEYS["kx_ext"], TTL, True)

    cases: list[dict[str, Any]] = []
    AUTHI0 = 5  # ("jwt", "alice")

    def case(cls: str, app: str, method: str, cur: bytes | None, call: bytes | None, ident: Any, now1: int, now2: int | None = None, cancel: bool = False, **info: Any) -> None:
        cases.append({"cls": cls, "app": app, "method": method, "cur": cur, "call": call, "ident": ident, "now1": now1, "now2": now1 if now2 is None else now2, "cancel": cancel, **info})

    # ---- harvest real tokens from real streams -----------------------------------------------------------------
    streams: dict[tuple[str, int, str], tuple[bytes, bytes]] = {}
    for app in ("cold", "warm"):
        for ii, ident in enumerate(IDENTS):
            streams[(app, ii, "prod")] = W.init(app, "prod", {"limit": 1000, "pad": "p" * (300 if ii % 2 == 0 else 3)}, ident, T0)
            streams[(app, ii, "ex")] = W.init(app, "ex", {"a": ii, "label": f"L{ii}"}, ident, T0)
    second: dict[tuple[str, int, str], tuple[bytes, bytes]] = {}
    for app in ("cold",) if quick else ("cold", "warm"):
        for ii in (0, 1, 5):
            second[(app, ii, "prod")] = W.init(app, "prod", {"limit": 1000, "pad": "q" * 40}, IDENTS[ii], T0 + 5)
            second[(app, ii, "ex")] = W.init(app, "ex", {"a": 100 + ii, "label": "second"}, IDENTS[ii], T0 + 5)
    for app in ("nottl", "foreign", "k3", "k4", "k5", "k6"):
        for ii in (0, 5):
            streams[(app, ii, "prod")] = W.init(app, "prod", {"limit": 1000, "pad": "k"}, IDENTS[ii], T0)
            streams[(app, ii, "ex")] = W.init(app, "ex", {"a": 1, "label": app}, IDENTS[ii], T0)
    for app in [*NEAR_KEYS, "kx_ext_warm"]:
        streams[(app, AUTHI0, "prod")] = W.init(app, "prod", {"limit": 1000, "pad": "k"}, IDENTS[AUTHI0], T0)
        streams[(app, AUTHI0, "ex")] = W.init(app, "ex", {"a": 1, "label": "near"}, IDENTS[AUTHI0], T0)
    # a later turn of a stream: its cursor is re-minted, the call token is not
    later: dict[tuple[int, str], bytes] = {}
    for ii in (0, 1, 5):
        for m in ("prod", "ex"):
            cur, call = streams[("cold", ii, m)]
            st, msg, log, new_cur = W.exchange("cold", m, cur, call, IDENTS[ii], T0 + 10, T0 + 10)
            if st != 200 or new_cur is None:
                ctx.violation("genuine-token-refused", "a genuine continuation was not served", {"status": st, "message": msg, "method": m, "ident": repr(IDENTS[ii])})
                continue
            W.record(new_cur, "cursor", K1, IDENTS[ii], created=T0 + 10, method=m, app="cold")
            later[(ii, m)] = new_cur

    # opacity: the state plaintext marker never shows in a token
    import zstandard

    for raw, f in W.minted.items():
        if f.get("method") == "ex" and f["kind"] == "cursor":
            pt = f["plaintext"] or b""
            marker = W.S.SECRET.encode()
            if marker not in pt:
                ctx.obligation("harness:marker-in-plaintext", "harness", False, "the secret marker is not in the state plaintext; the opacity oracle would be vacuous")
            for probe in (marker, marker[:12], zstandard.ZstdCompressor(level=3).compress(pt)[8:24]):
                if probe in raw or probe in f["text"] or base64.b64encode(probe)[:-3] in f["text"]:
                    ctx.violation("plaintext-visible-in-token", "state plaintext bytes occur in the token", {"token": f["text"].decode(), "probe": probe.hex()})
    ctx.count("harvested_tokens", len(W.minted))

    # ---- generators ----------------------------------------------------------------------------------------------
    AUTHI = 5  # ("jwt", "alice")
    base_sets = [("cold", AUTHI, "ex"), ("cold", 0, "prod")] if quick else [("cold", AUTHI, "ex"), ("cold", 0, "prod"), ("cold", 1, "prod"), ("cold", 11, "ex")]

    # 0. genuine traffic: every stream, right identity, inside the TTL; also cancel, later cursors, same key in another app
    for (app, ii, m), (cur, call) in streams.items():
        case("genuine", app, m, cur, call, IDENTS[ii], T0 + 1)
        if ii in (0, 5):
            case("genuine", app, m, cur, call, IDENTS[ii], T0 + 2, cancel=True)
    for (app, ii, m), (cur, call) in second.items():
        case("genuine", app, m, cur, call, IDENTS[ii], T0 + 6)
    for (ii, m), cur in later.items():
        case("genuine", "cold", m, cur, streams[("cold", ii, m)][1], IDENTS[ii], T0 + 11)
        case("genuine", "nottl", m, cur, streams[("cold", ii, m)][1], IDENTS[ii], T0 + 10**6)  # other server, same key, no TTL
    # tokens minted by the warm app presented to the cold one and back (servers sharing the key)
    for ii in (0, 1, 5):
        for m in ("prod", "ex"):
            cur, call = streams[("warm", ii, m)]
            case("genuine", "cold", m, cur, call, IDENTS[ii], T0 + 3)
            cur, call = streams[("cold", ii, m)]
            case("genuine", "warm", m, cur, call, IDENTS[ii], T0 + 3)
    # K3 and SHA-256(K3) are the same AEAD key
    for ii in (0, 5):
        for m in ("prod", "ex"):
            cur, call = streams[("k3", ii, m)]
            case("genuine", "k5", m, cur, call, IDENTS[ii], T0 + 3)

    # 1. every single-bit flip of the token text
    for nb, (app, ii, m) in enumerate(base_sets):
        cur, call = streams[(app, ii, m)]
        # every position of the first pair of tokens; quick: every 16th of the second; thorough: every 3rd of the
        # second pair, every 16th of the others
        stride = 1 if nb == 0 else (16 if quick else (3 if nb == 1 else 16))
        for i in range(0, len(cur), stride):
            for bit in range(8):
                case("flip-text-cursor", app, m, _flip_text(cur, i, bit), call, IDENTS[ii], T0 + 1, base=cur, cur_sym=("TFlip", cur, i, bit))
        for i in range(0, len(call), stride):
            for bit in range(8):
                case("flip-text-call", app, m, cur, _flip_text(call, i, bit), IDENTS[ii], T0 + 1, base=call, call_sym=("TFlip", call, i, bit))
    # ... cursor flips against the warm app too (the cursor is opened before the cache is consulted)
    cur, call = streams[("warm", AUTHI, "prod")]
    step = 16 if quick else 8
    for i in range(0, len(cur), step):
        for bit in range(8):
            case("flip-text-cursor", "warm", "prod", _flip_text(cur, i, bit), call, IDENTS[AUTHI], T0 + 1, base=cur, cur_sym=("TFlip", cur, i, bit))

    # 2. every single-bit flip of the sealed envelope (canonical re-encoding): version byte, nonce, ciphertext, tag
    for app, ii, m in base_sets[: (1 if quick else 2)]:
        cur, call = streams[(app, ii, m)]
        for which, tok in (("cursor", cur), ("call", call)):
            raw = base64.b64decode(tok)
            # version byte, nonce, tag: every bit; ciphertext: every bit for the first pair in the thorough tier, a sample otherwise
            full = (not quick) and (app, ii, m) == base_sets[0]
            positions = range(len(raw)) if full else sorted(set(range(0, 26)) | set(range(len(raw) - 17, len(raw))) | set(rng.sample(range(26, len(raw) - 17), 40)))
            for i in positions:
                for bit in range(8):
                    mut = bytearray(raw)
                    mut[i] ^= 1 << bit
                    t = base64.b64encode(bytes(mut))
                    if which == "cursor":
                        case("flip-raw-cursor", app, m, t, call, IDENTS[ii], T0 + 1, base=tok)
                    else:
                        case("flip-raw-call", app, m, cur, t, IDENTS[ii], T0 + 1, base=tok)

    # 3. byte substitutions, 4. truncations and extensions
    for app, ii, m in base_sets[: (1 if quick else 2)]:
        cur, call = streams[(app, ii, m)]
        for which, tok in (("cursor", cur), ("call", call)):
            def put(t: bytes, cls: str, sym: Any = None) -> None:
                if which == "cursor":
                    case(cls + "-cursor", app, m, t, call, IDENTS[ii], T0 + 1, base=tok, cur_sym=sym)
                else:
                    case(cls + "-call", app, m, cur, t, IDENTS[ii], T0 + 1, base=tok, call_sym=sym)

            for i in range(len(tok)):
                for _ in range(1):
                    v = rng.choice([rng.randrange(256), rng.choice(b"ABCDEFGHIJKLMNOPQRSTUVWXYZabcdefghijklmnopqrstuvwxyz0123456789+/=-_ \n")])
                    if v != tok[i]:
                        b = bytearray(tok)
                        b[i] = v
                        put(bytes(b), "subst", ("TSet", tok, i, v))
            for n in range(len(tok)):
                put(tok[:n], "truncate-text", ("TTrunc", tok, n))
            raw = base64.b64decode(tok)
            for n in range(0, len(raw), 2 if not quick else 3):
                put(base64.b64encode(raw[:n]), "truncate-raw")
                put(base64.b64encode(raw[len(raw) - n :]), "truncate-raw")
            for suf in (b"A", b"=", b"==", b"AAAA", b"AA==", b"\n", b" ", b"\x00", b"A===", b"===="):
                put(tok + suf, "extend-text")
                put(suf + tok, "extend-text")
            for suf in (b"\x00", b"\x00\x00", b"\x00\x00\x00", b"abc", bytes(16), raw[-16:]):
                put(base64.b64encode(raw + suf), "extend-raw")
                put(base64.b64encode(suf + raw), "extend-raw")

    # 5. base64 re-encodings (tokens of every padding length)
    def reencodings(tok: bytes) -> list[tuple[str, bytes]]:
        raw = base64.b64decode(tok)
        out = [
            ("urlsafe", base64.urlsafe_b64encode(raw)),
            ("nopad", tok.rstrip(b"=")),
            ("morepad", tok + b"="),
            ("mime", base64.encodebytes(raw)),
            ("mime-strip", base64.encodebytes(raw).strip()),
            ("spaces", tok[:10] + b" " + tok[10:]),
            ("crlf", tok + b"\r\n"),
            ("double", base64.b64encode(tok)),
            ("hex", raw.hex().encode()),
            ("b32", base64.b32encode(raw)),
            ("lower", tok.lower()),
            ("b85", base64.b85encode(raw)),
            ("percent", tok.replace(b"+", b"%2B").replace(b"/", b"%2F").replace(b"=", b"%3D")),
        ]
        # non-canonical encodings of the SAME envelope: unused low bits of the last data character
        alpha = b"ABCDEFGHIJKLMNOPQRSTUVWXYZabcdefghijklmnopqrstuvwxyz0123456789+/"
        npad = len(tok) - len(tok.rstrip(b"="))
        if npad:
            k = len(tok) - npad - 1
            v = alpha.index(tok[k])
            for low in range(1, 1 << (2 * npad)):
                out.append(("noncanonical", tok[:k] + bytes([alpha[v | low]]) + tok[k + 1 :]))
        return [(n, t) for n, t in out if t != tok]

    by_pad: dict[int, list[tuple[str, int, str]]] = {0: [], 1: [], 2: []}
    for (app, ii, m), (cur, call) in streams.items():
        if app == "cold":
            by_pad[len(cur) - len(cur.rstrip(b"="))].append((app, ii, m))
    reenc_bases = [v[0] for v in by_pad.values() if v] + [("cold", AUTHI, "ex")]
    for app, ii, m in reenc_bases:
        cur, call = streams[(app, ii, m)]
        for name, t in reencodings(cur):
            case("reencode-cursor", app, m, t, call, IDENTS[ii], T0 + 1, base=cur, variant=name)
        for name, t in reencodings(call):
            case("reencode-call", app, m, cur, t, IDENTS[ii], T0 + 1, base=call, variant=name)
    # make sure padded call tokens are covered as well
    for (app, ii, m), (cur, call) in list(streams.items()):
        if app == "cold" and call.endswith(b"=") and ii in (0, 1, 2, 5):
            for name, t in reencodings(call):
                if name == "noncanonical":
                    case("reencode-call", app, m, cur, t, IDENTS[ii], T0 + 1, base=call, variant=name)
        if app == "cold" and cur.endswith(b"=") and ii in (0, 1, 2, 5):
            for name, t in reencodings(cur):
                if name == "noncanonical":
                    case("reencode-cursor", app, m, t, call, IDENTS[ii], T0 + 1, base=cur, variant=name)

    # 6. swaps between cursor and call, between streams, missing tokens
    for ii in (0, 1, AUTHI):
        for m in ("prod", "ex"):
            cur, call = streams[("cold", ii, m)]
            cur2, call2 = second[("cold", ii, m)]
            other = "ex" if m == "prod" else "prod"
            cur3, call3 = streams[("cold", ii, other)]
            ident = IDENTS[ii]
            case("swap-kind", "cold", m, call, cur, ident, T0 + 6)
            case("swap-kind", "cold", m, call, call, ident, T0 + 6)
            case("swap-kind", "cold", m, cur, cur, ident, T0 + 6)
            case("cross-stream", "cold", m, cur, call2, ident, T0 + 6)
            case("cross-stream", "cold", m, cur2, call, ident, T0 + 6)
            case("cross-stream", "cold", m, cur, call3, ident, T0 + 6)
            case("missing", "cold", m, cur, None, ident, T0 + 6)
            case("missing", "cold", m, None, call, ident, T0 + 6)
            case("missing", "cold", m, None, None, ident, T0 + 6)
            # warm app: the cache answers for the call token (C14 territory) -- correspondence only
            wcur, wcall = streams[("warm", ii, m)]
            case("warm-nocall", "warm", m, wcur, None, ident, T0 + 6)
            case("swap-kind", "warm", m, wcall, wcur, ident, T0 + 6)

    NEAR = {0, 3, 4, 8, 9, 10, 13, 14}
    # 7. identity pairs: tokens of i presented by j (all ordered pairs on the cold app; cursor-only check on the warm one)
    for i in range(len(IDENTS)):
        for j in range(len(IDENTS)):
            if i == j:
                continue
            # (None, p) and ("", p) are one identity for the token layer: presenting one's tokens as the other is genuine traffic
            cls = "cross-identity" if _norm_ident(IDENTS[i]) != _norm_ident(IDENTS[j]) else "alias-identity"
            for m in ("prod", "ex") if (not quick or (i + j) % 2 == 0) else ("prod",):
                cur, call = streams[("cold", i, m)]
                case(cls if cls == "cross-identity" else "genuine", "cold", m, cur, call, IDENTS[j], T0 + 1, minted_for=i)
                if not quick or (i * 7 + j) % 5 == 0:
                    # own cursor, someone else's call token / someone else's cursor, own call token
                    curj, callj = streams[("cold", j, m)]
                    case(cls, "cold", m, curj, call, IDENTS[j], T0 + 1, minted_for=i)
                    case(cls, "cold", m, cur, callj, IDENTS[j], T0 + 1, minted_for=i)
            # warm worker (the call-state cache answers for the call token, its key is the UNtagged identity string):
            # every ordered pair; both methods and also without any call token for the identities whose encodings
            # nearly coincide (anonymous vs authenticated ""/None + "anonymous", "" + "", None vs "" domains/principals)
            near = i in NEAR and j in NEAR
            for m in ("prod", "ex") if (near or not quick) else ("prod",):
                wcur, wcall = streams[("warm", i, m)]
                case(cls if cls == "cross-identity" else "genuine", "warm", m, wcur, wcall, IDENTS[j], T0 + 1, minted_for=i)
                if near:
                    case(cls if cls == "cross-identity" else "genuine", "warm", m, wcur, None, IDENTS[j], T0 + 1, minted_for=i)
                    case(cls if cls == "cross-identity" else "genuine", "cold", m, streams[("cold", i, m)][0], streams[("cold", i, m)][1], IDENTS[j], T0 + 1, minted_for=i)

    # 8. keys: tokens of every app presented to every app with another key
    key_apps = ["cold", "foreign", "k3", "k4", "k5", "k6"]
    for a in key_apps:
        for b in key_apps:
            if a == b or {a, b} == {"k3", "k5"}:
                continue
            for ii in (0, 5):
                for m in ("prod", "ex"):
                    cur, call = streams[(a, ii, m)]
                    case("foreign-key", b, m, cur, call, IDENTS[ii], T0 + 1, minted_app=a)
                    curb, callb = streams[(b, ii, m)]
                    case("foreign-key", b, m, curb, call, IDENTS[ii], T0 + 1, minted_app=a)
    # ... and the near-key pairs, in both directions, on cold and warm workers (always generated)
    near_pairs = [("cold", "kx_ext"), ("warm", "kx_ext"), ("cold", "kx_ext_warm"), ("k4", "kx_64b"), ("kx_east", "kx_west"),
                  ("cold", "kx_in32"), ("warm", "kx_in32"), ("kx_in40a", "kx_in40b"), ("kx_ext", "kx_64b"), ("kx_east", "kx_in40a")]
    for a0, b0 in near_pairs:
        for a, b in ((a0, b0), (b0, a0)):
            for m in ("prod", "ex"):
                cur, call = streams[(a, AUTHI0, m)]
                curb, callb = streams[(b, AUTHI0, m)]
                case("foreign-key", b, m, cur, call, IDENTS[AUTHI0], T0 + 1, minted_app=a)
                case("foreign-key", b, m, cur, None, IDENTS[AUTHI0], T0 + 1, minted_app=a)
                if not W.app_cfg[b][2]:  # on a warm worker the cache answers for the call token (C14)
                    case("foreign-key", b, m, curb, call, IDENTS[AUTHI0], T0 + 1, minted_app=a)
                case("foreign-key", b, m, cur, callb, IDENTS[AUTHI0], T0 + 1, minted_app=a)
    # the same key in two apps (cold / warm worker) stays genuine
    for m in ("prod", "ex"):
        cur, call = streams[("kx_ext", AUTHI0, m)]
        case("genuine", "kx_ext_warm", m, cur, call, IDENTS[AUTHI0], T0 + 1)
        cur, call = streams[("kx_ext_warm", AUTHI0, m)]
        case("genuine", "kx_ext", m, cur, call, IDENTS[AUTHI0], T0 + 1)

    # 9. clock offsets around the TTL (cursor minted at T0+10, call token at T0), two clock reads
    for ii in (0, AUTHI):
        for m in ("prod", "ex"):
            cur0, call = streams[("cold", ii, m)]
            cur10 = later[(ii, m)]
            for d in (-1000, -1, 0, 1, TTL - 1, TTL, TTL + 1, TTL + 9, TTL + 10, TTL + 11, 10**9):
                case("clock", "cold", m, cur10, call, IDENTS[ii], T0 + d)
                case("clock", "cold", m, cur0, call, IDENTS[ii], T0 + d)
                case("clock", "nottl", m, cur10, call, IDENTS[ii], T0 + d)
            # the two tests read the clock separately
            case("clock", "cold", m, cur10, call, IDENTS[ii], T0 + TTL, T0 + TTL + 1)
            case("clock", "cold", m, cur10, call, IDENTS[ii], T0 + TTL + 10, T0 + TTL)
            case("clock", "cold", m, cur10, call, IDENTS[ii], T0 + TTL + 11, T0 + TTL)
            case("clock", "cold", m, cur10, call, IDENTS[ii], T0 + TTL + 11, T0 + TTL, cancel=True)
            wcur, wcall = streams[("warm", ii, m)]
            for d in (TTL, TTL + 1):
                case("clock", "warm", m, wcur, wcall, IDENTS[ii], T0 + d)

    # 10. well-sealed envelopes around malformed payloads (a key holder with a bug / an older format)
    for ii, m in ((AUTHI, "ex"),) if quick else ((AUTHI, "ex"), (0, "prod")):
        ident = IDENTS[ii]
        cur, call = streams[("cold", ii, m)]
        for kind, tok in (("cursor", cur), ("call", call)):
            f = W.minted[base64.b64decode(tok)]
            pl: bytes = f["plaintext"]
            z = zstandard.ZstdCompressor(level=3).compress(pl)
            payloads: list[tuple[str, bytes, int | None]] = [
                ("empty", b"", None), ("tag-only-raw", b"\x00", None), ("tag-only-zstd", b"\x01", None), ("tag2", b"\x02" + pl, None), ("tagff", b"\xff" + pl, None),
                ("zstd-garbage", b"\x01" + pl, None), ("zstd-truncated", b"\x01" + z[:-3], None), ("zstd-forced", b"\x01" + z, None), ("raw-forced", b"\x00" + pl, None),
                ("trailing", b"\x00" + pl + b"\x00", None), ("zstd-trailing", b"\x01" + zstandard.ZstdCompressor(level=3).compress(pl + b"\x00"), None),
                ("wrong-version", b"\x00" + pl, 1 if kind == "cursor" else 5), ("version0", b"\x00" + pl, 0),
            ]
            cuts = sorted({0, 1, 7, 8, 23, 24, 27, 28, 29, 43, 44, 45, len(pl) - 1, len(pl) - 4, len(pl) - 5} | set(rng.sample(range(len(pl)), 12)))
            for n in cuts:
                if 0 <= n < len(pl):
                    payloads.append((f"cut{n}", b"\x00" + pl[:n], None))
            # patch each length prefix: +1, -1, huge
            pos = 24
            nseg = 1 if kind == "cursor" else 5
            for s in range(nseg):
                (ln,) = struct.unpack_from("<I", pl, pos)
                for name, v in (("plus1", ln + 1), ("minus1", ln - 1), ("huge", 0xFFFFFFFF), ("zero", 0)):
                    if 0 <= v <= 0xFFFFFFFF and v != ln:
                        payloads.append((f"seg{s}-{name}", b"\x00" + pl[:pos] + struct.pack("<I", v) + pl[pos + 4 :], None))
                pos += 4 + ln
            for name, payload, ver in payloads:
                t = W.craft(kind, K1, ident, payload, ver, created=T0, method=m, app="harness", variant=name)
                if kind == "cursor":
                    case("crafted-cursor", "cold", m, t, call, ident, T0 + 1, variant=name)
                else:
                    case("crafted-call", "cold", m, cur, t, ident, T0 + 1, variant=name)
        # a well-formed cursor of this caller naming a call id nobody minted
        f = W.minted[base64.b64decode(cur)]
        pl = f["plaintext"]
        t = W.craft("cursor", K1, ident, b"\x00" + pl[:8] + bytes(16) + pl[24:], None, created=T0, method=m, app="harness", variant="unknown-call-id")
        case("crafted-cursor", "cold", m, t, call, ident, T0 + 1, variant="unknown-call-id")

    # 11. cancel on rejected / served requests
    for ii in (0, AUTHI):
        for m in ("prod", "ex"):
            cur, call = streams[("cold", ii, m)]
            case("flip-text-cursor", "cold", m, _flip_text(cur, 40, 0), call, IDENTS[ii], T0 + 1, cancel=True, base=cur)
            case("flip-text-call", "cold", m, cur, _flip_text(call, 40, 0), IDENTS[ii], T0 + 1, cancel=True, base=call)
            case("cross-identity", "cold", m, cur, call, IDENTS[1], T0 + 1, cancel=True, minted_for=ii)
            case("clock", "cold", m, cur, call, IDENTS[ii], T0 + TTL + 1, cancel=True)

    ctx.rule = (
        "cases = (app: key/ttl/cache) x method {exchange stream with call state, producer} x caller identity x logical clock (two reads) x cancel x "
        "(cursor text, call text) where the texts are real tokens and their mutations by class: genuine, flip-text, flip-raw, subst, truncate, extend, "
        "reencode, swap-kind, cross-stream, missing, cross-identity, foreign-key, clock, crafted payload; distinct by the full tuple; "
        "non-trivial = at least one presented token is not the text minted for this caller, or the clock is off the mint time"
    )

    # ---- run the REAL implementation, judge it with the property's own predicate ------------------------------------
    def genuine(tok: bytes | None, kind: str, key: bytes, ident: Any) -> dict[str, Any] | None:
        """The facts of the sealed envelope behind ``tok`` if a holder of ``key`` sealed it as ``kind`` for ``ident``."""
        if tok is None:
            return None
        try:
            raw = base64.b64decode(tok, validate=True)
        except Exception:  # noqa: BLE001
            return None
        f = W.minted.get(raw)
        if f is None or f["kind"] != kind or f["key"] != W.norm_key(key) or f["ident"] != _norm_ident(ident):
            return None
        return f

    ctx.log(f"{len(cases)} cases generated; running the implementation")
    AUTH_CLASSES = {"flip-raw-cursor": 2, "flip-raw-call": 6, "foreign-key": None, "swap-kind": None, "cross-identity": None}
    results: list[tuple[int, int, list[int]]] = []
    seen: set[Any] = set()
    uniq: list[dict[str, Any]] = []
    for c in cases:
        k = (c["app"], c["method"], c["cur"], c["call"], repr(c["ident"]), c["now1"], c["now2"], c["cancel"])
        if k in seen:
            continue
        seen.add(k)
        uniq.append(c)
    cases = uniq
    for c in cases:
        key, ttl, warm = W.app_cfg[c["app"]]
        status, msg, log, _new = W.exchange(c["app"], c["method"], c["cur"], c["call"], c["ident"], c["now1"], c["now2"], c["cancel"])
        ctx.count("impl_runs")
        ctx.tally("class", c["cls"])
        ctx.tally("app", c["app"])
        short = (msg or "").removeprefix("RuntimeError: ")
        code = MSG.get(short, 99) if status != 200 else 0
        hooks: list[int] = []
        for h in log:
            hc = HOOK.get(h, 99)
            if not (hc == 5 and hooks and hooks[-1] == 5):  # a producer turn may call process repeatedly
                hooks.append(hc)
        results.append((status, code, hooks))
        repl = {
            "class": c["cls"], "app": c["app"], "key_hex": key.hex(), "ttl": ttl, "cache_entries": 4096 if warm else 0, "method": c["method"],
            "identity": repr(c["ident"]), "clock": [c["now1"], c["now2"]], "cancel": c["cancel"], "variant": c.get("variant"),
            "cursor_token": None if c["cur"] is None else c["cur"].decode("latin-1"), "call_token": None if c["call"] is None else c["call"].decode("latin-1"),
            "base_token": None if c.get("base") is None else c["base"].decode("latin-1"),
            "status": status, "message": msg, "hooks": [h for n, h in enumerate(log) if n == 0 or h != log[n - 1]],
        }
        fc = genuine(c["cur"], "cursor", key, c["ident"])
        fk = genuine(c["call"], "call", key, c["ident"])
        nontrivial = not (fc is not None and fc["text"] == c["cur"] and fk is not None and fk["text"] == c["call"] and c["now1"] - fc["created"] in range(0, 3))
        ctx.case([c["app"], c["method"], repr(c["ident"]), c["now1"], c["now2"], c["cancel"], None if c["cur"] is None else hashlib.sha1(c["cur"]).hexdigest(), None if c["call"] is None else hashlib.sha1(c["call"]).hexdigest()], nontrivial=nontrivial)
        if status == 200 and c["cls"] == "cross-identity":
            a, b = _norm_ident(IDENTS[c["minted_for"]]), _norm_ident(c["ident"])
            alias = {a, b} == {None, (b"", b"anonymous")}
            ctx.violation(
                "served-cross-identity:anonymous-alias" if alias else "served-cross-identity",
                "tokens minted for one caller identity were served to a caller with another identity"
                + (" (unauthenticated vs authenticated ''/None + 'anonymous')" if alias else ""),
                {**repl, "minted_for": repr(IDENTS[c["minted_for"]])},
            )
        if status == 200 and c["cls"] == "foreign-key":
            ka = W.app_cfg[c["minted_app"]][0]
            shared = ka != key and ka[:32] == key[:32] and len(ka) >= 32 and len(key) >= 32
            ctx.violation(
                "served-foreign-key:shared-32-byte-prefix" if shared else "served-foreign-key",
                "a server holding one key served tokens minted under a different key" + (" (the two keys share their first 32 bytes)" if shared else ""),
                {**repl, "minted_under_key_hex": ka.hex()},
            )
        if status == 200:
            # served  =>  cursor sealed by a key holder for this caller, not older than the TTL, ...
            if fc is None:
                ctx.violation("served-cursor-not-minted-for-caller", "a continuation was served although its cursor token was not sealed by a key holder for this identity", repl)
            else:
                if fc["text"] != c["cur"]:
                    ctx.violation("served-noncanonical-base64", "a token text that differs from the minted text (non-zero unused base64 bits) was served", repl)
                if fc["plaintext"] is None or len(fc["plaintext"]) < 28:
                    ctx.violation("served-malformed-payload", "a malformed cursor payload was served", repl)
                elif ttl > 0 and c["now1"] - struct.unpack_from("<Q", fc["plaintext"], 0)[0] > ttl:
                    ctx.violation("served-expired-cursor", "a cursor token older than the TTL was served", repl)
            # ... and, on the cache-miss path, the same for the call token, which must belong to the same stream
            if not warm:
                if fk is None:
                    ctx.violation("served-call-not-minted-for-caller", "a continuation was served (cold cache) although its call token was not sealed by a key holder for this identity", repl)
                else:
                    if fk["text"] != c["call"]:
                        ctx.violation("served-noncanonical-base64", "a token text that differs from the minted text (non-zero unused base64 bits) was served", repl)
                    if ttl > 0 and fk["plaintext"] is not None and len(fk["plaintext"]) >= 8 and c["now2"] - struct.unpack_from("<Q", fk["plaintext"], 0)[0] > ttl:
                        ctx.violation("served-expired-call", "a call token older than the TTL was served", repl)
                    if fc is not None and fc["plaintext"] is not None and fk["plaintext"] is not None and fc["plaintext"][8:24] != fk["plaintext"][8:24]:
                        ctx.violation("served-cross-stream", "cursor and call token of different streams were served together", repl)
            want_last = "on_cancel" if c["cancel"] else "process"
            if not log or log[-1] != want_last or "rehydrate" not in log:
                ctx.violation("served-without-hooks", "served but the hook log is not deserialize/bind/rehydrate/" + want_last, repl)
        else:
            if status != 400:
                ctx.violation("reject-not-400", f"a token failure was answered with HTTP {status}", repl)
            if log:
                ctx.violation("hook-ran-on-reject", "state was deserialized or a user hook ran although the request was rejected", repl)
            if code == 99:
                ctx.violation("reject-unknown-message", "rejection message outside the enumerated classes", repl)
            want = AUTH_CLASSES.get(c["cls"], "-")
            if c["cls"] in ("flip-raw-cursor", "flip-raw-call") and code != want:
                ctx.violation("auth-failure-distinguishable", "a modified envelope was refused with a message other than the uniform signature failure", repl)
            if c["cls"] in ("foreign-key", "cross-identity", "swap-kind") and code not in (2, 6):
                ctx.violation("auth-failure-distinguishable", "foreign key / other identity / swapped kind refused with a message other than the uniform signature failure", repl)
            if c["cls"] == "genuine":
                ctx.violation("genuine-token-refused", "genuine tokens of this caller, inside the TTL, were refused", repl)
    ctx.sample({"class": "flip-text-cursor", "expected": "400, no hook"})
    ctx.sample({"class": "cross-identity", "minted_for": "('a','bc')", "presented_by": "('ab','c')", "expected": "400 signature failure"})
    ctx.sample({"class": "clock", "now - created": TTL + 1, "expected": "400 expired"})
    ctx.sample({"class": "reencode", "variant": "noncanonical", "expected": "400"})

    ctx.log("implementation done; compiling tables")
    # ---- the model on the same cases --------------------------------------------------------------------------------
    names: dict[bytes, str] = {}

    def lit(b: bytes) -> str:
        return "[" + ";".join(str(x) for x in b) + "]"

    def ref(b: bytes) -> str:
        return names[b] if b in names else lit(b)

    # the tables are compiled once, in parallel chunks (.vo files in a scratch directory); every shard of cases only loads them
    import shutil
    import subprocess

    from vlib.core import scratch_dir

    imports = "From Coq Require Import List NArith ZArith Bool.\nFrom VGI Require Import Bytes Layout M_Token Corr.\nImport ListNotations.\nOpen Scope N_scope.\n"
    nchunks = 8
    chunk_defs: list[list[str]] = [[] for _ in range(nchunks)]
    chunk_rows: list[list[str]] = [[] for _ in range(nchunks)]

    def define(b: bytes, chunk: int) -> str:
        if b not in names:
            names[b] = f"tk{len(names)}"
            chunk_defs[chunk].append(f"Definition {names[b]} : list N := {lit(b)}.")
        return names[b]

    for key, _, _ in W.app_cfg.values():
        if len(key) >= 24:
            define(key, 0)
    for n, (raw, f) in enumerate(sorted(W.minted.items())):
        ch = n % nchunks
        define(f["text"], ch)
    by_env = {(nonce, body): (k, a, p) for (k, a, nonce, body), p in W.aead_rows.items()}
    for n, (raw, f) in enumerate(sorted(W.minted.items())):
        ch = n % nchunks
        k, a, p = by_env[(raw[1:25], raw[25:])]
        chunk_rows[ch].append(f"({ref(k)}, {lit(a)}, {lit(raw[1:25])}, {lit(raw[25:])}, {lit(p)})")
    zrows = ";\n".join(f"({lit(z)}, {lit(p)})" for z, p in W.zstd_rows.items())
    srows = ";\n".join(f"({lit(k)}, {lit(d)})" for k, d in W.sha_rows.items())
    crows = ";\n".join(f"({lit(cid)}, {lit(ik)})" for cid, ik in sorted(W.cache_rows))
    tdir = scratch_dir()
    try:
        procs = []
        for ch in range(nchunks):
            dep = "" if ch == 0 else "From C12T Require Import C12T0.\n"
            text = imports + dep + "\n".join(chunk_defs[ch]) + f"\nDefinition T_aead_{ch} : list aead_row := [\n" + ";\n".join(chunk_rows[ch]) + "].\n"
            (tdir / f"C12T{ch}.v").write_text(text)
        cmd = ["timeout", "900", "coqc", "-noglob", "-R", str(ctx.bdir), "VGI", "-Q", str(tdir), "C12T", "-w", "-all"]
        pr0 = subprocess.run(cmd + ["C12T0.v"], cwd=tdir, capture_output=True, text=True)  # holds the keys the others refer to
        procs = [subprocess.Popen(cmd + [f"C12T{ch}.v"], cwd=tdir, stdout=subprocess.PIPE, stderr=subprocess.STDOUT, text=True) for ch in range(1, nchunks)]
        outs = [pr0.stdout + pr0.stderr] + [p.communicate()[0] for p in procs]
        tables = (
            imports
            + "".join(f"From C12T Require Export C12T{ch}.\n" for ch in range(nchunks))
            + "Definition T_aead : list aead_row := " + " ++ ".join(f"T_aead_{ch}" for ch in range(nchunks)) + ".\n"
            + f"Definition T_zstd : list (list N * list N) := [\n{zrows}].\n"
            + f"Definition T_sha : list (list N * list N) := [\n{srows}].\nDefinition T_cache : list (list N * list N) := [\n{crows}].\n"
            + "Inductive tokx := TLit (b : list N) | TFlip (b : list N) (i bit : N) | TSet (b : list N) (i v : N) | TTrunc (b : list N) (n : N).\n"
            + "Definition upd (b : list N) (i : N) (f : N -> N) : list N := firstn (N.to_nat i) b ++ match skipn (N.to_nat i) b with [] => [] | x :: r => f x :: r end.\n"
            + "Definition tx (t : tokx) : list N := match t with TLit b => b | TFlip b i bit => upd b i (fun x => N.lxor x (N.shiftl 1 bit)) | TSet b i v => upd b i (fun _ => v) | TTrunc b n => firstn (N.to_nat n) b end.\n"
            + "Definition case_x := ((list N * Z * Z * Z) * (bool * option (list N * list N) * bool) * (option tokx * option tokx))%type.\n"
            + "Definition run_x (canonical : bool) (c : case_x) := let '(a, b, (cu, ca)) := c in run_case T_aead T_zstd T_sha T_cache canonical (a, b, (option_map tx cu, option_map tx ca)).\n"
            + "Definition eqb3 (x y : N * N * list N) : bool := let '(a, b, c) := x in let '(a', b', c') := y in (a =? a') && (b =? b') && Corr.bytes_eqb c c'.\n"
        )
        (tdir / "C12Tables.v").write_text(tables)
        pr = subprocess.run(cmd + ["C12Tables.v"], cwd=tdir, capture_output=True, text=True)
        if pr.returncode != 0 or pr0.returncode != 0 or any(p.returncode != 0 for p in procs):
            ctx.obligation("correspondence:M_Token.run_case", "correspondence", False, "tables did not compile: " + ("\n".join(outs) + pr.stdout + pr.stderr)[-1500:])
            return
        ctx.log("tables compiled; evaluating the model")
        header = (
            f'Add LoadPath "{tdir}" as C12T.\nFrom Coq Require Import List NArith ZArith Bool.\nFrom VGI Require Import Bytes Layout M_Token G_Token Corr.\n'
            "From C12T Require Import C12Tables.\nImport ListNotations.\nOpen Scope N_scope.\n"
        )
        _model_side(ctx, W, cases, results, names, lit, ref, header)
    finally:
        shutil.rmtree(tdir, ignore_errors=True)
    ctx.exhaustive = False
    ctx.assumptions += [
        "XChaCha20-Poly1305 is unforgeable and confidential (premise of the theorems; the real cipher is only compared with the ideal table on the generated mutations)",
        "zstd decompress(compress(x)) = x and SHA-256 enter as parameters; base64 is modelled after CPython 3.13 binascii.a2b_base64(strict_mode=True) and validated by correspondence",
        "states and schemas minted by the server deserialize (post-token failures are outside the token model); type/stream-id bytes of minted call tokens are valid UTF-8",
        "time.time of vgi_rpc.http.server._state_token is replaced by a scripted logical clock; time.time of _app_stream (the call-state cache's clock, TTL = token TTL) is pinned to a constant so that warm entries do not expire in real time during a long run",
        "call token judged on the cache-miss path only (call_state_cache_entries=0); warm-cache behaviour is C14, method binding C13",
    ]


def _model_side(ctx: Any, W: Any, cases: list[dict[str, Any]], results: list[tuple[int, int, list[int]]], names: dict[bytes, str], lit: Any, ref: Any, header: str) -> None:
    from vlib.coqterm import cZ, cbool, copt

    def apply_sym(sym: Any) -> bytes:
        op, b, i, *rest = sym
        if op == "TFlip":
            return _flip_text(b, i, rest[0])
        if op == "TSet":
            return b[:i] + bytes([rest[0]]) + b[i + 1 :]
        return b[:i]

    wrong = [c for c in cases for k, t in (("cur_sym", "cur"), ("call_sym", "call")) if c.get(k) is not None and apply_sym(c[k]) != c[t]]
    ctx.obligation("harness:symbolic-mutations-are-the-presented-texts", "harness", not wrong, f"{len(wrong)} cases")
    # quick tier: the implementation and the oracle see every bit flip; the (much slower) model is evaluated on the
    # flips of every 4th text position (all 8 bits) and on every case of all other classes
    if ctx.tier == "quick":
        def thin(c: dict[str, Any]) -> bool:
            sym = c.get("cur_sym") or c.get("call_sym")
            return c["cls"].startswith("flip-text") and sym is not None and sym[2] % 4 != 0

        keep = [n for n, c in enumerate(cases) if not thin(c)]
        cases = [cases[n] for n in keep]
        results = [results[n] for n in keep]
    mcases = []
    for c, (status, code, hooks) in zip(cases, results):
        key, ttl, warm = W.app_cfg[c["app"]]
        ni = _norm_ident(c["ident"])
        ident = copt(None if ni is None else f"({lit(ni[0])}, {lit(ni[1])})")
        def tok(t: bytes | None, sym: Any) -> str:
            if t is None:
                return "None"
            if sym is not None and sym[1] in names:
                return f"(Some ({sym[0]} {names[sym[1]]} {sym[2]} {sym[3]}))" if sym[0] != "TTrunc" else f"(Some (TTrunc {names[sym[1]]} {sym[2]}))"
            return f"(Some (TLit {names[t] if t in names else lit(t)}))"

        inp = f"(({ref(key)}, {cZ(ttl)}, {cZ(c['now1'])}, {cZ(c['now2'])}), ({cbool(warm)}, {ident}, {cbool(c['cancel'])}), ({tok(c['cur'], c.get('cur_sym'))}, {tok(c['call'], c.get('call_sym'))}))"
        out = f"({status}, {code}, {lit(bytes(hooks))})"
        mcases.append((inp, out))
    ok, bad, clog = ctx.coq_mismatches(header, "run_x gen_b64_canonical", "eqb3", mcases, "case_x", "N * N * list N", shard=1200)
    ctx.count("model_cases", len(mcases))
    ctx.obligation("correspondence:M_Token.run_case", "correspondence", ok and not bad, clog if not ok else f"{len(bad)} of {len(mcases)} cases disagree")
    for i in bad[:3]:
        c = cases[i]
        shown = ctx.coq_show(header, f"run_x gen_b64_canonical {mcases[i][0]}")
        ctx.violation(
            "model-impl-disagree",
            "implementation and model decide differently",
            {"class": c["cls"], "app": c["app"], "method": c["method"], "identity": repr(c["ident"]), "clock": [c["now1"], c["now2"]], "cancel": c["cancel"], "variant": c.get("variant"),
             "cursor_token": None if c["cur"] is None else c["cur"].decode("latin-1"), "call_token": None if c["call"] is None else c["call"].decode("latin-1"),
             "impl": list(results[i]), "model": shown[-300:]},
        )
