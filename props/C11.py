"""C11 HTTP producer output is independent of chunking and resumption.

proof         : coq/prop/P_C11.v over model/M_HttpProd.v (turn-by-turn HTTP producer on top of the shared wire core
                M_Wire: step / exec_step / obs_prod), proofs in proof/L_HttpProd.v.  C01_turns_invisible (P_C01) is
                re-derived for this model through `C11_turns_are_wire_core_frames`.
regenerated   : `_encode_resume_token` / `_decode_resume_token` (vgi_rpc/http/_client.py) -> gen/G_HttpProd.v (byte layout
                + decode guards), the producer loop's should_continue / budget expressions (_app_stream.py) -> same file;
                tie/T_HttpProd.v proves them equal to the modelled terms and restates the round trip over the generated layout.
correspondence: the REAL Falcon app (`make_wsgi_app`) around one RpcServer replaying generated producer programs, driven by
                the REAL client (`http_connect`, HttpStreamSession.__iter__ / next_with_token / resume_stream / seek_to_token)
                through an in-process recording client.  Caps: None, 1, every turn boundary b-1 / b / b+1 computed from the
                measured frame sizes, huge; response codings identity / zstd / gzip; three method shapes (call state, no call
                state, declared header); every resume token replayed on the origin worker (warm), on a second worker sharing
                the key (cold first, warm afterwards), on a worker with `call_state_cache_entries=0` (always cold), via
                resume_stream and via init + seek_to_token -- the latter also on workers whose /init response already
                finished the fresh stream (huge cap, smallest cap that fits the whole stream) and on the origin's own
                session after it was read to end-of-stream (rewind), read back by iteration and by next_with_token.  Compared: client events and the chunking (data batches and token
                per response) against M_HttpProd.run_case; property oracles evaluated on the implementation alone.

Readings adopted
  * "the sequence of batches a client iterates": the data batches yielded by HttpStreamSession.__iter__ (order, rows, tag,
    application metadata).  Logs and the terminal outcome are compared with the model (correspondence), not by the oracle.
  * "a turn's body exceeds the cap by at most the last batch written": the position of the response body was still below the
    cap when the output of the turn's last process() call (its log batches and its data batch) was appended; what every turn
    carries besides (IPC schema, the init logs of the first turn, token sentinel, EOS) is not counted as overshoot.  Bodies
    are measured decoded (the unit `max_response_bytes` is accounted in for the /init turn, whose coding happens afterwards);
    the size on the wire is recorded in the evidence.  A turn that ran a single process() call trivially satisfies it.
  * while the cap test of the source reads the sink behind the compressor (translator: gen_meter_front = false) the chunking
    of coded continuation turns is outside the model (it depends on the codec's buffering): such runs are held to the
    oracles (same events as the identity-coded run; overshoot bound -> finding) and their chunking is not compared.  On
    a tree whose cap test reads the position in front of the compressor, coded runs must chunk exactly like identity runs.
  * resuming with a different token key is outside the statement ("sharing the token key"); it is exercised as a negative
    control only (must fail, must not yield batches).
"""
from __future__ import annotations

import json
import time
from typing import Any

META = {
    "id": "C11",
    "technique": "Coq proof over a turn-by-turn model of the HTTP producer (on the shared wire core) + regenerated resume-token layout / loop guards + differential correspondence on the real Falcon app and client",
    "level_text": "Coq theorems for ALL producer programs, caps (None | any N), frame-size functions, codec lags, worker caches: "
    "the client's iteration equals the reference semantics whatever the chunking (batches identical for any two workers); "
    "resuming from the token handed out after k batches, on any worker sharing the key with ANY consistent cache (warm, cold, "
    "zero-capacity), yields exactly the events of the remaining steps; a turn's body is below cap + last process() output; "
    "resume-token bytes round-trip.  The model is tied to the source by regenerated terms and by running the real server and "
    "client against it on generated programs with caps placed on every chunk boundary.",
    "level_note": "partial: (1) C11_cap_independent_partial excludes programs whose FIRST HTTP response carries an error after "
    "data batches (the client drops them: R_C11.first_response_error_refuted, finding first-response-error-drops-preceding-batches, "
    "same defect as C01's http-first-turn-error-discards-header-and-batches); (2) C11_overshoot_le_last needs the cap test to read the "
    "body position in front of the compressor (R_C11.lagging_meter_overshoot_refuted documents the current code under a negotiated codec). "
    "Trusted: Coq kernel, the translators, pyarrow IPC framing / codecs, sealed tokens modelled symbolically (ideal AEAD; C12), "
    "call-state cache without expiry (C14), frame sizes measured on the implementation and fed to the model.",
    "design_ref": "§5 C11",
}

COQ_LEVEL = {"EXCEPTION": "EXC", "ERROR": "ERR", "WARN": "WARN", "INFO": "INFO", "DEBUG": "DEBUG", "TRACE": "TRACE"}
SHAPES = {"prod_cs": "ShCs", "prod_plain": "ShPlain", "prod_h": "ShHdr"}
BIG = 10**9
HIDDEN = ("server_id", "request_id")

K_FIRST = "first-response-error-drops-preceding-batches"
K_LAG = "compressed-continuation-turn-overshoots-cap-by-codec-buffer"


# --------------------------------------------------------------------------- generators
def gen_log(rng: Any, text: str, allow_exc: bool) -> list[Any]:
    lvl = rng.choice(["ERROR", "WARN", "INFO", "INFO", "DEBUG", "TRACE"])
    if allow_exc and rng.random() < 0.04:
        lvl = "EXCEPTION"
    extra = {}
    if rng.random() < 0.3:
        extra[rng.choice(["k", "detail"])] = rng.choice(["v", "", "7" * rng.randrange(1, 40)])
    return [lvl, text, extra]


def gen_program(rng: Any, thorough: bool) -> dict[str, Any]:
    n = rng.choice([0, 1, 2, 3, 3, 4, 4, 5, 5, 6, 6, 7] + ([8, 10] if thorough else []))
    steps = []
    for i in range(n):
        rows = rng.choice([0, 1, 5, 40, 40, 150, 150, 600])
        meta = None if rng.random() < 0.7 else {rng.choice(["k", "app.key"]): rng.choice(["v", "", "ü"])}
        logs = [gen_log(rng, f"s{i}.{j}", True) for j in range(rng.choice([0, 0, 0, 1, 1, 2]))]
        steps.append({"logs": logs, "emit": {"rows": rows, "rnd": rng.random() < 0.6, "meta": meta}, "finish": False, "raise": None})
    shape = rng.choices(["plain", "raise", "finish", "emit_finish", "noemit"], [52, 16, 10, 14, 8])[0]
    if n and shape != "plain":
        i = rng.randrange(n)
        if shape == "raise":
            steps[i]["raise"] = [rng.choice(["ValueError", "RuntimeError", "C11UserError"]), rng.choice(["boom", "", "bad ünicode"])]
            if rng.random() < 0.5:
                steps[i]["emit"] = None
        elif shape == "finish":
            steps[i]["emit"], steps[i]["finish"] = None, True
        elif shape == "emit_finish":
            steps[i]["finish"] = True
        else:
            steps[i]["emit"] = None
    init_logs = [gen_log(rng, f"i{j}", False) for j in range(rng.choice([0, 0, 1, 2]))]
    return {"init_logs": init_logs, "header": rng.randrange(0, 50), "steps": steps}


# --------------------------------------------------------------------------- Coq rendering
def _s(x: str) -> str:
    from vlib.coqterm import cstr

    return cstr(x)


def _kv(d: dict[str, str] | None) -> str:
    return "[" + "; ".join(f"({_s(k)}, {_s(v)})" for k, v in (d or {}).items()) + "]"


def c_log(l: list[Any]) -> str:
    return f"{{| lvl := {COQ_LEVEL[l[0]]}; text := {_s(l[1])}; extra := {_kv(l[2])} |}}"


def c_exn(e: list[str]) -> str:
    return f"{{| cls := {_s(e[0])}; emsg := {_s(e[1])}; kind := None |}}"


def c_batch(rows: int, tag: int, meta: dict[str, str] | None) -> str:
    return f"{{| rows := {rows}%N; tag := {tag}%N; meta := {_kv(meta)} |}}"


def c_prog(p: dict[str, Any]) -> str:
    steps = []
    for i, st in enumerate(p["steps"]):
        em = "None" if st["emit"] is None else f"(Some {c_batch(st['emit']['rows'], i, st['emit']['meta'])})"
        ra = "None" if not st["raise"] else f"(Some {c_exn(st['raise'])})"
        steps.append(f"{{| slogs := [{'; '.join(c_log(l) for l in st['logs'])}]; emit := {em}; fin := {'true' if st['finish'] else 'false'}; sraise := {ra} |}}")
    return f"{{| ilogs := [{'; '.join(c_log(l) for l in p['init_logs'])}]; ires := InitOk; hdr := (Some {p['header']}%Z); steps := [{'; '.join(steps)}] |}}"


def c_event(e: list[Any]) -> str:
    t = e[0]
    if t == "log":
        return f"ELog {c_log([e[1], e[2], e[3]])}"
    if t == "batch":
        return f"EBatch {c_batch(e[1], e[2], e[3])}"
    if t == "error":
        return f"EError {_s(e[1])} {_s(e[2])}"
    if t == "done":
        return "EDone"
    if t == "blocked":
        return "EBlocked"
    return f"EError {_s('client_exc:' + str(e[1]))} {_s(str(e[2]))}"


def c_out(parts: list[tuple[list[Any], list[tuple[int, bool]]]]) -> str:
    return "[" + "; ".join("([" + "; ".join(c_event(e) for e in ev) + "], [" + "; ".join(f"({n}%N, {'true' if t else 'false'})" for n, t in tr) + "])" for ev, tr in parts) + "]"


def c_wspec(key: int, cap: int | None, ents: int) -> str:
    return f"{{| ws_key := {key}%N; ws_cap := {'None' if cap is None else f'(Some {cap}%N)'}; ws_ents := {ents}%nat |}}"


HEADER = (
    "From Coq Require Import List NArith ZArith Bool.\nFrom VGI Require Import Corr M_Wire M_HttpProd.\nImport ListNotations.\nOpen Scope N_scope.\n"
)


# --------------------------------------------------------------------------- driving the implementation
class Rec:
    def __init__(self) -> None:
        self.events: list[list[Any]] = []

    def on_log(self, msg: Any) -> None:
        extras = {k: v for k, v in (msg.extra or {}).items() if k not in HIDDEN}
        self.events.append(["log", msg.level.value, msg.message, extras])


def batch_event(ab: Any) -> list[Any]:
    md = {}
    if ab.custom_metadata is not None:
        for k, v in ab.custom_metadata.items():
            ks = k.decode() if isinstance(k, bytes) else k
            if not ks.startswith("vgi_rpc."):
                md[ks] = v.decode() if isinstance(v, bytes) else v
    tag = int(md.pop("t", -1))
    return ["batch", ab.batch.num_rows, tag, md or None]


def check_payload(ctx: Any, pid: int, ab: Any, repl: dict[str, Any]) -> None:
    """the batch content is the one the step emitted (column r is the step's deterministic fill)"""
    from harness import c11_service as S

    ev = batch_event(ab)
    st = S.PROGRAMS[pid]["steps"][ev[2]] if 0 <= ev[2] < len(S.PROGRAMS[pid]["steps"]) else None
    ok = st is not None and st["emit"] is not None
    if ok:
        want = S.fill(pid, ev[2], ev[1], bool(st["emit"].get("rnd")))
        ok = ab.batch.column("r").to_pylist() == want and ab.batch.column("v").to_pylist() == [ev[2]] * ev[1]
    if not ok:
        ctx.violation("batch-content-altered", "a delivered batch does not carry the rows its step emitted", {**repl, "batch": ev})


def guarded(ev: list[list[Any]], fn: Any) -> None:
    from vgi_rpc.rpc import RpcError

    try:
        fn()
    except RpcError as e:
        ev.append(["error", e.error_type, e.error_message])
    except BaseException as e:  # noqa: BLE001 - anything else escaping the client API is an observation
        ev.append(["client_exc", type(e).__name__, str(e)[:200]])


def turn_summary(rc: Any, S: Any) -> list[tuple[int, bool]]:
    out = []
    for t in rc.turns:
        try:
            fr = S.body_frames(t["body"])
        except Exception:  # noqa: BLE001 - a body that is not Arrow IPC (4xx JSON...) has no frames
            out.append((0, False))
            continue
        msgs = fr[-1] if fr else []  # the turn's data stream (a declared header travels in a stream of its own before it)
        out.append((sum(1 for k, _, _ in msgs if k == "data"), any(k == "token" for k, _, _ in msgs)))
    return out


def do_iterate(ctx: Any, app: Any, codec: str | None, method: str, pid: int) -> tuple[list[list[Any]], Any]:
    from harness import c11_service as S
    from vgi_rpc.http import http_connect

    rc = S.RecClient(app, codec)
    rec = Rec()

    def body() -> None:
        with http_connect(S.C11Proto, client=rc, on_log=rec.on_log, compression_level=None) as proxy:
            sess = getattr(proxy, method)(pid=pid)
            for ab in sess:
                check_payload(ctx, pid, ab, {"pid": pid, "method": method})
                rec.events.append(batch_event(ab))
            rec.events.append(["done"])

    guarded(rec.events, body)
    ctx.count("impl_runs")
    return rec.events, rc


def read_session(ctx: Any, sess: Any, pid: int, how: str, ev: list[list[Any]], repl: dict[str, Any]) -> None:
    """read a positioned session to the end, by iteration or by repeated next_with_token"""
    if how == "iterate":
        for ab in sess:
            check_payload(ctx, pid, ab, repl)
            ev.append(batch_event(ab))
        ev.append(["done"])
        return
    for _ in range(64):
        ab, _tok = sess.next_with_token()
        if ab is None:
            ev.append(["done"])
            return
        check_payload(ctx, pid, ab, repl)
        ev.append(batch_event(ab))
    ev.append(["client_exc", "NoEnd", "next_with_token did not end"])


def do_rewind(ctx: Any, holder: dict[str, Any], pid: int, tok: bytes, how: str) -> tuple[list[list[Any]], Any]:
    """the SAME session object that was already read to end-of-stream: seek_to_token(tok), read again"""
    sess, rc, rec = holder["sess"], holder["rc"], holder["rec"]
    del rc.turns[:]
    del rec.events[:]
    ev: list[list[Any]] = rec.events if how == "iterate" else []

    def body() -> None:
        sess.seek_to_token(tok)
        read_session(ctx, sess, pid, how, ev, {"pid": pid, "via": "rewind:" + how})

    guarded(ev, body)
    ctx.count("impl_runs")
    return list(ev), rc  # a copy: the next rewind clears the session's recorder


def do_seek_fresh(ctx: Any, app: Any, method: str, pid: int, tok: bytes, how: str) -> tuple[list[list[Any]] | None, Any, bool]:
    """the documented relay pattern: a FRESH stream on this worker, seek_to_token(tok), read.  Returns None when the fresh
    call itself raised (no session to seek on), and whether the fresh session was already finished by its /init response."""
    from harness import c11_service as S
    from vgi_rpc.http import http_connect
    from vgi_rpc.rpc import RpcError

    rc = S.RecClient(app, None)
    rec = Rec()
    ctx.count("impl_runs")
    with http_connect(S.C11Proto, client=rc, on_log=rec.on_log, compression_level=None) as proxy:
        try:
            sess = getattr(proxy, method)(pid=pid)
        except RpcError:
            return None, rc, False
        was_finished = bool(sess._finished) or sess._state_bytes is None
        del rc.turns[:]
        del rec.events[:]
        ev: list[list[Any]] = rec.events if how == "iterate" else []

        def body() -> None:
            sess.seek_to_token(tok)
            read_session(ctx, sess, pid, how, ev, {"pid": pid, "method": method, "via": "seek-fresh:" + how})

        guarded(ev, body)
    return list(ev), rc, was_finished


def do_nwt(ctx: Any, app: Any, method: str, pid: int, holder: dict[str, Any] | None = None) -> tuple[list[list[Any]], list[bytes | None], Any]:
    """next_with_token to the end: events (batches, terminal; logs are recorded but not part of this trace) and tokens."""
    from harness import c11_service as S
    from vgi_rpc.http import http_connect

    rc = S.RecClient(app, None)
    rec = Rec()
    ev: list[list[Any]] = []
    toks: list[bytes | None] = []

    def body() -> None:
        with http_connect(S.C11Proto, client=rc, on_log=rec.on_log, compression_level=None) as proxy:
            sess = getattr(proxy, method)(pid=pid)
            if holder is not None:
                holder.update(sess=sess, rc=rc, rec=rec)
            for _ in range(64):
                ab, tok = sess.next_with_token()
                if ab is None:
                    ev.append(["done"])
                    return
                check_payload(ctx, pid, ab, {"pid": pid, "method": method, "via": "next_with_token"})
                ev.append(batch_event(ab))
                toks.append(tok)
            ev.append(["client_exc", "NoEnd", "next_with_token did not end"])

    guarded(ev, body)
    ctx.count("impl_runs")
    return ev, toks, rc


def do_resume(ctx: Any, app: Any, codec: str | None, method: str, pid: int, tok: bytes, via: str) -> tuple[list[list[Any]], Any]:
    from harness import c11_service as S
    from vgi_rpc.http import http_connect

    rc = S.RecClient(app, codec)
    rec = Rec()

    def body() -> None:
        with http_connect(S.C11Proto, client=rc, on_log=rec.on_log, compression_level=None) as proxy:
            if via == "resume_stream":
                sess = proxy.resume_stream(method, tok)
            else:
                sess = getattr(proxy, method)(pid=pid)  # a fresh stream on this worker (its own first turn is discarded)
                del rc.turns[:]
                del rec.events[:]
                sess.seek_to_token(tok)
            for ab in sess:
                check_payload(ctx, pid, ab, {"pid": pid, "method": method, "via": via})
                rec.events.append(batch_event(ab))
            rec.events.append(["done"])

    guarded(rec.events, body)
    ctx.count("impl_runs")
    return rec.events, rc


def batches(ev: list[list[Any]]) -> list[list[Any]]:
    return [e for e in ev if e[0] == "batch"]


# --------------------------------------------------------------------------- oracles on the implementation
def step_of(kind: str, key: Any) -> Any:
    """which process() call wrote this frame: step index, 'init' for init logs, 'tail' for framework frames"""
    if kind == "data":
        return key
    if kind == "log":
        txt = key[1]
        if txt.startswith("s") and "." in txt and txt[1:].split(".")[0].isdigit():
            return int(txt[1:].split(".")[0])
        if txt.startswith("i") and txt[1:].isdigit():
            return "init"
        return "tail"  # the error batch of a raising step: written after the loop decided to continue
    return None


def overshoot_check(ctx: Any, S: Any, rc: Any, cap: int | None, codec: str | None, repl: dict[str, Any]) -> bool:
    """True when every turn of this run respects the bound (reading in the module docstring)."""
    ok = True
    for ti, t in enumerate(rc.turns):
        if cap is None or t["status"] != 200:
            continue
        streams = S.body_frames(t["body"])
        data_stream = streams[-1]
        pos = 0
        groups: list[tuple[Any, int]] = []  # (owner, position of the body before the group's first frame)
        for kind, key, size in data_stream:
            owner = step_of(kind, key)
            if owner not in (None, "init") and (not groups or groups[-1][0] != owner):
                groups.append((owner, pos))
            pos += size
        ctx.count("turns_checked")
        if len(groups) >= 2 and groups[-1][1] >= cap:
            ok = False
            n_over = sum(1 for _, p in groups if p >= cap)
            key = K_LAG if (codec is not None and t["path"].endswith("/exchange")) else "turn-body-overshoots-cap-by-more-than-last-batch"
            ctx.violation(
                key,
                "a producer turn kept calling process() although the response body had already reached max_response_bytes"
                + (" (the cap test reads the position of the sink behind the compressor, which lags by the codec's buffer)" if key == K_LAG else ""),
                {**repl, "turn": ti, "cap": cap, "codec": codec, "decoded_body": t["plain"], "wire_body": t["wire"],
                 "process_outputs_in_turn": len(groups), "outputs_started_at_or_above_cap": n_over, "position_before_last_output": groups[-1][1]},
            )
    return ok


def size_tables(S: Any, rcs: list[Any], ctx: Any) -> tuple[dict[str, int], dict[int, int], int, bool]:
    logs: dict[str, int] = {}
    data: dict[int, int] = {}
    base = None
    stable = True
    for rc in rcs:
        for t in rc.turns:
            if t["status"] != 200:
                continue
            try:
                streams = S.body_frames(t["body"])
            except Exception:  # noqa: BLE001
                continue
            st = streams[-1]
            b = st[0][2]
            if base is not None and b != base:
                stable = False
            base = b
            for kind, key, size in st[1:]:
                if kind == "log":
                    if logs.setdefault(key[1], size) != size:
                        stable = False
                elif kind == "data":
                    if data.setdefault(key, size) != size:
                        stable = False
    return logs, data, (base or 0), stable


def boundaries(prog: dict[str, Any], method: str, logs: dict[str, int], data: dict[int, int], base: int) -> list[int]:
    """positions of the body after each process() output when nothing is cut: caps on/around them hit every chunking edge"""
    out = []
    z = base + (0 if method == "prod_h" else sum(logs.get(l[1], 0) for l in prog["init_logs"]))
    zc = base
    for i, st in enumerate(prog["steps"]):
        if st["raise"] or st["finish"] or st["emit"] is None:
            break
        w = sum(logs.get(l[1], 0) for l in st["logs"]) + data.get(i, 0)
        z += w
        zc += w
        out += [z, zc]
    return out


# --------------------------------------------------------------------------- translation (regenerated leg)
def translate(ctx: Any) -> None:
    from translate import t_c11_resume

    ctx.gen("G_HttpProd", lambda: t_c11_resume.generate(ctx.repo))


# --------------------------------------------------------------------------- the check
def run(ctx: Any) -> None:
    translate(ctx)
    ctx.prove(
        ["prop/P_C11.vo", "refuted/R_C11.vo", "tie/T_HttpProd.vo"],
        {
            "P_C11": [
                "C11_iterate_is_reference", "C11_cap_independent_partial", "C11_resume", "C11_resume_any_cache_same", "C11_seek_resume",
                "C11_overshoot_le_last", "C11_overshoot_le_last_init", "C11_resume_token_roundtrip", "C11_turns_are_wire_core_frames",
            ],
            "T_HttpProd": ["resume_layout_tie", "loop_guard_tie", "C11_source_resume_token_roundtrip", "C11_source_overshoot"],
        },
    )

    from harness import c11_service as S

    thorough = ctx.tier == "thorough"
    rng = ctx.rng
    n_prog = int(__import__("os").environ.get("VERIF_C11_NPROG", 260 if thorough else 28))
    codecs: list[str | None] = [None, "zstd", "gzip"]
    ctx.rule = (
        "case = (producer program, method shape, scenario); scenario iterate: caps {None, 1, huge} + caps on / one below / one above "
        "measured chunk boundaries, x response coding {identity, zstd, gzip}; scenario resume: next_with_token on an uncapped worker, then "
        "every token replayed on the origin (warm), a second worker sharing the key (cold then warm), a zero-entry-cache worker (cold), "
        "a capped worker, via resume_stream and via init+seek_to_token, plus a wrong-key worker (negative control); distinct by "
        "(program, shape, scenario, cap, codec); non-trivial = the program has >= 2 steps"
    )
    witnesses = [
        # first response carries an error after a data batch (cap large): the client drops the batch
        {"init_logs": [], "header": 1, "steps": [
            {"logs": [], "emit": {"rows": 5, "rnd": False, "meta": None}, "finish": False, "raise": None},
            {"logs": [], "emit": None, "finish": False, "raise": ["ValueError", "boom"]}]},
        # many incompressible batches: a compressed continuation turn runs far past a small cap
        {"init_logs": [], "header": 1, "steps": [
            {"logs": [], "emit": {"rows": 150, "rnd": True, "meta": None}, "finish": False, "raise": None} for _ in range(8)]},
    ]
    progs = witnesses + [gen_program(rng, thorough) for _ in range(n_prog)]
    model_cases: list[tuple[str, str]] = []
    model_info: list[dict[str, Any]] = []
    workers: dict[Any, Any] = {}

    def worker(cap: int | None, ents: int = 4096, key: bytes = S.TOKEN_KEY, fresh: bool = False) -> Any:
        k = (cap, ents, key)
        if fresh or k not in workers:
            app = S.make_worker(cap, ents, key)
            if fresh:
                return app
            workers[k] = app
        return workers[k]

    from translate import t_c11_resume

    try:
        meter_front = t_c11_resume.meter_front(ctx.repo)  # does the cap test read the position in front of the compressor?
    except Exception:  # noqa: BLE001 - translation broken: already an obligation
        meter_front = True
    sizes_stable = True
    skipped_lag = 0
    t0 = time.time()
    for pi, prog in enumerate(progs):
        pid = 5000 + pi
        S.PROGRAMS[pid] = prog
        method = ["prod_cs", "prod_plain", "prod_h"][pi % 3] if pi >= len(witnesses) else "prod_cs"
        n = len(prog["steps"])
        nontrivial = n >= 2
        ctx.tally("steps", n)
        ctx.tally("shape", method)
        errs = [i for i, st in enumerate(prog["steps"]) if st["raise"] or (st["emit"] is None and not st["finish"])]
        ctx.tally("first_error_at", errs[0] if errs else "none")
        repl0 = {"program": prog, "method": method}

        # ---------------- reference run: uncapped, identity coding
        ref_ev, ref_rc = do_iterate(ctx, worker(None), None, method, pid)
        logs, data, base, stable = size_tables(S, [ref_rc], ctx)
        sizes_stable = sizes_stable and stable
        ref_b = batches(ref_ev)
        bnds = boundaries(prog, method, logs, data, base)
        caps: list[int | None] = [None, 1, BIG]
        edge = sorted({b + d for b in bnds for d in (-1, 0, 1)})
        caps += edge if thorough else rng.sample(edge, min(len(edge), 5))
        if bnds:
            caps.append(rng.randrange(1, max(bnds) + 50))
        all_rcs = [ref_rc]
        pending: list[tuple[str, Any, Any, dict[str, Any]]] = []  # (scenario, cap / other specs, impl observation, info)

        # ---------------- scenario 0: iterate under every cap x coding
        by_cap: dict[Any, Any] = {}
        for cap in dict.fromkeys(caps):
            for codec in (codecs if thorough or cap in (None, 1) else [None, rng.choice(["zstd", "gzip"])]):  # identity first
                if cap is None and codec is None:
                    ev, rc = ref_ev, ref_rc
                else:
                    ev, rc = do_iterate(ctx, worker(cap), codec, method, pid)
                ctx.case([prog, method, "iterate", cap, codec], nontrivial=nontrivial)
                ctx.tally("cap_kind", "none" if cap is None else ("1" if cap == 1 else ("huge" if cap == BIG else "edge")))
                ctx.tally("codec", codec)
                ctx.tally("turns", len(rc.turns))
                repl = {**repl0, "cap": cap, "codec": codec}
                for t in rc.turns:
                    if codec is not None and t["status"] == 200 and t["encoding"] != codec:
                        ctx.violation("codec-not-applied", "the negotiated response coding was not applied", {**repl, "encoding": t["encoding"]})
                # (a) oracle: batch sequence independent of cap / coding / number of turns
                if batches(ev) != ref_b:
                    first = S.body_frames(rc.turns[0]["body"])[-1] if rc.turns and rc.turns[0]["status"] == 200 else []
                    kinds = [(k, key) for k, key, _ in first]
                    has_err = any(k == "log" and key[0] == "EXCEPTION" for k, key in kinds)
                    has_data = any(k == "data" for k, _ in kinds)
                    lost_only = batches(ev) == [] and has_err and has_data
                    ctx.violation(
                        K_FIRST if lost_only else "batches-depend-on-cap-or-codec",
                        "the batches a client iterates differ between two max_response_bytes / coding settings"
                        + (": an error in the first response makes the call raise and drops the batches that preceded it" if lost_only else ""),
                        {**repl, "batches": batches(ev), "batches_uncapped": ref_b, "events": ev, "events_uncapped": ref_ev},
                    )
                # (b) oracle: overshoot bound
                within = overshoot_check(ctx, S, rc, cap, codec, repl)
                # (c) model: identity-coded runs go to the model; a coded run must equal the identity-coded run under the same cap
                obs = (ev, turn_summary(rc, S))
                if codec is None:
                    by_cap[cap] = obs
                else:
                    if not within:
                        skipped_lag += 1
                    elif obs[0] != by_cap[cap][0] or (meter_front and obs != by_cap[cap]):
                        ctx.violation("response-coding-changes-events-or-chunking", "same cap, different response coding: events or chunking differ",
                                      {**repl, "identity": by_cap[cap], "coded": obs})
                    continue
                all_rcs.append(rc)
                pending.append(("0", (c_wspec(1, cap, 8), "([], [])"), [obs], {**repl, "scenario": "iterate", "impl": list(obs)}))

        # ---------------- scenario 1: next_with_token, then resume everywhere
        origin = worker(None, fresh=True)
        holder: dict[str, Any] = {}
        n_ev, toks, n_rc = do_nwt(ctx, origin, method, pid, holder)
        n_turns = list(n_rc.turns)
        ctx.case([prog, method, "nwt"], nontrivial=nontrivial)
        if batches(n_ev) != ref_b:
            ctx.violation("next-with-token-batches-differ", "next_with_token does not yield the batches iteration yields", {**repl0, "nwt": n_ev, "iterate": ref_ev})
        parts: list[tuple[list[Any], list[tuple[int, bool]]]] = [(n_ev, [])]
        cap2 = rng.choice([c for c in caps if c is not None])
        second = worker(None, 4096, fresh=True)        # shares the key; never saw /init of this stream
        cold = worker(cap2, 0)                          # call_state_cache_entries=0: every request takes the miss path
        others_spec = [c_wspec(1, None, 8), c_wspec(1, cap2, 0)]
        # workers whose /init response already carries the WHOLE stream (no continuation token): a fresh session there is
        # born finished, and seek_to_token must bring it back to life.  huge cap; the smallest cap that still fits everything.
        init_bnds = bnds[0::2]
        cap_fit = (max(init_bnds) + 1) if init_bnds else BIG
        seekers = [("seek-fresh-huge-cap", worker(BIG), BIG), ("seek-fresh-fitting-cap", worker(cap_fit), cap_fit)]
        seekers_spec = [c_wspec(1, c, 8) for _, _, c in seekers]
        live = [tk for tk in toks if tk is not None]
        for k, tk in enumerate(toks):
            if tk is None:
                if k != len(toks) - 1:
                    ctx.violation("resume-token-missing-mid-stream", "next_with_token returned no token before the last batch", {**repl0, "k": k})
                continue
            # byte layout of the blob (independent of the model)
            from vgi_rpc.http._client import _decode_resume_token, _encode_resume_token

            st_b, call_b = _decode_resume_token(tk)
            if _encode_resume_token(st_b, call_b) != tk or not call_b:
                ctx.violation("resume-token-roundtrip", "decode/encode of a resume token is not the identity or the call token is missing", {**repl0, "k": k})
            want = ref_b[k + 1:]
            targets = [("origin-warm", origin, None, "resume_stream"), ("second-worker", second, None, "resume_stream"), ("cold-cache-capped", cold, None, "resume_stream")]
            for name, app, codec, via in targets:
                ev, rc = do_resume(ctx, app, codec, method, pid, tk, via)
                ctx.case([prog, method, "resume", k, name], nontrivial=nontrivial)
                ctx.tally("resume_target", name)
                if batches(ev) != want:
                    ctx.violation("resume-not-remaining-batches", f"resuming after batch {k + 1} on {name} does not yield exactly the remaining batches",
                                  {**repl0, "k": k, "target": name, "resumed": ev, "remaining": want})
                capx = cap2 if name == "cold-cache-capped" else None
                overshoot_check(ctx, S, rc, capx, codec, {**repl0, "k": k, "target": name})
                all_rcs.append(rc)
                parts.append((ev, turn_summary(rc, S)))
            # further routes, oracle only: seek_to_token on a fresh session, a coded response, the second worker again (now warm)
            extra = [("second-worker-warm-seek", second, None, "seek_to_token"), ("cold-cache-coded", cold, rng.choice(["zstd", "gzip"]), "resume_stream")]
            for name, app, codec, via in (extra if thorough or k % 2 == 0 else extra[:1]):
                ev, rc = do_resume(ctx, app, codec, method, pid, tk, via)
                ctx.case([prog, method, "resume", k, name], nontrivial=nontrivial)
                ctx.tally("resume_target", name)
                if batches(ev) != want:
                    ctx.violation("resume-not-remaining-batches", f"resuming after batch {k + 1} on {name} does not yield exactly the remaining batches",
                                  {**repl0, "k": k, "target": name, "resumed": ev, "remaining": want})
                overshoot_check(ctx, S, rc, cap2 if app is cold else None, codec, {**repl0, "k": k, "target": name, "codec": codec})
            # init + seek_to_token on sessions the /init response has (possibly) already finished; then the origin's own
            # session, read to end-of-stream above, rewound.  Model: seek_fresh_iter / iter_sess (seek ss tok).
            def judge(name: str, ev: list[list[Any]]) -> None:
                ctx.case([prog, method, "resume", k, name], nontrivial=nontrivial)
                ctx.tally("resume_target", name)
                if batches(ev) != want:
                    ctx.violation("resume-not-remaining-batches", f"resuming after batch {k + 1} via {name} does not yield exactly the remaining batches",
                                  {**repl0, "k": k, "target": name, "resumed": ev, "remaining": want})

            for name, app, capx in seekers:
                ev_s, rc, was_fin = do_seek_fresh(ctx, app, method, pid, tk, "iterate")
                if ev_s is None:
                    ctx.tally("resume_target", name + ":fresh-call-raised")
                    parts.append(([["blocked"]], []))
                    continue
                ctx.tally("seek_on_finished_session", was_fin)
                judge(name + (":finished" if was_fin else ":live"), ev_s)
                overshoot_check(ctx, S, rc, capx, None, {**repl0, "k": k, "target": name})
                all_rcs.append(rc)
                parts.append((ev_s, turn_summary(rc, S)))
            ev_r, rc = do_rewind(ctx, holder, pid, tk, "iterate")
            judge("rewind-exhausted-session:iterate", ev_r)
            parts.append((ev_r, turn_summary(rc, S)))
            # oracle only: the same two routes read with next_with_token (uncapped workers: one batch per response)
            ev_r2, _ = do_rewind(ctx, holder, pid, tk, "nwt")
            judge("rewind-exhausted-session:next_with_token", ev_r2)
            ev_s2, _, was_fin2 = do_seek_fresh(ctx, second, method, pid, tk, "nwt")
            if ev_s2 is not None:
                judge("seek-fresh-uncapped:next_with_token" + (":finished" if was_fin2 else ":live"), ev_s2)
            # negative control: another key must not resume
            if k == 0:
                ev, _ = do_resume(ctx, worker(None, 4096, S.OTHER_KEY), None, method, pid, tk, "resume_stream")
                if batches(ev) or not ev or ev[-1][0] != "error":
                    ctx.violation("resume-under-foreign-key", "a worker with a different token key resumed the stream", {**repl0, "events": ev})
        n_rc.turns[:] = n_turns  # the rewinds reused (and cleared) the origin's recording client
        all_rcs.append(n_rc)
        pending.append(("1", (c_wspec(1, None, 8), f"([{'; '.join(others_spec)}], [{'; '.join(seekers_spec)}])"), parts, {**repl0, "scenario": "nwt+resume", "cap2": cap2, "impl": parts, "tokens": len(live)}))
        # frame sizes: every frame the server wrote in any run of this program (a client that stops at an error never
        # requests the later turns, so no single run sees them all)
        logs, data, base, stable2 = size_tables(S, all_rcs, ctx)
        sizes_stable = sizes_stable and stable2
        sizes_c = f"(([{'; '.join(f'({_s(k)}, {v}%N)' for k, v in logs.items())}], [{'; '.join(f'({k}%N, {v}%N)' for k, v in data.items())}]), {base}%N)"
        for scen, (w0s, others_s), obs_parts, info in pending:
            model_cases.append((f"({c_prog(prog)}, {SHAPES[method]}, {sizes_c}, {w0s}, {others_s}, {scen}%N)", c_out(obs_parts)))
            model_info.append(info)
        if pi < 3 + len(witnesses):
            ctx.sample({"program": prog, "method": method, "uncapped_events": ref_ev, "resume_tokens": len(live)})
    ctx.log(f"implementation runs: {ctx.counters.get('impl_runs', 0)} in {time.time() - t0:.1f}s")
    ctx.count("codec_cases_outside_model_because_of_lagging_meter", skipped_lag)
    ctx.obligation("env:frame-sizes-stable", "environment", sizes_stable, "the same frame had two different encoded sizes within a case")
    lag_seen = any(v["key"] == K_LAG for v in ctx.violations)
    ctx.obligation(
        "source:cap-test-meter", "correspondence", meter_front != lag_seen,
        "the cap test reads the sink " + ("in front of" if meter_front else "behind") + " the compressor (translator) but the lagging-meter overshoot "
        + ("reproduced" if lag_seen else "did not reproduce") + " on the witness program under a coded continuation turn",
    )
    fin_seeks = ctx.dist.get("seek_on_finished_session", {}).get("True", 0)
    ctx.obligation("env:seek-on-finished-session-exercised", "environment", fin_seeks > 0, "no fresh session was already finished by its /init response when seek_to_token was applied")
    ctx.obligation("env:checked-some-turns", "environment", ctx.counters.get("turns_checked", 0) > 50, "overshoot oracle saw too few capped turns")

    ok, bad, log = ctx.coq_mismatches(HEADER, "run_case", "out_eqb", model_cases, "case_in", "case_out", shard=30)
    ctx.count("model_cases", len(model_cases))
    ctx.obligation("correspondence:M_HttpProd.run_case", "correspondence", ok and not bad, log if not ok else f"{len(bad)} of {len(model_cases)} cases disagree")
    for i in bad[:3]:
        shown = ctx.coq_show(HEADER, f"run_case {model_cases[i][0]}")
        info = model_info[i]
        ctx.violation("model-impl-disagree", "implementation and model observe differently",
                      {k: v for k, v in info.items() if k != "impl"} | {"impl": json.dumps(info["impl"], default=str)[:3000], "model": shown[-3000:]})
    ctx.assumptions += [
        "sealed tokens are symbolic (key, call id, payload) records: opening under another key fails, no forgery (ideal AEAD; byte level: C12)",
        "call ids are fresh per stream (os.urandom(16)); the call-state cache never expires entries during a run (ttl = hours; C14 owns the cache)",
        "frame sizes are measured on the implementation (pyarrow IPC encoding) and fed to the model; a frame has the same size in every turn (checked)",
        "the response coding is applied by pyarrow / the compression middleware and removed by the test client; bodies are compared decoded",
        "state.process depends only on the serialised cursor and the call state (true of the harness service; a property of the service, not of the framework)",
    ]
